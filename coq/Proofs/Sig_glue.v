(* Sig_glue.v -- the SIGNATURE clauses of C15 (merge) and C12 (save / load): which time-signature and key-signature
   events survive to_rel / normalise / to_abs, at which ticks, and which signature is "in force" at a tick.
   Part A: specification, independent of the model functions (signature events of an absolute / relative list, removal
           of the events that repeat the signature in force, the signature in force at a tick).
   Part B: normalise on the timed view of a relative list (loop invariant with ticks; builds on C07_proofs).
   Part C: through to_rel and to_abs_aux.     Part D: through sort_abs (stable insertion sort) and insort.
   Part E: the round trip  to_abs (normalise (to_rel a)).
   Used by C15_sigs.v and C12_sigs.v. *)
From Coq Require Import ZArith List Bool Lia Permutation.
From Model Require Import Base Seq.
From Proofs Require Import C04_sort C04_proofs C07_proofs C17_proofs C15_proofs Sound_glue.
Import ListNotations.
Open Scope Z_scope.

(* ================================================================ Part A: specification *)
(* ---------------------------------------------------------------- A.1 generic: drop repetitions / value in force *)
Section Dedup.
  Context {E V : Type}.
  Variable val : E -> V.
  Variable eqb : V -> V -> bool.

  (* drop every element whose value equals the value of the previously KEPT element (prev = the value in force before
     the list) *)
  Fixpoint dedup (prev : V) (l : list E) : list E :=
    match l with
    | [] => []
    | e :: l' => if eqb (val e) prev then dedup prev l' else e :: dedup (val e) l'
    end.
  (* the value in force after the list *)
  Fixpoint dlast (prev : V) (l : list E) : V :=
    match l with
    | [] => prev
    | e :: l' => if eqb (val e) prev then dlast prev l' else dlast (val e) l'
    end.

  Lemma dedup_app a b : forall prev, dedup prev (a ++ b) = dedup prev a ++ dedup (dlast prev a) b.
  Proof.
    induction a as [|e a IH]; intros prev; cbn [app dedup dlast]; [reflexivity|].
    destruct (eqb (val e) prev); rewrite IH; reflexivity.
  Qed.
  Lemma dlast_app a b : forall prev, dlast prev (a ++ b) = dlast (dlast prev a) b.
  Proof.
    induction a as [|e a IH]; intros prev; cbn [app dlast]; [reflexivity|].
    destruct (eqb (val e) prev); apply IH.
  Qed.
  Lemma dedup_In x l : forall prev, In x (dedup prev l) -> In x l.
  Proof.
    induction l as [|e l IH]; intros prev H; [exact H|]. cbn [dedup] in H.
    destruct (eqb (val e) prev); [right; eapply IH; eauto|].
    destruct H as [H|H]; [now left|right; eapply IH; eauto].
  Qed.
End Dedup.

Lemma dedup_map {A E V} (g : A -> E) (val : E -> V) (eqb : V -> V -> bool) l : forall prev,
  dedup val eqb prev (map g l) = map g (dedup (fun a => val (g a)) eqb prev l).
Proof.
  induction l as [|a l IH]; intros prev; cbn [map dedup]; [reflexivity|].
  destruct (eqb (val (g a)) prev); rewrite IH; reflexivity.
Qed.
Lemma dedup_ext {E V} (val val' : E -> V) (eqb : V -> V -> bool) l :
  (forall e, In e l -> val e = val' e) -> forall prev, dedup val eqb prev l = dedup val' eqb prev l.
Proof.
  induction l as [|e l IH]; intros H prev; cbn [dedup]; [reflexivity|].
  rewrite <- (H e (or_introl eq_refl)).
  destruct (eqb (val e) prev); rewrite IH; auto; intros x Hx; apply H; now right.
Qed.

(* ---------------------------------------------------------------- A.2 signature events: (tick, value) *)
Section Force.
  Context {V : Type}.
  Variable eqb : V -> V -> bool.
  Hypothesis eqb_spec : forall a b, eqb a b = true <-> a = b.

  Definition sev_t : Type := (Z * V)%type.

  (* the events that do not repeat the value in force *)
  Definition dedup_ev (prev : V) (l : list sev_t) : list sev_t := dedup snd eqb prev l.

  (* the value in force at tick t: the value of the entry with the greatest tick <= t (of several entries at that tick
     the last one in list order); d when there is no entry at or before t.  For a list with non-decreasing ticks this
     is the value of the LAST entry with tick <= t (in_force_sorted). *)
  Fixpoint in_force_from (bt : option Z) (bv : V) (l : list sev_t) (t : Z) : V :=
    match l with
    | [] => bv
    | (c, v) :: l' =>
        if (c <=? t) && (match bt with None => true | Some c0 => c0 <=? c end)
        then in_force_from (Some c) v l' t else in_force_from bt bv l' t
    end.
  Definition in_force (d : V) (l : list sev_t) (t : Z) : V := in_force_from None d l t.

  (* ticks are non-decreasing *)
  Fixpoint ev_sorted (l : list sev_t) : bool :=
    match l with
    | [] => true
    | e :: l' => match l' with [] => true | e' :: _ => (fst e <=? fst e') && ev_sorted l' end
    end.
  (* no two different values share a tick *)
  Definition clash_free (l : list sev_t) : bool :=
    forallb (fun e => forallb (fun e' => negb (fst e =? fst e') || eqb (snd e) (snd e')) l) l.

  (* the simple scan, adequate for sorted lists *)
  Fixpoint last_le (bv : V) (l : list sev_t) (t : Z) : V :=
    match l with
    | [] => bv
    | (c, v) :: l' => if c <=? t then last_le v l' t else last_le bv l' t
    end.

  Lemma ev_sorted_tail e l : ev_sorted (e :: l) = true -> ev_sorted l = true.
  Proof. destruct l as [|e' l]; [reflexivity|]. cbn [ev_sorted]. intros H. now apply andb_prop in H. Qed.
  Lemma ev_sorted_head e l : ev_sorted (e :: l) = true -> forall x, In x l -> fst e <= fst x.
  Proof.
    revert e. induction l as [|e' l IH]; intros e H x Hx; [contradiction|].
    cbn [ev_sorted] in H. apply andb_prop in H as [H1 H2]. apply Z.leb_le in H1.
    destruct Hx as [<-|Hx]; [exact H1|]. specialize (IH e' H2 x Hx). lia.
  Qed.
  Lemma ev_sorted_cons_intro e l : ev_sorted l = true -> (forall x, In x l -> fst e <= fst x) -> ev_sorted (e :: l) = true.
  Proof.
    intros S H. destruct l as [|e' l]; [reflexivity|]. cbn [ev_sorted] in *. rewrite S, andb_true_r.
    apply Z.leb_le. apply H. now left.
  Qed.

  Lemma in_force_from_sorted l t : forall bt bv, ev_sorted l = true ->
    (forall c0 x, bt = Some c0 -> In x l -> c0 <= fst x) -> in_force_from bt bv l t = last_le bv l t.
  Proof.
    induction l as [|[c v] l IH]; intros bt bv S B; [reflexivity|]. cbn [in_force_from last_le].
    assert (G : match bt with None => true | Some c0 => c0 <=? c end = true).
    { destruct bt as [c0|]; [|reflexivity]. apply Z.leb_le. apply (B c0 (c, v) eq_refl). now left. }
    rewrite G, andb_true_r. destruct (c <=? t).
    - apply IH; [eapply ev_sorted_tail; eauto|]. intros c0 x E Hx. injection E as <-.
      apply (ev_sorted_head _ _ S x Hx).
    - apply IH; [eapply ev_sorted_tail; eauto|]. intros c0 x E Hx. apply (B c0 x E). now right.
  Qed.
  Lemma in_force_sorted d l t : ev_sorted l = true -> in_force d l t = last_le d l t.
  Proof. intros S. apply in_force_from_sorted; [exact S|]. intros c0 x E. discriminate. Qed.

  Lemma last_le_late bv l t : (forall x, In x l -> t < fst x) -> last_le bv l t = bv.
  Proof.
    revert bv. induction l as [|[c v] l IH]; intros bv H; [reflexivity|]. cbn [last_le].
    pose proof (H (c, v) (or_introl eq_refl)) as Hc. cbn [fst] in Hc.
    destruct (c <=? t) eqn:E; [apply Z.leb_le in E; lia|]. apply IH. intros x Hx. apply H. now right.
  Qed.

  (* removing the repetitions does not change the value in force, at any tick (sorted lists) *)
  Lemma last_le_dedup l t : forall bv, ev_sorted l = true -> last_le bv (dedup_ev bv l) t = last_le bv l t.
  Proof.
    unfold dedup_ev. induction l as [|[c v] l IH]; intros bv S; [reflexivity|].
    pose proof (ev_sorted_tail _ _ S) as S'. cbn [dedup snd last_le].
    destruct (eqb v bv) eqn:E.
    - apply eqb_spec in E. subst v. rewrite (IH bv S'). now destruct (c <=? t).
    - cbn [last_le]. destruct (c <=? t) eqn:C; [now apply IH|]. apply Z.leb_gt in C.
      pose proof (ev_sorted_head _ _ S) as Hh. cbn [fst] in Hh.
      rewrite !last_le_late; [reflexivity| |].
      + intros x Hx. specialize (Hh x Hx). lia.
      + intros x Hx. apply dedup_In in Hx. specialize (Hh x Hx). lia.
  Qed.
  (* ... also when the default differs from the value dedup starts from, if the first event is kept *)
  Lemma last_le_dedup_hd d p c v l t : ev_sorted ((c, v) :: l) = true -> eqb v p = false ->
    last_le d (dedup_ev p ((c, v) :: l)) t = last_le d ((c, v) :: l) t.
  Proof.
    intros S E. unfold dedup_ev. cbn [dedup snd]. rewrite E. cbn [last_le].
    pose proof (ev_sorted_tail _ _ S) as S'. destruct (c <=? t) eqn:C; [now apply (last_le_dedup l t v)|].
    apply Z.leb_gt in C. pose proof (ev_sorted_head _ _ S) as Hh. cbn [fst] in Hh.
    rewrite !last_le_late; [reflexivity| |].
    + intros x Hx. specialize (Hh x Hx). lia.
    + intros x Hx. apply dedup_In in Hx. specialize (Hh x Hx). lia.
  Qed.

  Lemma dedup_ev_sorted l : forall prev, ev_sorted l = true -> ev_sorted (dedup_ev prev l) = true.
  Proof.
    unfold dedup_ev. induction l as [|e l IH]; intros prev S; [reflexivity|].
    pose proof (ev_sorted_tail _ _ S) as S'. cbn [dedup]. destruct (eqb (snd e) prev); [now apply IH|].
    apply ev_sorted_cons_intro; [now apply IH|]. intros x Hx. apply dedup_In in Hx.
    apply (ev_sorted_head _ _ S x Hx).
  Qed.

  Theorem in_force_dedup d l t : ev_sorted l = true -> in_force d (dedup_ev d l) t = in_force d l t.
  Proof.
    intros S. rewrite !in_force_sorted by (try apply dedup_ev_sorted; exact S). now apply last_le_dedup.
  Qed.

  (* ---- the value in force does not depend on the order of the events when no two values share a tick *)
  Lemma in_force_from_spec l t : forall bt bv v, in_force_from bt bv l t = v ->
    (v = bv /\ forall x, In x l -> fst x <= t -> match bt with None => False | Some c0 => fst x < c0 end) \/
    (exists c, In (c, v) l /\ c <= t /\ (forall c0, bt = Some c0 -> c0 <= c) /\
               forall x, In x l -> fst x <= t -> fst x <= c).
  Proof.
    induction l as [|[c w] l IH]; intros bt bv v H.
    - left. cbn in H. split; [now symmetry|]. intros x [].
    - cbn [in_force_from] in H.
      destruct ((c <=? t) && match bt with None => true | Some c0 => c0 <=? c end) eqn:G.
      + apply andb_prop in G as [G1 G2]. apply Z.leb_le in G1.
        destruct (IH _ _ _ H) as [[-> A]|(c' & I & L & B & A)].
        * right. exists c. split; [now left|]. split; [exact G1|]. split.
          -- intros c0 ->. now apply Z.leb_le.
          -- intros x [<-|Hx] Hle; [cbn; lia|]. specialize (A x Hx Hle). cbn in A. lia.
        * right. exists c'. split; [now right|]. split; [exact L|]. specialize (B c eq_refl). split.
          -- intros c0 ->. apply Z.leb_le in G2. lia.
          -- intros x [<-|Hx] Hle; [cbn; lia|]. now apply A.
      + destruct (IH _ _ _ H) as [[-> A]|(c' & I & L & B & A)].
        * left. split; [reflexivity|]. intros x [<-|Hx] Hle; [|now apply A]. cbn [fst] in *.
          apply Z.leb_le in Hle. rewrite Hle in G. cbn [andb] in G.
          destruct bt as [c0|]; [apply Z.leb_gt in G; exact G|discriminate].
        * right. exists c'. split; [now right|]. split; [exact L|]. split; [exact B|].
          intros x [<-|Hx] Hle; [|now apply A]. cbn [fst] in *.
          apply Z.leb_le in Hle. rewrite Hle in G. cbn [andb] in G.
          destruct bt as [c0|]; [|discriminate]. apply Z.leb_gt in G. specialize (B c0 eq_refl). lia.
  Qed.

  Lemma clash_free_spec l : clash_free l = true ->
    forall c v v', In (c, v) l -> In (c, v') l -> v = v'.
  Proof.
    unfold clash_free. rewrite forallb_forall. intros H c v v' I1 I2.
    specialize (H _ I1). rewrite forallb_forall in H. specialize (H _ I2). cbn [fst snd] in H.
    rewrite Z.eqb_refl in H. cbn in H. now apply eqb_spec.
  Qed.
  Lemma clash_free_perm l l' : Permutation l l' -> clash_free l = true -> clash_free l' = true.
  Proof.
    intros P H. unfold clash_free in *. rewrite forallb_forall in *. intros x Hx.
    apply forallb_forall. intros y Hy.
    assert (Hx' : In x l) by (eapply Permutation_in; [symmetry|]; eassumption).
    assert (Hy' : In y l) by (eapply Permutation_in; [symmetry|]; eassumption).
    specialize (H x Hx'). rewrite forallb_forall in H. now apply H.
  Qed.

  Theorem in_force_perm d l l' t : Permutation l l' -> clash_free l = true -> in_force d l t = in_force d l' t.
  Proof.
    intros P CF. unfold in_force.
    destruct (in_force_from_spec l t None d _ eq_refl) as [[E A]|(c & I & L & _ & A)];
    destruct (in_force_from_spec l' t None d _ eq_refl) as [[E' A']|(c' & I' & L' & _ & A')].
    - congruence.
    - exfalso. apply (A (c', in_force_from None d l' t)); [eapply Permutation_in; [symmetry|]; eassumption|exact L'].
    - exfalso. apply (A' (c, in_force_from None d l t)); [eapply Permutation_in; eassumption|exact L].
    - assert (I2 : In (c', in_force_from None d l' t) l) by (eapply Permutation_in; [symmetry|]; eassumption).
      assert (I3 : In (c, in_force_from None d l t) l') by (eapply Permutation_in; eassumption).
      pose proof (A _ I2 L') as H1. pose proof (A' _ I3 L) as H2. cbn [fst] in H1, H2.
      assert (c = c') by lia. subst c'. eapply clash_free_spec; eauto.
  Qed.

  (* ---- stable insertion by tick (what binary_insort does on events) and the resulting stable sort *)
  Fixpoint ins_ev (e : sev_t) (l : list sev_t) : list sev_t :=
    match l with [] => [e] | y :: l' => if fst e <? fst y then e :: y :: l' else y :: ins_ev e l' end.
  Definition sort_ev (l : list sev_t) : list sev_t := fold_left (fun acc e => ins_ev e acc) l [].

  Lemma ins_ev_perm e l : Permutation (e :: l) (ins_ev e l).
  Proof.
    induction l as [|y l IH]; cbn [ins_ev]; [reflexivity|]. destruct (fst e <? fst y); [reflexivity|].
    etransitivity; [apply perm_swap|]. now apply perm_skip.
  Qed.
  Lemma ins_ev_sorted e l : ev_sorted l = true -> ev_sorted (ins_ev e l) = true.
  Proof.
    induction l as [|y l IH]; intros S; cbn [ins_ev]; [reflexivity|].
    destruct (fst e <? fst y) eqn:C; [apply Z.ltb_lt in C|apply Z.ltb_ge in C].
    - apply ev_sorted_cons_intro; [exact S|]. intros x [<-|Hx]; [lia|].
      pose proof (ev_sorted_head _ _ S x Hx). lia.
    - apply ev_sorted_cons_intro; [apply IH; eapply ev_sorted_tail; eauto|].
      intros x Hx. apply (Permutation_in _ (Permutation_sym (ins_ev_perm e l))) in Hx.
      destruct Hx as [<-|Hx]; [exact C|]. apply (ev_sorted_head _ _ S x Hx).
  Qed.
  Lemma fold_ins_ev_sorted l : forall acc, ev_sorted acc = true -> ev_sorted (fold_left (fun a e => ins_ev e a) l acc) = true.
  Proof. induction l as [|e l IH]; intros acc S; [exact S|]. cbn [fold_left]. apply IH. now apply ins_ev_sorted. Qed.
  Lemma fold_ins_ev_perm l : forall acc, Permutation (l ++ acc) (fold_left (fun a e => ins_ev e a) l acc).
  Proof.
    induction l as [|e l IH]; intros acc; [reflexivity|]. cbn [fold_left app].
    etransitivity; [|apply IH]. etransitivity; [apply Permutation_middle|].
    apply Permutation_app_head. apply ins_ev_perm.
  Qed.
  Lemma sort_ev_sorted l : ev_sorted (sort_ev l) = true.
  Proof. now apply fold_ins_ev_sorted. Qed.
  Lemma sort_ev_perm l : Permutation l (sort_ev l).
  Proof. unfold sort_ev. rewrite <- (app_nil_r l) at 1. apply fold_ins_ev_perm. Qed.
  Lemma ins_ev_first e l : (forall x, In x l -> fst e < fst x) -> ins_ev e l = e :: l.
  Proof.
    intros H. destruct l as [|y l]; [reflexivity|]. cbn [ins_ev].
    pose proof (H y (or_introl eq_refl)) as Hy. apply Z.ltb_lt in Hy. now rewrite Hy.
  Qed.
End Force.

(* ---------------------------------------------------------------- A.3 time signatures and key signatures *)
Definition tsig : Set := (Z * Z)%type.                    (* (numerator, denominator); (-1,-1) = none *)
Definition ts_none : tsig := (NONE, NONE).
Definition ts_of (m : msg) : tsig := (m_num m, m_den m).

Lemma ts_eqb_spec (a b : tsig) : ts_eqb a b = true <-> a = b.
Proof.
  destruct a as [a1 a2], b as [b1 b2]. unfold ts_eqb. cbn [fst snd]. rewrite andb_true_iff, !Z.eqb_eq.
  split; [intros [-> ->]; reflexivity|intros H; injection H; auto].
Qed.
Lemma okey_eqb_spec (a b : option Key) : okey_eqb a b = true <-> a = b.
Proof.
  split.
  - destruct a as [x|], b as [y|]; cbn; intros H; try reflexivity; try discriminate.
    f_equal. destruct x, y; cbn in H; try reflexivity; discriminate.
  - intros ->. destruct b as [y|]; [|reflexivity]. cbn. unfold key_eqb. apply Z.eqb_refl.
Qed.

(* the signature events of an ABSOLUTE list, in list order: (tick, value) of every TIME_SIGNATURE / KEY_SIGNATURE *)
Definition ts_events (a : list msg) : list (Z * tsig) := map (fun m => (m_time m, ts_of m)) (filter is_ts a).
Definition ks_events (a : list msg) : list (Z * option Key) := map (fun m => (m_time m, m_key m)) (filter is_ks a).
(* the signature events of a RELATIVE list: every signature message with the sum of the waits before it *)
Definition rts_events (r : list msg) : list (Z * tsig) :=
  map (fun x => (fst x, ts_of (snd x))) (filter (fun x => is_ts (snd x)) (timed 0 r)).
Definition rks_events (r : list msg) : list (Z * option Key) :=
  map (fun x => (fst x, m_key (snd x))) (filter (fun x => is_ks (snd x)) (timed 0 r)).

(* dropping every event that repeats the signature in force (prev: the one in force before the list) *)
Definition dedup_ts (prev : tsig) (l : list (Z * tsig)) : list (Z * tsig) := dedup_ev ts_eqb prev l.
Definition dedup_ks (prev : option Key) (l : list (Z * option Key)) : list (Z * option Key) := dedup_ev okey_eqb prev l.
(* the signature in force at tick t (d before the first event) *)
Definition ts_in_force (d : tsig) (l : list (Z * tsig)) (t : Z) : tsig := in_force d l t.
Definition ks_in_force (d : option Key) (l : list (Z * option Key)) (t : Z) : option Key := in_force d l t.
(* no two different signatures share a tick *)
Definition ts_clash_free (l : list (Z * tsig)) : bool := clash_free ts_eqb l.
Definition ks_clash_free (l : list (Z * option Key)) : bool := clash_free okey_eqb l.

(* unfolded forms, for reading *)
Lemma dedup_ts_cons prev c v l :
  dedup_ts prev ((c, v) :: l) = if ts_eqb v prev then dedup_ts prev l else (c, v) :: dedup_ts v l.
Proof. reflexivity. Qed.
Lemma dedup_ks_cons prev c v l :
  dedup_ks prev ((c, v) :: l) = if okey_eqb v prev then dedup_ks prev l else (c, v) :: dedup_ks v l.
Proof. reflexivity. Qed.
Lemma ts_in_force_sorted d l t : ev_sorted l = true -> ts_in_force d l t = last_le d l t.
Proof. apply in_force_sorted. Qed.
Lemma ks_in_force_sorted d l t : ev_sorted l = true -> ks_in_force d l t = last_le d l t.
Proof. apply in_force_sorted. Qed.

(* ---------------------------------------------------------------- A.4 tests on concrete inputs *)
Module SigTests.
  Definition ts c n d t := mk_ts c n d t false.
  Definition ks c k t := mk_ks c (Some k) t false.
  Definition on c n v t := mk_on c n v t false.
  Definition of c n t := mk_off c n t false.
  Definition nabs (a : list msg) := to_abs (normalise (to_rel a)).
  (* a time-sorted absolute list: repeated signatures, two signatures at one tick, notes around them *)
  Definition a1 : list msg :=
    [ts 0 4 4 0; on 0 60 64 0; ks 0 K_G 0; ts 0 4 4 5; of 0 60 5; ts 0 3 4 7; ks 0 K_G 7; ks 0 K_C 9; ts 0 3 4 9;
     ts 0 4 4 9; on 0 61 64 9; of 0 61 12; ts 0 4 4 12].
  Eval vm_compute in (ts_events a1, ts_events (nabs a1), dedup_ts ts_none (ts_events a1)).
  Eval vm_compute in (ks_events a1, ks_events (nabs a1), dedup_ks None (ks_events a1)).
  Eval vm_compute in (rts_events (normalise (to_rel a1)), rks_events (normalise (to_rel a1))).
  Eval vm_compute in map (fun t => (ts_in_force ts_none (ts_events (nabs a1)) t, ts_in_force ts_none (ts_events a1) t))
                         [-1; 0; 4; 5; 6; 7; 8; 9; 10; 12; 13].
  (* only time-sorted, signatures on two channels at one tick: to_abs re-sorts them *)
  Definition a2 : list msg := [ts 1 3 4 0; ts 0 4 4 0; ts 0 3 4 2].
  Eval vm_compute in (ts_events (nabs a2), dedup_ts ts_none (ts_events a2), rts_events (normalise (to_rel a2)),
                      ts_clash_free (ts_events a2)).
End SigTests.

(* ================================================================ Part B: normalise, on the timed view *)
(* removing NOTE_ON messages does not move the other messages *)
Lemma rlo_timed (g : Z * msg -> bool) k l :
  (forall c m, is_on m = true -> g (c, m) = false) ->
  forall c, filter g (timed c (fst (remove_last_on k l))) = filter g (timed c l).
Proof.
  intros Hg. induction l as [|m l IH]; intros c; [reflexivity|].
  cbn [remove_last_on]. destruct (remove_last_on k l) as [r found]. cbn [fst] in IH.
  destruct found.
  - cbn [fst timed]. destruct (is_wait m); [apply IH|]. cbn [filter]. now rewrite IH.
  - destruct (is_on m && k2_eqb k (m_chan m, m_note m)) eqn:C; cbn [fst timed].
    + apply andb_true_iff in C as [C _]. rewrite (on_not_wait m C). cbn [filter]. rewrite (Hg c m C). apply IH.
    + destruct (is_wait m); [apply IH|]. cbn [filter]. now rewrite IH.
Qed.
Lemma cleanup_timed (g : Z * msg -> bool) o :
  (forall c m, is_on m = true -> g (c, m) = false) ->
  forall out c, filter g (timed c (cleanup o out)) = filter g (timed c out).
Proof.
  intros Hg. induction o as [|[k [|d]] o IH]; intros out c; [reflexivity| |]; rewrite cleanup_cons, IH; [reflexivity|].
  now apply rlo_timed.
Qed.

Section NormSig.
  Context {V : Type}.
  Variable eqb : V -> V -> bool.
  Variable isS : msg -> bool.
  Variable val : msg -> V.
  Variable cur_of : nstate -> V.
  Hypothesis isS_nowait : forall m, isS m = true -> is_wait m = false.
  Hypothesis isS_noon : forall m, is_on m = true -> isS m = false.
  Hypothesis emit_S : forall s m, isS m = true -> emit s m = negb (eqb (val m) (cur_of s)).
  Hypothesis cur_step : forall s m,
    cur_of (nstep s m) = if isS m && negb (eqb (val m) (cur_of s)) then val m else cur_of s.

  Definition tsel (x : Z * msg) : bool := isS (snd x).
  Definition tval (x : Z * msg) : V := val (snd x).
  (* the selected messages of a relative list, with their ticks *)
  Definition sigT (cur : Z) (r : list msg) : list (Z * msg) := filter tsel (timed cur r).

  Lemma sigT_app a b c : sigT c (a ++ b) = sigT c a ++ sigT (c + dur_rel a) b.
  Proof. unfold sigT. now rewrite timed_app, filter_app. Qed.
  Lemma sigT_pend c s ch : sigT c (pend s ch) = [].
  Proof. unfold sigT. now rewrite timed_pend. Qed.
  Lemma sigT_one c m : sigT c [m] = if isS m then [(c, m)] else [].
  Proof.
    unfold sigT. cbn [timed]. destruct (is_wait m) eqn:W.
    - destruct (isS m) eqn:S; [|reflexivity]. rewrite (isS_nowait m S) in W. discriminate.
    - cbn [filter]. unfold tsel. cbn [snd]. reflexivity.
  Qed.

  Definition sig_R (s : nstate) (p : list msg) : Prop :=
    nonneg_waits p = true ->
    sigT 0 (n_out s) = dedup tval eqb (cur_of init) (sigT 0 p) /\
    cur_of s = dlast tval eqb (cur_of init) (sigT 0 p) /\
    (dur_rel (n_out s) + n_wait s = dur_rel p /\ 0 <= n_wait s).

  Lemma sig_inv l : sig_R (fold_left nstep l init) l.
  Proof.
    apply (fold_inv sig_R).
    - intros _. repeat split; try reflexivity; cbn; lia.
    - intros s p m IH NN. rewrite nonneg_app in NN. apply andb_true_iff in NN as [NNp NNm].
      destruct (IH NNp) as (O & C & [D W]). clear IH.
      pose proof (nonneg_one m NNm) as NN1.
      split; [|split; [|apply dur_step; auto]].
      + rewrite (sigT_app p [m]), dedup_app, <- O, <- C, Z.add_0_l, sigT_one, nstep_out.
        destruct (isS m) eqn:S.
        * rewrite (emit_S s m S). cbn [dedup]. unfold tval at 1. cbn [snd].
          destruct (eqb (val m) (cur_of s)); cbn [negb]; [now rewrite app_nil_r|].
          rewrite !sigT_app, sigT_pend, sigT_one, S, Z.add_0_l. cbn [app].
          rewrite dur_rel_pend by exact W. now rewrite D.
        * cbn [dedup]. rewrite app_nil_r. destruct (emit s m) eqn:E; [|reflexivity].
          rewrite !sigT_app, sigT_pend, sigT_one, S. now rewrite !app_nil_r.
      + rewrite (sigT_app p [m]), dlast_app, <- C, sigT_one, cur_step.
        destruct (isS m); cbn [andb dlast]; [|reflexivity]. unfold tval. cbn [snd].
        now destruct (eqb (val m) (cur_of s)).
  Qed.

  (* normalise keeps exactly the selected messages that do not repeat the value in force, at their ticks *)
  Theorem normalise_sigT l : nonneg_waits l = true ->
    sigT 0 (normalise l) = dedup tval eqb (cur_of init) (sigT 0 l).
  Proof.
    intros NN. destruct (sig_inv l NN) as (O & _ & _).
    rewrite normalise_eq. unfold sigT at 1. rewrite cleanup_timed.
    - fold (sigT 0 (n_out (fold_left nstep l init) ++ pend (fold_left nstep l init) (first_chan l))).
      now rewrite sigT_app, sigT_pend, app_nil_r.
    - intros c m On. unfold tsel. cbn [snd]. now apply isS_noon.
  Qed.
End NormSig.

(* the two instances *)
Lemma ts_nowait m : is_ts m = true -> is_wait m = false.
Proof. by_flags m; congruence. Qed.
Lemma ks_nowait m : is_ks m = true -> is_wait m = false.
Proof. by_flags m; congruence. Qed.
Lemma emit_ts s m : is_ts m = true -> emit s m = negb (ts_eqb (ts_of m) (n_ts s)).
Proof. unfold emit, ts_of. by_flags m; congruence. Qed.
Lemma emit_ks s m : is_ks m = true -> emit s m = negb (okey_eqb (m_key m) (n_key s)).
Proof. unfold emit. by_flags m; congruence. Qed.

Theorem normalise_ts_timed l : nonneg_waits l = true ->
  sigT is_ts 0 (normalise l) = dedup (tval ts_of) ts_eqb ts_none (sigT is_ts 0 l).
Proof. apply (normalise_sigT ts_eqb is_ts ts_of n_ts ts_nowait on_not_ts emit_ts nstep_ts). Qed.
Theorem normalise_ks_timed l : nonneg_waits l = true ->
  sigT is_ks 0 (normalise l) = dedup (tval m_key) okey_eqb None (sigT is_ks 0 l).
Proof. apply (normalise_sigT okey_eqb is_ks m_key n_key ks_nowait on_not_ks emit_ks nstep_key). Qed.

(* on relative lists: the signature events of normalise l are those of l without the repetitions *)
Theorem normalise_rts l : nonneg_waits l = true -> rts_events (normalise l) = dedup_ts ts_none (rts_events l).
Proof.
  intros NN. unfold rts_events, dedup_ts, dedup_ev.
  change (filter (fun x => is_ts (snd x)) (timed 0 (normalise l))) with (sigT is_ts 0 (normalise l)).
  rewrite (normalise_ts_timed l NN), dedup_map. reflexivity.
Qed.
Theorem normalise_rks l : nonneg_waits l = true -> rks_events (normalise l) = dedup_ks None (rks_events l).
Proof.
  intros NN. unfold rks_events, dedup_ks, dedup_ev.
  change (filter (fun x => is_ks (snd x)) (timed 0 (normalise l))) with (sigT is_ks 0 (normalise l)).
  rewrite (normalise_ks_timed l NN), dedup_map. reflexivity.
Qed.

(* ================================================================ Part C: through to_rel and to_abs_aux *)
(* a message with its float tag cleared / a timed message stamped with its tick *)
Definition canon (m : msg) : msg := set_time m (m_time m) false.
Definition stamp (x : Z * msg) : msg := set_time (snd x) (fst x) false.

Lemma skey_canon m : C15_proofs.skey (canon m) = C15_proofs.skey m.
Proof. reflexivity. Qed.
Lemma m_time_canon m : m_time (canon m) = m_time m.
Proof. reflexivity. Qed.

Section Conv.
  Variable isS : msg -> bool.
  Hypothesis isS_time : forall m t f, isS (set_time m t f) = isS m.
  Hypothesis isS_nowait : forall m, isS m = true -> is_wait m = false.
  Hypothesis isS_noint : forall m, isS m = true -> is_internal m = false.

  Lemma sel_to_abs_aux r : forall cur f cap,
    map canon (filter isS (ta_msgs (to_abs_aux r cur f cap))) = map stamp (sigT isS cur r).
  Proof.
    induction r as [|m r IH]; intros cur f cap; [reflexivity|]. unfold sigT. cbn [timed].
    destruct (is_wait m) eqn:Ew.
    - rewrite to_abs_aux_wait by exact Ew. apply IH.
    - rewrite to_abs_aux_msg by exact Ew. unfold ta_msgs at 1. cbn [fst filter]. unfold tsel at 1. cbn [snd].
      rewrite isS_time. destruct (isS m); [|apply IH]. cbn [map]. f_equal. apply IH.
  Qed.

  Lemma sigT_wait c ch t f r : sigT isS c (mk_wait ch t f :: r) = sigT isS (c + t) r.
  Proof. reflexivity. Qed.

  Lemma sel_to_rel_aux l : forall cur f, tsorted l = true ->
    (forall m, hd_error l = Some m -> cur <= m_time m) ->
    map stamp (sigT isS cur (to_rel_aux l cur f)) = map canon (filter isS l).
  Proof.
    induction l as [|m l IH]; intros cur f Hs Hh; [reflexivity|].
    specialize (Hh m eq_refl). pose proof (tsorted_next m l Hs) as Hn. pose proof (tsorted_tail _ _ Hs) as Hs'.
    rewrite to_rel_aux_cons.
    assert (R : forall f', map stamp (sigT isS (m_time m) ((if is_internal m then [] else [strip_time m]) ++
                  to_rel_aux l (m_time m) f')) = map canon (filter isS (m :: l))).
    { intros f'. cbn [filter]. destruct (is_internal m) eqn:Ei; cbn [app].
      - destruct (isS m) eqn:S; [rewrite (isS_noint m S) in Ei; discriminate|]. now apply IH.
      - unfold sigT. cbn [timed]. rewrite is_wait_strip. destruct (is_wait m) eqn:Ew.
        + destruct (isS m) eqn:S; [rewrite (isS_nowait m S) in Ew; discriminate|].
          cbn [strip_time set_time m_time]. rewrite Z.add_0_r. now apply IH.
        + cbn [filter]. unfold tsel at 1. cbn [snd]. unfold strip_time at 1. rewrite isS_time.
          destruct (isS m); [|now apply IH]. cbn [map]. f_equal. now apply IH. }
    destruct (cur <? m_time m) eqn:E.
    - cbn [app]. rewrite sigT_wait. replace (cur + (m_time m - cur)) with (m_time m) by lia. apply R.
    - apply Z.ltb_ge in E. assert (cur = m_time m) as -> by lia. cbn [app]. apply R.
  Qed.

  Lemma sel_to_rel l : tsorted l = true -> nnt l = true ->
    map stamp (sigT isS 0 (to_rel l)) = map canon (filter isS l).
  Proof. intros Hs Hn. apply sel_to_rel_aux; [exact Hs|now apply nnt_hd]. Qed.
End Conv.

(* ================================================================ Part D: filtering a stable insertion sort *)
Section GIns.
  Context {A : Type}.
  Variable lt : A -> A -> bool.
  (* insert x before the first element y with lt x y *)
  Fixpoint gins (x : A) (l : list A) : list A :=
    match l with [] => [x] | y :: l' => if lt x y then x :: y :: l' else y :: gins x l' end.
  (* once lt x y holds for an element of l it holds for all later ones *)
  Fixpoint up_closed (x : A) (l : list A) : Prop :=
    match l with [] => True | y :: l' => (lt x y = true -> forall z, In z l' -> lt x z = true) /\ up_closed x l' end.

  Lemma gins_head x l : (forall z, In z l -> lt x z = true) -> gins x l = x :: l.
  Proof. intros H. destruct l as [|y l]; [reflexivity|]. cbn [gins]. now rewrite (H y (or_introl eq_refl)). Qed.

  Lemma gins_filter (p : A -> bool) x l : up_closed x l ->
    filter p (gins x l) = if p x then gins x (filter p l) else filter p l.
  Proof.
    induction l as [|y l IH]; intros U.
    - cbn. now destruct (p x).
    - destruct U as [U1 U2]. cbn [gins]. destruct (lt x y) eqn:E.
      + change (filter p (x :: y :: l)) with (if p x then x :: filter p (y :: l) else filter p (y :: l)).
        destruct (p x); [|reflexivity]. symmetry. apply gins_head.
        intros z Hz. apply filter_In in Hz as [Hz _]. destruct Hz as [<-|Hz]; [exact E|now apply U1].
      + cbn [filter]. rewrite (IH U2). destruct (p y), (p x); cbn [gins]; rewrite ?E; reflexivity.
  Qed.
End GIns.

Lemma gins_map {A B} (f : A -> B) (lt : A -> A -> bool) (lt' : B -> B -> bool) x l :
  (forall a b, lt' (f a) (f b) = lt a b) -> map f (gins lt x l) = gins lt' (f x) (map f l).
Proof.
  intros H. induction l as [|y l IH]; [reflexivity|]. cbn [gins map]. rewrite H.
  destruct (lt x y); cbn [map]; [reflexivity|]. now rewrite IH.
Qed.

Definition time_lt (x y : msg) : bool := m_time x <? m_time y.
Lemma ins_sorted_gins x l : ins_sorted x l = gins key_le x l.
Proof. induction l as [|y l IH]; [reflexivity|]. cbn [ins_sorted gins]. now rewrite IH. Qed.
Lemma insort_gins x l : insort x l = gins time_lt x l.
Proof. induction l as [|y l IH]; [reflexivity|]. cbn [insort gins]. unfold time_lt at 1. now rewrite IH. Qed.
Lemma ins_ev_gins {V} (e : Z * V) l : ins_ev e l = gins (fun a b => fst a <? fst b) e l.
Proof. induction l as [|y l IH]; [reflexivity|]. cbn [ins_ev gins]. now rewrite IH. Qed.

Lemma up_closed_sorted x l : sortedb l = true -> up_closed key_le x l.
Proof.
  induction l as [|y l IH]; intros S; [exact I|]. split; [|apply IH; eapply sortedb_tail; eauto].
  intros E z Hz. eapply key_le_trans; [exact E|]. eapply sortedb_head_le; eauto.
Qed.
Lemma up_closed_tsorted x l : tsorted l = true -> up_closed time_lt x l.
Proof.
  induction l as [|y l IH]; intros S; [exact I|]. split; [|apply IH; eapply tsorted_tail; eauto].
  unfold time_lt. intros E z Hz. apply Z.ltb_lt in E. apply Z.ltb_lt.
  pose proof (tsorted_head _ _ S) as F. rewrite Forall_forall in F. specialize (F z Hz). lia.
Qed.

Lemma filter_ins_sorted (p : msg -> bool) x l : sortedb l = true ->
  filter p (ins_sorted x l) = if p x then ins_sorted x (filter p l) else filter p l.
Proof. intros S. rewrite !ins_sorted_gins. now apply gins_filter, up_closed_sorted. Qed.
Lemma filter_sort_abs (p : msg -> bool) l : filter p (sort_abs l) = sort_abs (filter p l).
Proof.
  induction l as [|x l IH]; [reflexivity|]. cbn [sort_abs filter].
  rewrite filter_ins_sorted by apply sort_abs_sorted. rewrite IH. now destruct (p x).
Qed.
Lemma filter_insort (p : msg -> bool) x l : tsorted l = true ->
  filter p (insort x l) = if p x then insort x (filter p l) else filter p l.
Proof. intros S. rewrite !insort_gins. now apply gins_filter, up_closed_tsorted. Qed.

Lemma sortedb_filter (p : msg -> bool) l : sortedb l = true -> sortedb (filter p l) = true.
Proof.
  intros S. rewrite <- (sort_abs_of_sorted l S), filter_sort_abs. apply sort_abs_sorted.
Qed.
Lemma sortedb_cons_intro e l : sortedb l = true -> (forall y, In y l -> key_le e y = true) -> sortedb (e :: l) = true.
Proof.
  intros S H. cbn [sortedb]. rewrite S, andb_true_r. destruct l as [|y l]; [reflexivity|]. apply H. now left.
Qed.
Lemma dedup_sortedb {V} (val : msg -> V) (eqb : V -> V -> bool) l : forall prev,
  sortedb l = true -> sortedb (dedup val eqb prev l) = true.
Proof.
  induction l as [|e l IH]; intros prev S; [reflexivity|]. pose proof (sortedb_tail _ _ S) as S'.
  cbn [dedup]. destruct (eqb (val e) prev); [now apply IH|].
  apply sortedb_cons_intro; [now apply IH|]. intros y Hy. apply dedup_In in Hy.
  eapply sortedb_head_le; eauto.
Qed.
Lemma tsorted_filter (p : msg -> bool) l : tsorted l = true -> tsorted (filter p l) = true.
Proof.
  induction l as [|x l IH]; intros S; [reflexivity|]. pose proof (tsorted_tail _ _ S) as S'. cbn [filter].
  destruct (p x); [|now apply IH]. apply tsorted_cons_intro; [now apply IH|].
  intros y Hy. pose proof (tsorted_head _ _ S) as F. rewrite Forall_forall in F. apply F.
  destruct (filter p l) as [|z r] eqn:E; [discriminate|]. cbn in Hy. injection Hy as <-.
  assert (In z (filter p l)) by (rewrite E; now left). now apply filter_In in H.
Qed.

(* ================================================================ Part E: the round trip *)
Section Round.
  Context {V : Type}.
  Variable eqb : V -> V -> bool.
  Variable isS : msg -> bool.
  Variable val : msg -> V.
  Variable cur_of : nstate -> V.
  Hypothesis isS_nowait : forall m, isS m = true -> is_wait m = false.
  Hypothesis isS_noon : forall m, is_on m = true -> isS m = false.
  Hypothesis emit_S : forall s m, isS m = true -> emit s m = negb (eqb (val m) (cur_of s)).
  Hypothesis cur_step : forall s m,
    cur_of (nstep s m) = if isS m && negb (eqb (val m) (cur_of s)) then val m else cur_of s.
  Hypothesis isS_time : forall m t f, isS (set_time m t f) = isS m.
  Hypothesis val_time : forall m t f, val (set_time m t f) = val m.
  Hypothesis isS_noint : forall m, isS m = true -> is_internal m = false.

  Definition sigof (m : msg) : Z * V := (m_time m, val m).
  (* the selected events of an absolute list *)
  Definition sig_events (a : list msg) : list (Z * V) := map sigof (filter isS a).
  Definition rsig_events (r : list msg) : list (Z * V) := map (fun x => (fst x, val (snd x))) (sigT isS 0 r).

  Lemma sig_events_canon a : sig_events a = map sigof (map canon (filter isS a)).
  Proof. unfold sig_events. rewrite map_map. apply map_ext. intros m. unfold sigof, canon. now rewrite val_time. Qed.

  Let v0 := cur_of init.

  Lemma canon_round a : tsorted a = true -> nnt a = true ->
    map canon (filter isS (ta_msgs (to_abs_aux (normalise (to_rel a)) 0 false true)))
    = dedup val eqb v0 (map canon (filter isS a)).
  Proof.
    intros TS NN.
    rewrite (sel_to_abs_aux isS isS_time).
    rewrite (normalise_sigT eqb isS val cur_of isS_nowait isS_noon emit_S cur_step) by apply nonneg_to_rel.
    rewrite <- (sel_to_rel isS isS_time isS_nowait isS_noint a TS NN), dedup_map.
    f_equal. apply dedup_ext. intros x _. unfold tval, stamp. now rewrite val_time.
  Qed.

  Lemma filter_to_abs r : filter isS (to_abs r) = sort_abs (filter isS (ta_msgs (to_abs_aux r 0 false true))).
  Proof.
    rewrite to_abs_unfold. cbv zeta. destruct (ta_cap _).
    - apply filter_sort_abs.
    - rewrite filter_insort by apply sort_abs_tsorted.
      destruct (isS (mk_internal _ _)) eqn:E; [apply isS_noint in E; discriminate|]. apply filter_sort_abs.
  Qed.

  Lemma sigof_stamp x : sigof (stamp x) = (fst x, val (snd x)).
  Proof. unfold sigof, stamp. now rewrite val_time. Qed.

  (* relative view: exactly the events that do not repeat the value in force, in order, at their ticks *)
  Theorem round_rel a : tsorted a = true -> nnt a = true ->
    rsig_events (normalise (to_rel a)) = dedup_ev eqb v0 (sig_events a).
  Proof.
    intros TS NN. unfold rsig_events.
    rewrite (normalise_sigT eqb isS val cur_of isS_nowait isS_noon emit_S cur_step) by apply nonneg_to_rel.
    rewrite sig_events_canon, <- (sel_to_rel isS isS_time isS_nowait isS_noint a TS NN), map_map.
    unfold dedup_ev. rewrite dedup_map.
    rewrite (dedup_ext (fun x => snd (sigof (stamp x))) (tval val)) by (intros x _; now rewrite sigof_stamp).
    apply map_ext. intros x. now rewrite sigof_stamp.
  Qed.

  (* absolute view of a TIME-sorted list: the same events up to the order of simultaneous ones (to_abs re-sorts
     by (time, channel, type, pitch)) *)
  Theorem round_abs_perm a : tsorted a = true -> nnt a = true ->
    Permutation (sig_events (to_abs (normalise (to_rel a)))) (dedup_ev eqb v0 (sig_events a)).
  Proof.
    intros TS NN. rewrite (sig_events_canon (to_abs _)), filter_to_abs.
    etransitivity; [apply Permutation_map, Permutation_map, C15_proofs.sort_abs_perm|].
    rewrite (canon_round a TS NN), (sig_events_canon a). unfold dedup_ev. rewrite (dedup_map sigof snd eqb). reflexivity.
  Qed.

  (* absolute view of a KEY-sorted list (any output of sort_abs / merge): the same list of events *)
  Theorem round_abs a : sortedb a = true -> nnt a = true ->
    sig_events (to_abs (normalise (to_rel a))) = dedup_ev eqb v0 (sig_events a).
  Proof.
    intros S NN. pose proof (sortedb_tsorted a S) as TS.
    rewrite (sig_events_canon (to_abs _)), filter_to_abs.
    set (Y := filter isS (ta_msgs (to_abs_aux (normalise (to_rel a)) 0 false true))).
    assert (SY : sortedb Y = true).
    { rewrite <- (sortedb_map_key canon Y skey_canon). unfold Y. rewrite (canon_round a TS NN).
      apply dedup_sortedb. rewrite (sortedb_map_key canon _ skey_canon). now apply sortedb_filter. }
    rewrite (sort_abs_of_sorted Y SY). unfold Y.
    rewrite (canon_round a TS NN), (sig_events_canon a). unfold dedup_ev. rewrite (dedup_map sigof snd eqb). reflexivity.
  Qed.
End Round.

(* ---------------------------------------------------------------- the two instances *)
Lemma ts_noint m : is_ts m = true -> is_internal m = false.
Proof. unfold is_ts, is_internal, mtype_eqb. destruct (m_type m); cbn; congruence. Qed.
Lemma ks_noint m : is_ks m = true -> is_internal m = false.
Proof. unfold is_ks, is_internal, mtype_eqb. destruct (m_type m); cbn; congruence. Qed.

Definition nabs (a : list msg) : list msg := to_abs (normalise (to_rel a)).

(* normalise keeps exactly the signature events that do not repeat the one in force, at their ticks, whatever the
   notes are: relative view (any time-sorted a), absolute view (key-sorted a: same list; time-sorted a: same events,
   simultaneous ones possibly re-ordered by to_abs) *)
Theorem round_rts a : tsorted a = true -> nnt a = true ->
  rts_events (normalise (to_rel a)) = dedup_ts ts_none (ts_events a).
Proof.
  apply (round_rel ts_eqb is_ts ts_of n_ts ts_nowait on_not_ts emit_ts nstep_ts); try reflexivity. exact ts_noint.
Qed.
Theorem round_rks a : tsorted a = true -> nnt a = true ->
  rks_events (normalise (to_rel a)) = dedup_ks None (ks_events a).
Proof.
  apply (round_rel okey_eqb is_ks m_key n_key ks_nowait on_not_ks emit_ks nstep_key); try reflexivity. exact ks_noint.
Qed.
Theorem round_ts a : sortedb a = true -> nnt a = true -> ts_events (nabs a) = dedup_ts ts_none (ts_events a).
Proof.
  apply (round_abs ts_eqb is_ts ts_of n_ts ts_nowait on_not_ts emit_ts nstep_ts); try reflexivity. exact ts_noint.
Qed.
Theorem round_ks a : sortedb a = true -> nnt a = true -> ks_events (nabs a) = dedup_ks None (ks_events a).
Proof.
  apply (round_abs okey_eqb is_ks m_key n_key ks_nowait on_not_ks emit_ks nstep_key); try reflexivity. exact ks_noint.
Qed.
Theorem round_ts_perm a : tsorted a = true -> nnt a = true ->
  Permutation (ts_events (nabs a)) (dedup_ts ts_none (ts_events a)).
Proof.
  apply (round_abs_perm ts_eqb is_ts ts_of n_ts ts_nowait on_not_ts emit_ts nstep_ts); try reflexivity. exact ts_noint.
Qed.
Theorem round_ks_perm a : tsorted a = true -> nnt a = true ->
  Permutation (ks_events (nabs a)) (dedup_ks None (ks_events a)).
Proof.
  apply (round_abs_perm okey_eqb is_ks m_key n_key ks_nowait on_not_ks emit_ks nstep_key); try reflexivity. exact ks_noint.
Qed.

(* ---------------------------------------------------------------- the signature in force *)
Lemma events_sorted {V} (p : msg -> bool) (v : msg -> V) l : tsorted l = true ->
  ev_sorted (map (fun m => (m_time m, v m)) (filter p l)) = true.
Proof.
  intros S. apply (tsorted_filter p) in S. induction (filter p l) as [|x r IH]; [reflexivity|].
  cbn [map]. apply ev_sorted_cons_intro; [apply IH; eapply tsorted_tail; eauto|].
  intros y Hy. apply in_map_iff in Hy as (z & <- & Hz). cbn [fst].
  pose proof (tsorted_head _ _ S) as F. rewrite Forall_forall in F. now apply F.
Qed.
Lemma ts_events_sorted a : tsorted a = true -> ev_sorted (ts_events a) = true.
Proof. apply events_sorted. Qed.
Lemma ks_events_sorted a : tsorted a = true -> ev_sorted (ks_events a) = true.
Proof. apply events_sorted. Qed.

Lemma clash_free_incl {V} (eqb : V -> V -> bool) (l l' : list (Z * V)) :
  (forall x, In x l' -> In x l) -> clash_free eqb l = true -> clash_free eqb l' = true.
Proof.
  intros H C. unfold clash_free in *. rewrite forallb_forall in *. intros x Hx. apply forallb_forall. intros y Hy.
  specialize (C x (H x Hx)). rewrite forallb_forall in C. apply C. now apply H.
Qed.

(* key-sorted a: the signature in force at every tick is unchanged (no proviso: "in force" is read in list order) *)
Theorem round_ts_in_force a t : sortedb a = true -> nnt a = true ->
  ts_in_force ts_none (ts_events (nabs a)) t = ts_in_force ts_none (ts_events a) t.
Proof.
  intros S NN. rewrite (round_ts a S NN). apply (in_force_dedup ts_eqb ts_eqb_spec).
  apply ts_events_sorted. now apply sortedb_tsorted.
Qed.
Theorem round_ks_in_force a t : sortedb a = true -> nnt a = true ->
  ks_in_force None (ks_events (nabs a)) t = ks_in_force None (ks_events a) t.
Proof.
  intros S NN. rewrite (round_ks a S NN). apply (in_force_dedup okey_eqb okey_eqb_spec).
  apply ks_events_sorted. now apply sortedb_tsorted.
Qed.
(* time-sorted a, PROVIDED no two different signatures share a tick *)
Theorem round_ts_in_force_clash_free a t : tsorted a = true -> nnt a = true -> ts_clash_free (ts_events a) = true ->
  ts_in_force ts_none (ts_events (nabs a)) t = ts_in_force ts_none (ts_events a) t.
Proof.
  intros TS NN CF. unfold ts_in_force.
  transitivity (in_force ts_none (dedup_ts ts_none (ts_events a)) t);
    [|apply (in_force_dedup ts_eqb ts_eqb_spec); now apply ts_events_sorted].
  symmetry. apply (in_force_perm ts_eqb ts_eqb_spec); [apply Permutation_sym, round_ts_perm; assumption|].
  apply (clash_free_incl ts_eqb (ts_events a)); [|exact CF]. intros x Hx. eapply dedup_In; eauto.
Qed.
Theorem round_ks_in_force_clash_free a t : tsorted a = true -> nnt a = true -> ks_clash_free (ks_events a) = true ->
  ks_in_force None (ks_events (nabs a)) t = ks_in_force None (ks_events a) t.
Proof.
  intros TS NN CF. unfold ks_in_force.
  transitivity (in_force None (dedup_ks None (ks_events a)) t);
    [|apply (in_force_dedup okey_eqb okey_eqb_spec); now apply ks_events_sorted].
  symmetry. apply (in_force_perm okey_eqb okey_eqb_spec); [apply Permutation_sym, round_ks_perm; assumption|].
  apply (clash_free_incl okey_eqb (ks_events a)); [|exact CF]. intros x Hx. eapply dedup_In; eauto.
Qed.

(* the proviso is needed for lists that are only time-sorted: to_abs re-sorts simultaneous signatures by channel, which
   here even leaves a signature that repeats the one in force in the absolute view *)
Example round_ts_in_force_needs_proviso :
  tsorted SigTests.a2 = true /\ nnt SigTests.a2 = true /\ sortedb SigTests.a2 = false /\
  ts_clash_free (ts_events SigTests.a2) = false /\
  ts_events (nabs SigTests.a2) = [(0, (4, 4)); (0, (3, 4)); (2, (3, 4))] /\
  ts_in_force ts_none (ts_events (nabs SigTests.a2)) 1 = (3, 4) /\ ts_in_force ts_none (ts_events SigTests.a2) 1 = (4, 4).
Proof. vm_compute. repeat split; reflexivity. Qed.
Example round_ts_nonvacuous :
  tsorted SigTests.a1 = true /\ nnt SigTests.a1 = true /\ sortedb (sort_abs SigTests.a1) = true /\
  ts_events SigTests.a1 = [(0, (4, 4)); (5, (4, 4)); (7, (3, 4)); (9, (3, 4)); (9, (4, 4)); (12, (4, 4))] /\
  rts_events (normalise (to_rel SigTests.a1)) = [(0, (4, 4)); (7, (3, 4)); (9, (4, 4))] /\
  ks_events (nabs (sort_abs SigTests.a1)) = [(0, Some K_G); (9, Some K_C)].
Proof. vm_compute. repeat split; reflexivity. Qed.

(* ================================================================ Part F: binary insertion (insort) on events *)
Definition sg {V} (v : msg -> V) (m : msg) : Z * V := (m_time m, v m).

Lemma events_insort {V} (p : msg -> bool) (v : msg -> V) x l : tsorted l = true ->
  map (sg v) (filter p (insort x l)) =
  if p x then ins_ev (sg v x) (map (sg v) (filter p l)) else map (sg v) (filter p l).
Proof.
  intros S. rewrite (filter_insort p x l S). destruct (p x); [|reflexivity].
  rewrite insort_gins, ins_ev_gins. apply gins_map. intros a b. reflexivity.
Qed.
Lemma events_fold_insort {V} (p : msg -> bool) (v : msg -> V) L : forall acc, tsorted acc = true ->
  map (sg v) (filter p (fold_left (fun a m => insort m a) L acc)) =
  fold_left (fun a e => ins_ev e a) (map (sg v) (filter p L)) (map (sg v) (filter p acc)).
Proof.
  induction L as [|x L IH]; intros acc S; [reflexivity|]. cbn [fold_left filter].
  rewrite IH by (now apply insort_tsorted). rewrite (events_insort p v x acc S).
  destruct (p x); reflexivity.
Qed.
Lemma ts_events_insort x l : tsorted l = true ->
  ts_events (insort x l) = if is_ts x then ins_ev (m_time x, ts_of x) (ts_events l) else ts_events l.
Proof. apply (events_insort is_ts ts_of). Qed.
Lemma ks_events_insort x l : tsorted l = true ->
  ks_events (insort x l) = if is_ks x then ins_ev (m_time x, m_key x) (ks_events l) else ks_events l.
Proof. apply (events_insort is_ks m_key). Qed.

(* a time-sorted list whose members agree on (channel, type, pitch field) is key-sorted *)
Lemma tsorted_same_sortedb l c r n : tsorted l = true ->
  (forall m, In m l -> m_chan m = c /\ mtype_rank (m_type m) = r /\ m_note m = n) -> sortedb l = true.
Proof.
  induction l as [|x l IH]; intros S H; [reflexivity|]. pose proof (tsorted_tail _ _ S) as S'.
  apply sortedb_cons_intro; [apply IH; [exact S'|intros m Hm; apply H; now right]|].
  intros y Hy. pose proof (tsorted_head _ _ S) as F. rewrite Forall_forall in F. specialize (F y Hy).
  destruct (H x (or_introl eq_refl)) as (C1 & R1 & N1). destruct (H y (or_intror Hy)) as (C2 & R2 & N2).
  apply key_le_spec. lia.
Qed.

Lemma ts_events_app a b : ts_events (a ++ b) = ts_events a ++ ts_events b.
Proof. unfold ts_events. now rewrite filter_app, map_app. Qed.
Lemma ks_events_app a b : ks_events (a ++ b) = ks_events a ++ ks_events b.
Proof. unfold ks_events. now rewrite filter_app, map_app. Qed.
Lemma ts_events_perm a b : Permutation a b -> Permutation (ts_events a) (ts_events b).
Proof. intros P. unfold ts_events. now apply Permutation_map, C15_proofs.Permutation_filter. Qed.
Lemma ks_events_perm a b : Permutation a b -> Permutation (ks_events a) (ks_events b).
Proof. intros P. unfold ks_events. now apply Permutation_map, C15_proofs.Permutation_filter. Qed.
Lemma ts_events_sort_abs l : ts_events (sort_abs l) = map (sg ts_of) (sort_abs (filter is_ts l)).
Proof. unfold ts_events. now rewrite filter_sort_abs. Qed.
Lemma ks_events_sort_abs l : ks_events (sort_abs l) = map (sg m_key) (sort_abs (filter is_ks l)).
Proof. unfold ks_events. now rewrite filter_sort_abs. Qed.
