(* C03 (piece level), part C -- tracks that are concatenations of bars: every track carries a TIME_SIGNATURE message at
   every bar start (`bar_tsl`).  After the merge the signatures at one bar start sit next to each other, channel 0
   first; normalise keeps exactly the channel-0 message of every bar whose signature differs from the previous bar's
   (`changes`). *)
From Coq Require Import ZArith List Bool Lia Permutation Sorted.
From Model Require Import Base Util Seq Pairing Tok.
From Proofs Require Import C05_closest C04_sort C04_proofs C07_proofs.
From Proofs Require Import C01_frontend_sig C01_frontend_pipe C01_frontend_pair C01_rest C01_proofs C01_frontend.
From Proofs Require Import C03_piece_norm C03_piece_fe.
Import ListNotations.
Open Scope Z_scope.

(* ================================================================ the sort key is transitive *)
Lemma key_le_trans a b c : key_le a b = true -> key_le b c = true -> key_le a c = true.
Proof.
  unfold key_le.
  repeat match goal with
  | |- context [?x <? ?y] => let E := fresh "E" in destruct (x <? y) eqn:E; [apply Z.ltb_lt in E | apply Z.ltb_ge in E]
  end; try reflexivity; try discriminate; try (intros; exfalso; lia);
  intros H1 H2; try apply Z.leb_le in H1; try apply Z.leb_le in H2; try apply Z.leb_le; try lia.
Qed.

Lemma ksorted_FOP l : ksorted l = true -> ForallOrdPairs (fun x y => key_le x y = true) l.
Proof.
  induction l as [|x l IH]; intros H; [constructor|].
  assert (Hl : ksorted l = true).
  { destruct l as [|y l]; [reflexivity|]. cbn [ksorted] in H. now apply andb_prop in H. }
  specialize (IH Hl). constructor; [|exact IH].
  destruct l as [|y l]; [constructor|]. cbn [ksorted] in H. apply andb_prop in H. destruct H as [Hxy _].
  constructor; [exact Hxy|]. inversion IH as [|? ? Hy _]; subst.
  eapply Forall_impl; [|exact Hy]. cbn beta. intros z Hz. now apply key_le_trans with y.
Qed.

(* order by (tick, channel) *)
Definition tc_le (a b : C04_proofs.event) : Prop := fst a < fst b \/ (fst a = fst b /\ m_chan (snd a) <= m_chan (snd b)).

Lemma key_le_tc x y : key_le x y = true ->
  tc_le (m_time x, strip_time x) (m_time y, strip_time y).
Proof.
  unfold key_le, tc_le. cbn [fst snd strip_time set_time m_chan].
  destruct (m_time x <? m_time y) eqn:E1; [apply Z.ltb_lt in E1; now left|]. apply Z.ltb_ge in E1.
  destruct (m_time y <? m_time x) eqn:E2; [discriminate|]. apply Z.ltb_ge in E2.
  destruct (m_chan x <? m_chan y) eqn:E3; [apply Z.ltb_lt in E3; intros _; right; lia|]. apply Z.ltb_ge in E3.
  destruct (m_chan y <? m_chan x) eqn:E4; [discriminate|]. apply Z.ltb_ge in E4. intros _. right. lia.
Qed.

Lemma ats_tc_sorted a : ksorted a = true -> ForallOrdPairs tc_le (ats a).
Proof.
  intros H. rewrite ats_filter. apply (FOP_map (fun x y => key_le x y = true)); [intros x y; apply key_le_tc|].
  apply FOP_filter. now apply ksorted_FOP.
Qed.

(* ================================================================ bars *)
(* (start tick, numerator, denominator) of the bars of signatures sg laid out from tick s *)
Fixpoint bar_tsl (c : cfg) (s : Z) (sg : list (Z * Z)) : list (Z * Z * Z) :=
  match sg with
  | [] => []
  | nd :: r => (s, fst nd, snd nd) :: bar_tsl c (s + bar_cap c (fst nd) (snd nd)) r
  end.
Fixpoint bars_dur (c : cfg) (sg : list (Z * Z)) : Z :=
  match sg with [] => 0 | nd :: r => bar_cap c (fst nd) (snd nd) + bars_dur c r end.
(* the bars whose signature differs from the one in force *)
Fixpoint changes (prev : Z * Z) (l : list (Z * Z * Z)) : list (Z * Z * Z) :=
  match l with
  | [] => []
  | x :: r => if ts_eqb (snd (fst x), snd x) prev then changes prev r else x :: changes (snd (fst x), snd x) r
  end.
Definition caps_pos (c : cfg) (sg : list (Z * Z)) : Prop := Forall (fun nd => 0 < bar_cap c (fst nd) (snd nd)) sg.

Definition ent (e : C04_proofs.event) : Z * Z * Z := (fst e, m_num (snd e), m_den (snd e)).
Lemma tsv3_ent E : tsv3 E = map ent E.
Proof. reflexivity. Qed.

Lemma bar_tsl_ge c sg : caps_pos c sg -> forall s y, In y (bar_tsl c s sg) -> s <= fst (fst y).
Proof.
  induction 1 as [|nd sg Hp _ IH]; intros s y Hy; [destruct Hy|]. cbn [bar_tsl] in Hy.
  destruct Hy as [<-|Hy]; [cbn [fst]; lia|]. specialize (IH _ _ Hy). lia.
Qed.

Lemma bar_tsl_head c nd sg s y : caps_pos c (nd :: sg) -> In y (bar_tsl c s (nd :: sg)) -> fst (fst y) = s ->
  y = (s, fst nd, snd nd).
Proof.
  intros Hp Hy Hs. cbn [bar_tsl] in Hy. destruct Hy as [<-|Hy]; [reflexivity|].
  inversion Hp as [|? ? H1 H2]; subst. pose proof (bar_tsl_ge c sg H2 _ _ Hy). lia.
Qed.

Lemma ts_eqb_refl a : ts_eqb a a = true.
Proof. unfold ts_eqb. now rewrite !Z.eqb_refl. Qed.

(* The time-signature entries L of the merged list: ordered by (tick, channel), every entry sits on a bar start with
   that bar's signature (or is a stale copy of the signature in force, before the first bar), every bar start has an
   entry of channel 0.  Dropping the repeats leaves the channel-0 entry of every bar that changes the signature. *)
Lemma tsdrop_bars c : forall sg, caps_pos c sg -> forall s0 L prev,
  ForallOrdPairs tc_le L ->
  (forall e, In e L -> is_ts (snd e) = true /\ 0 <= m_chan (snd e) /\
     (((m_num (snd e), m_den (snd e)) = prev /\ fst e < s0) \/ In (ent e) (bar_tsl c s0 sg))) ->
  (forall y, In y (bar_tsl c s0 sg) -> exists e, In e L /\ ent e = y /\ m_chan (snd e) = 0) ->
  map ent (tsdrop prev L) = changes prev (bar_tsl c s0 sg) /\
  forall e, In e (tsdrop prev L) -> m_chan (snd e) = 0.
Proof.
  induction sg as [|nd sg IHsg]; intros Hp s0.
  - (* no bar left: only stale copies *)
    induction L as [|x L IHL]; intros prev Hs Hm _; [split; [reflexivity|intros e []]|].
    destruct (Hm x (or_introl eq_refl)) as (Hts & _ & [[Hsig _]|[]]).
    subst prev. cbn [tsdrop]. rewrite Hts, ts_eqb_refl.
    apply IHL; [now inversion Hs| |intros y []]. intros e He. apply Hm. now right.
  - inversion Hp as [|? ? Hp1 Hp2]; subst.
    induction L as [|x L IHL]; intros prev Hs Hm He.
    + destruct (He (s0, fst nd, snd nd) (or_introl eq_refl)) as (e & [] & _).
    + inversion Hs as [|? ? Hx Hs']; subst. rewrite Forall_forall in Hx.
      destruct (Hm x (or_introl eq_refl)) as (Hts & Hch & [[Hsig Hlt]|Hin]).
      * (* a stale copy: dropped *)
        subst prev. cbn [tsdrop]. rewrite Hts, ts_eqb_refl.
        apply IHL; [exact Hs'|intros e H; apply Hm; now right|].
        intros y Hy. destruct (He y Hy) as (e & [<-|Hin] & Hey & Hc); [|now exists e].
        pose proof (bar_tsl_ge c _ Hp _ _ Hy) as Hge. rewrite <- Hey in Hge. cbn [ent fst] in Hge. lia.
      * (* the first entry of bar s0: it has the bar's signature and channel 0 *)
        assert (Hx0 : ent x = (s0, fst nd, snd nd) /\ m_chan (snd x) = 0).
        { pose proof (bar_tsl_ge c _ Hp _ _ Hin) as Hge. cbn [ent fst] in Hge.
          destruct (He (s0, fst nd, snd nd) (or_introl eq_refl)) as (e0 & [<-|Hin0] & Hey & Hc0); [now split|].
          specialize (Hx e0 Hin0). assert (F0 : fst e0 = s0) by (now apply (f_equal (fun z => fst (fst z))) in Hey).
          destruct Hx as [Hx|[Hx1 Hx2]]; [lia|]. split; [|lia].
          apply (bar_tsl_head c nd sg s0 _ Hp Hin). cbn [ent fst]. lia. }
        destruct Hx0 as [Hex Hcx].
        assert (Hn : m_num (snd x) = fst nd /\ m_den (snd x) = snd nd /\ fst x = s0).
        { unfold ent in Hex. injection Hex as H1 H2 H3. auto. }
        destruct Hn as (Hn1 & Hn2 & Hn3).
        assert (Hrec : map ent (tsdrop (fst nd, snd nd) L) = changes (fst nd, snd nd) (bar_tsl c (s0 + bar_cap c (fst nd) (snd nd)) sg) /\
                       forall e, In e (tsdrop (fst nd, snd nd) L) -> m_chan (snd e) = 0).
        { apply (IHsg Hp2); [exact Hs'| |].
          - intros e Hein. destruct (Hm e (or_intror Hein)) as (T1 & T2 & T3). split; [exact T1|]. split; [exact T2|].
            specialize (Hx e Hein).
            assert (Hfe : s0 <= fst e) by (destruct Hx as [Hx|[Hx _]]; lia).
            destruct T3 as [[_ Hlt]|Hine]; [lia|]. cbn [bar_tsl] in Hine. destruct Hine as [Heq|Hine]; [|now right].
            left. unfold ent in Heq. injection Heq as H1 H2 H3. split; [now rewrite H2, H3|]. lia.
          - intros y Hy. destruct (He y (or_intror Hy)) as (e & [<-|Hein] & Hey & Hc); [|now exists e].
            pose proof (bar_tsl_ge c _ Hp2 _ _ Hy) as Hge. rewrite <- Hey in Hge. cbn [ent fst] in Hge. lia. }
        destruct Hrec as [R1 R2].
        cbn [tsdrop bar_tsl changes]. rewrite Hts, Hn1, Hn2. cbn [fst snd].
        destruct (ts_eqb (fst nd, snd nd) prev) eqn:E.
        -- apply ts_eqb_eq in E. rewrite <- E. split; [exact R1|exact R2].
        -- cbn [map]. rewrite Hex, R1. split; [reflexivity|]. intros e [<-|Hein]; [exact Hcx|now apply R2].
Qed.

(* ================================================================ the time signatures of the merged list *)
Lemma ats_In a e : In e (ats a) <-> exists x, In x a /\ is_ts x = true /\ e = (m_time x, strip_time x).
Proof.
  rewrite ats_filter, in_map_iff. split.
  - intros (x & <- & Hx). apply filter_In in Hx. exists x. tauto.
  - intros (x & H1 & H2 & ->). exists x. split; [reflexivity|]. now apply filter_In.
Qed.

Lemma ats_perm_In a b e : Permutation a b -> In e (ats a) -> In e (ats b).
Proof.
  intros Hp. rewrite !ats_In. intros (x & H1 & H2 & H3). exists x. split; [|tauto]. eapply Permutation_in; eassumption.
Qed.

Lemma ats_to_abs_In l e : In e (ats (to_abs l)) <-> In e (tsig (ev_rel l)).
Proof.
  unfold ats, tsig. rewrite !filter_In. pose proof (to_abs_events l) as Hp. split; intros [H1 H2]; (split; [|exact H2]).
  - eapply Permutation_in; eassumption.
  - eapply Permutation_in; [symmetry; eassumption|assumption].
Qed.

Lemma In_mapi_aux {A B} (f : Z -> A -> B) l : forall j n x, nth_error l n = Some x -> In (f (j + Z.of_nat n) x) (mapi_aux f j l).
Proof.
  induction l as [|a l IH]; intros j n x H; [destruct n; discriminate|]. cbn [mapi_aux].
  destruct n as [|n]; cbn [nth_error] in H.
  - injection H as ->. left. f_equal. lia.
  - right. replace (j + Z.of_nat (S n)) with (j + 1 + Z.of_nat n) by lia. now apply IH.
Qed.

Lemma fe_abs_ats_In tracks e :
  In e (ats (fe_abs tracks)) <->
  exists i r, nth_error tracks i = Some r /\ In e (tsig (ev_rel (setch (Z.of_nat i) r))).
Proof.
  assert (Hp : Permutation (concat (map to_abs (chs tracks))) (fe_abs tracks)).
  { unfold fe_abs, merge_abs. cbn [app]. apply C04_sort.sort_abs_perm. }
  split.
  - intros H. apply (ats_perm_In _ _ e (Permutation_sym Hp)) in H. apply ats_In in H. destruct H as (x & Hx & Ht & ->).
    apply in_concat in Hx. destruct Hx as (l & Hl & Hx). apply in_map_iff in Hl. destruct Hl as (cl & <- & Hc).
    rewrite chs_eq in Hc. apply mapi_aux_In in Hc. destruct Hc as (i & r & Hr & ->). rewrite Z.add_0_l in Hx.
    exists i, r. split; [exact Hr|]. apply ats_to_abs_In. apply ats_In. exists x. auto.
  - intros (i & r & Hr & H). apply ats_to_abs_In in H. apply (ats_perm_In _ _ e Hp). apply ats_In in H.
    destruct H as (x & Hx & Ht & ->). apply ats_In. exists x. split; [|auto]. apply in_concat.
    exists (to_abs (setch (Z.of_nat i) r)). split; [|exact Hx]. apply in_map. rewrite chs_eq.
    pose proof (In_mapi_aux setch tracks 0 i r Hr) as Hin. now rewrite Z.add_0_l in Hin.
Qed.

Lemma ev_rel_chan i r : forall cur e, In e (ev_rel_from cur (set_channel r i)) -> m_chan (snd e) = i.
Proof.
  induction r as [|m r IH]; intros cur e H; [destruct H|]. cbn [set_channel map ev_rel_from] in H. fold (set_channel r i) in H.
  change (is_wait (set_chan m i)) with (is_wait m) in H. change (is_internal (set_chan m i)) with (is_internal m) in H.
  destruct (is_wait m); [now apply IH with (cur + m_time (set_chan m i))|].
  destruct (is_internal m); [now apply IH with cur|]. destruct H as [<-|H]; [reflexivity|now apply IH with cur].
Qed.

Lemma bar_tsl_incr c sg : caps_pos c sg -> forall s, ForallOrdPairs (fun a b => fst (fst a) < fst (fst b)) (bar_tsl c s sg).
Proof.
  induction 1 as [|nd sg Hp Hps IH]; intros s; [constructor|]. cbn [bar_tsl]. constructor; [|apply IH].
  apply Forall_forall. intros y Hy. pose proof (bar_tsl_ge c sg Hps _ _ Hy). cbn [fst]. lia.
Qed.

Lemma changes_In prev l x : In x (changes prev l) -> In x l.
Proof.
  revert prev. induction l as [|y l IH]; intros prev H; [destruct H|]. cbn [changes] in H.
  destruct (ts_eqb _ _); [right; now apply IH with prev|]. destruct H as [<-|H]; [now left|right; eapply IH; exact H].
Qed.

Lemma changes_FOP (R : Z * Z * Z -> Z * Z * Z -> Prop) l : ForallOrdPairs R l -> forall prev, ForallOrdPairs R (changes prev l).
Proof.
  induction 1 as [|y l Hy _ IH]; intros prev; [constructor|]. cbn [changes].
  destruct (ts_eqb _ _); [apply IH|]. constructor; [|apply IH].
  rewrite Forall_forall in *. intros z Hz. apply Hy. now apply changes_In in Hz.
Qed.

Section BarTracks.
  Variables (c : cfg) (sg : list (Z * Z)) (tracks : list (list msg)).
  Hypothesis Hpos : caps_pos c sg.
  Hypothesis Htsl : forall r, In r tracks -> tsv (ev_rel r) = bar_tsl c 0 sg.
  Hypothesis Hne : tracks <> [].

  Definition bar_TSL : list C04_proofs.event := tsdrop (NONE, NONE) (ats (fe_abs tracks)).

  Lemma bar_TSL_spec :
    map ent bar_TSL = changes (NONE, NONE) (bar_tsl c 0 sg) /\ (forall e, In e bar_TSL -> m_chan (snd e) = 0).
  Proof.
    unfold bar_TSL. apply (tsdrop_bars c sg Hpos 0).
    - apply ats_tc_sorted. apply sort_abs_ksorted.
    - intros e He. apply fe_abs_ats_In in He. destruct He as (i & r & Hr & He).
      pose proof He as He'. unfold tsig in He'. apply filter_In in He'. destruct He' as [He1 He2].
      split; [exact He2|]. split.
      + unfold setch, ev_rel in He1. rewrite (ev_rel_chan _ _ _ _ He1). lia.
      + right. rewrite <- (Htsl r (nth_error_In _ _ Hr)). unfold ev_rel. rewrite <- (tsv_set_channel r (Z.of_nat i) 0).
        unfold tsv. apply (in_map ent) in He. exact He.
    - intros y Hy. destruct tracks as [|r0 ts] eqn:Et; [congruence|].
      rewrite <- (Htsl r0 (or_introl eq_refl)) in Hy. unfold ev_rel in Hy. rewrite <- (tsv_set_channel r0 0 0) in Hy.
      unfold tsv in Hy. apply in_map_iff in Hy. destruct Hy as (e & Hey & He). exists e.
      split; [|split; [exact Hey|]].
      + apply fe_abs_ats_In. exists 0%nat, r0. split; [reflexivity|exact He].
      + unfold tsig in He. apply filter_In in He. destruct He as [He _]. now apply ev_rel_chan in He.
  Qed.

  Lemma bar_TSL_sorted : ForallOrdPairs elt bar_TSL.
  Proof.
    destruct bar_TSL_spec as [H _].
    assert (F : ForallOrdPairs (fun a b => fst (fst a) < fst (fst b)) (map ent bar_TSL)).
    { rewrite H. apply changes_FOP. now apply bar_tsl_incr. }
    revert F. apply FOP_map_inv. intros x y _ _ Hxy. exact Hxy.
  Qed.
End BarTracks.
