(* C03 (piece level, without the open-end restriction), part 2 -- call groups whose tracks may end on a NOTE_OFF at
   the group's last tick: the front end then writes no INTERNAL cap; the group's events followed by a virtual cap at
   the group's end are a chunk, and the virtual cap does not change what `tokenise` does (C03_full_core). *)
From Coq Require Import ZArith List Bool Lia Permutation Sorted.
From Model Require Import Base Util Seq Pairing Tok.
From Proofs Require Import C05_closest C04_sort C04_proofs C07_proofs.
From Proofs Require Import C01_frontend_sig C01_frontend_pipe C01_frontend_pair C01_rest C01_proofs C01_frontend C03_proofs.
From Proofs Require Import C03_piece_norm C03_piece_fe C03_piece_bars C03_piece_clock C03_piece_join C03_piece_groups.
From Proofs Require Import C03_full_core.
Import ListNotations.
Open Scope Z_scope.

(* ================================================================ the clock inside the last bar *)
Definition last_cap (c : cfg) (sg : list (Z * Z)) : Z :=
  match sg with [] => 0 | _ => bar_cap c (fst (last sg (0, 0))) (snd (last sg (0, 0))) end.

(* the bar length in force after the signatures of the bars: that of the last bar *)
Lemma bars_grid_last g c : forall sg s t0 B prev,
  forallb (sig_valid g c) sg = true -> 0 < B -> (s - t0) mod B = 0 ->
  (prev = (NONE, NONE) \/ B = bar_cap c (fst prev) (snd prev)) ->
  snd (ts_grid c t0 B (changes prev (bar_tsl c s sg))) = match sg with [] => B | _ => last_cap c sg end.
Proof.
  induction sg as [|nd sg IH]; intros s t0 B prev Hv HB Hmod Hprev; [reflexivity|].
  cbn [forallb] in Hv. apply andb_prop in Hv. destruct Hv as [Hv1 Hv].
  pose proof Hv1 as Hv1'. unfold sig_valid in Hv1'.
  apply andb_prop in Hv1'. destruct Hv1' as [V4 V5]. apply andb_prop in V4. destruct V4 as [V3 V4].
  apply andb_prop in V3. destruct V3 as [V2 V3]. apply andb_prop in V2. destruct V2 as [V1 V2].
  pose proof V4 as Hcap. apply Z.ltb_lt in Hcap. pose proof V1 as Hden. apply Z.ltb_lt in Hden.
  cbn [bar_tsl changes fst snd]. set (cap := bar_cap c (fst nd) (snd nd)) in *.
  assert (Hlast : match sg with [] => cap | _ => last_cap c sg end = last_cap c (nd :: sg)).
  { unfold last_cap. destruct sg as [|nd' sg']; reflexivity. }
  destruct (ts_eqb (fst nd, snd nd) prev) eqn:E.
  - apply ts_eqb_eq in E. destruct Hprev as [Hp|Hp].
    + rewrite Hp in E. injection E as _ E2. unfold NONE in E2. lia.
    + rewrite <- E in Hp. cbn [fst snd] in Hp. fold cap in Hp. subst B.
      rewrite (IH (s + cap) t0 cap prev Hv HB); [exact Hlast| |right; rewrite <- E; reflexivity].
      replace (s + cap - t0) with (s - t0 + 1 * cap) by lia. now rewrite Z_mod_plus_full.
  - cbn [ts_grid]. rewrite Hmod. change (0 <? 0) with false. cbv iota. fold cap.
    rewrite (IH (s + cap) s cap (fst nd, snd nd) Hv Hcap); [exact Hlast| |right; reflexivity].
    replace (s + cap - s) with cap by lia. apply Z_mod_same_full.
Qed.

Lemma bars_grid_last_ne g c sg B :
  forallb (sig_valid g c) sg = true -> 0 < B -> sg <> [] ->
  snd (ts_grid c 0 B (changes (NONE, NONE) (bar_tsl c 0 sg))) = last_cap c sg.
Proof.
  intros Hv HB Hne. rewrite (bars_grid_last g c sg 0 0 B (NONE, NONE) Hv HB eq_refl (or_introl eq_refl)).
  destruct sg; [congruence|reflexivity].
Qed.

(* a tick inside the last bar of a grid that carries T *)
Lemma in_last_bar B t0 T t : 0 < B -> (T - t0) mod B = 0 -> T - B <= t < T -> t - (t - t0) mod B + B = T.
Proof.
  intros HB Hm Ht. pose proof (Z.div_mod (T - t0) B ltac:(lia)) as HT. rewrite Hm, Z.add_0_r in HT.
  set (q := (T - t0) / B) in *.
  assert (Hq : (t - t0) / B = q - 1) by (symmetry; apply (Z.div_unique_pos (t - t0) B (q - 1) (t - t0 - B * (q - 1))); nia).
  pose proof (Z.div_mod (t - t0) B ltac:(lia)) as Hd. rewrite Hq in Hd. nia.
Qed.

(* the flag "the current bar holds a note" from below: once a NOTE_ON at tick tau has been passed, the flag is on as
   long as the current bar started at or before tau *)
Lemma ref_run_has_lb g c evs : forall k tau,
  valid_from g c k evs = true -> 0 < r_total k -> 0 <= r_tbar k < r_total k -> tau <= r_time k ->
  (r_time k - r_tbar k <= tau -> r_has k = true) ->
  let k' := fst (ref_run c k evs) in
  0 < r_total k' /\ 0 <= r_tbar k' < r_total k' /\ tau <= r_time k' /\ (r_time k' - r_tbar k' <= tau -> r_has k' = true).
Proof.
  induction evs as [|e evs IH]; intros k tau Hv HB Htb Htau Hh; [cbn; auto|].
  cbn [valid_from] in Hv. apply andb_prop in Hv. destruct Hv as [Hev Hv].
  cbn [ref_run]. destruct (ref_step c k e) as [k1 a] eqn:Es. destruct (ref_run c k1 evs) as [k2 b] eqn:Er.
  cbn [fst]. pose proof (ref_step_fst c k e) as (K1 & K2 & K3 & K4). rewrite Es in K1, K2, K3, K4. cbn [fst] in *.
  specialize (IH k1 tau Hv). rewrite Er in IH. cbn [fst] in IH.
  assert (Hle : r_time k <= ev_time e).
  { unfold ev_ok in Hev. apply andb_prop in Hev. destruct Hev as [Hev _]. apply andb_prop in Hev. destruct Hev as [Hev _].
    apply Z.leb_le in Hev. exact Hev. }
  assert (Hmod : 0 <= adv_tbar k (ev_time e) < r_total k) by (unfold adv_tbar; apply Z.mod_pos_bound; lia).
  assert (HB1 : 0 < r_total k1 /\ 0 <= r_tbar k1 < r_total k1).
  { rewrite K3, K2. destruct (is_tsev e && negb (0 <? adv_tbar k (ev_time e))) eqn:E; [|split; [exact HB|exact Hmod]].
    apply andb_prop in E. destruct E as [E1 E2]. apply negb_true_iff in E2. pose proof E2 as E2'. apply Z.ltb_ge in E2'.
    unfold ev_ok in Hev. apply andb_prop in Hev. destruct Hev as [_ Hev].
    unfold is_tsev in E1. apply is_ts_type in E1. rewrite E1 in Hev. fold (ev_time e) in Hev. rewrite E2 in Hev. cbn [orb] in Hev.
    apply andb_prop in Hev. destruct Hev as [Hev _]. apply andb_prop in Hev. destruct Hev as [_ Hev]. apply Z.ltb_lt in Hev. lia. }
  apply IH; try tauto; [rewrite K1; lia|].
  rewrite K4, K1, K2. destruct (is_on (ev_msg e)); [reflexivity|].
  unfold adv_has. destruct (0 <? adv_n k (ev_time e)) eqn:En.
  - (* a bar line was crossed: the new bar starts after tau *)
    intros Hs. exfalso. apply Z.ltb_lt in En. unfold adv_n in En. unfold adv_tbar in Hs.
    pose proof (Z.div_mod (r_tbar k + (ev_time e - r_time k)) (r_total k) ltac:(lia)) as Hd. nia.
  - intros Hs. apply Hh. apply Z.ltb_ge in En. unfold adv_n in En. unfold adv_tbar in Hs.
    assert (Hq : 0 <= (r_tbar k + (ev_time e - r_time k)) / r_total k) by (apply Z.div_pos; lia).
    assert (Hq0 : (r_tbar k + (ev_time e - r_time k)) / r_total k = 0) by lia.
    apply Z.div_small_iff in Hq0; [|lia]. rewrite Z.mod_small in Hs by lia. lia.
Qed.

Lemma ref_run_pos g c evs : forall k,
  valid_from g c k evs = true -> 0 < r_total k -> 0 <= r_tbar k < r_total k ->
  0 < r_total (fst (ref_run c k evs)) /\ 0 <= r_tbar (fst (ref_run c k evs)) < r_total (fst (ref_run c k evs)).
Proof.
  induction evs as [|e evs IH]; intros k Hv HB Htb; [cbn; auto|].
  cbn [valid_from] in Hv. apply andb_prop in Hv. destruct Hv as [Hev Hv].
  cbn [ref_run]. destruct (ref_step c k e) as [k1 a] eqn:Es. destruct (ref_run c k1 evs) as [k2 b] eqn:Er.
  cbn [fst]. pose proof (ref_step_fst c k e) as (K1 & K2 & K3 & K4). rewrite Es in K1, K2, K3, K4. cbn [fst] in *.
  specialize (IH k1 Hv). rewrite Er in IH. cbn [fst] in IH.
  assert (Hle : r_time k <= ev_time e).
  { unfold ev_ok in Hev. apply andb_prop in Hev. destruct Hev as [Hev _]. apply andb_prop in Hev. destruct Hev as [Hev _].
    apply Z.leb_le in Hev. exact Hev. }
  assert (Hmod : 0 <= adv_tbar k (ev_time e) < r_total k) by (unfold adv_tbar; apply Z.mod_pos_bound; lia).
  assert (HB1 : 0 < r_total k1 /\ 0 <= r_tbar k1 < r_total k1).
  { rewrite K3, K2. destruct (is_tsev e && negb (0 <? adv_tbar k (ev_time e))) eqn:E; [|split; [exact HB|exact Hmod]].
    apply andb_prop in E. destruct E as [E1 E2]. apply negb_true_iff in E2. pose proof E2 as E2'. apply Z.ltb_ge in E2'.
    unfold ev_ok in Hev. apply andb_prop in Hev. destruct Hev as [_ Hev].
    unfold is_tsev in E1. apply is_ts_type in E1. rewrite E1 in Hev. fold (ev_time e) in Hev. rewrite E2 in Hev. cbn [orb] in Hev.
    apply andb_prop in Hev. destruct Hev as [Hev _]. apply andb_prop in Hev. destruct Hev as [_ Hev]. apply Z.ltb_lt in Hev. lia. }
  apply IH; tauto.
Qed.

(* after a NOTE_ON at tick tau somewhere in the list *)
Lemma ref_run_touched g c evs e k :
  valid_from g c k evs = true -> 0 < r_total k -> 0 <= r_tbar k < r_total k ->
  In e evs -> is_on (ev_msg e) = true ->
  let k' := fst (ref_run c k evs) in r_time k' - r_tbar k' <= ev_time e -> r_has k' = true.
Proof.
  intros Hv HB Htb He Hon. apply in_split in He. destruct He as (pre & post & ->).
  rewrite valid_from_app in Hv. apply andb_prop in Hv. destruct Hv as [Hv1 Hv2].
  cbn [valid_from] in Hv2. apply andb_prop in Hv2. destruct Hv2 as [Hev Hv2].
  cbv zeta. rewrite ref_run_app. cbn [fst]. set (kp := fst (ref_run c k pre)) in *.
  assert (Hp : 0 < r_total kp /\ 0 <= r_tbar kp < r_total kp) by (apply (ref_run_pos g c pre k Hv1 HB Htb)).
  cbn [ref_run]. destruct (ref_step c kp e) as [k1 a] eqn:Es. destruct (ref_run c k1 post) as [k2 b] eqn:Er. cbn [fst].
  pose proof (ref_step_fst c kp e) as (K1 & K2 & K3 & K4). rewrite Es in K1, K2, K3, K4. cbn [fst] in *. rewrite Hon in K4.
  assert (Hmod : 0 <= adv_tbar kp (ev_time e) < r_total kp) by (unfold adv_tbar; apply Z.mod_pos_bound; lia).
  assert (HB1 : 0 < r_total k1 /\ 0 <= r_tbar k1 < r_total k1).
  { rewrite K3, K2. destruct (is_tsev e && negb (0 <? adv_tbar kp (ev_time e))) eqn:E; [|split; [tauto|exact Hmod]].
    apply andb_prop in E. destruct E as [E1 _]. unfold is_tsev in E1. apply is_ts_type in E1. apply is_on_type' in Hon. congruence. }
  pose proof (ref_run_has_lb g c post k1 (ev_time e) Hv2 (proj1 HB1) (proj2 HB1)) as L. rewrite Er in L. cbn [fst] in L.
  apply L; [rewrite K1; lia|intros _; exact K4].
Qed.

(* ================================================================ a list of events that runs over the bars of a group *)
Lemma events_run0 g c sg E k0 :
  0 < g -> forallb (sig_valid g c) sg = true -> 0 < bars_dur c sg ->
  StronglySorted ele E ->
  (forall e, In e E -> 0 <= ev_time e <= bars_dur c sg /\ (is_tsev e = false -> ev_local_ok g c e = true)) ->
  map ev_tsv (filter is_tsev E) = changes (NONE, NONE) (bar_tsl c 0 sg) ->
  (forall e, In e E -> is_on (ev_msg e) = true -> ev_time e < bars_dur c sg) ->
  (exists e, In e E /\ ev_time e = bars_dur c sg) ->
  r_time k0 = 0 -> r_tbar k0 = 0 -> r_has k0 = false -> 0 < r_total k0 ->
  valid_from g c k0 E = true /\
  r_time (fst (ref_run c k0 E)) = bars_dur c sg /\ r_tbar (fst (ref_run c k0 E)) = 0 /\
  r_has (fst (ref_run c k0 E)) = false /\ 0 < r_total (fst (ref_run c k0 E)) /\
  snd (ref_run c k0 E) = bar_ends c 0 sg.
Proof.
  intros Hg Hsv HT Hsort Hloc Hts Hon Hend K1 K2 K3 K4. set (T := bars_dur c sg) in *.
  destruct (bars_run g c Hg sg 0 0 (r_total k0) (NONE, NONE) Hsv K4) as [R1 R2];
    [reflexivity|now left|apply Z.divide_0_r|].
  rewrite Z.add_0_l in R2. fold T in R2.
  assert (Hloc' : forall e, In e E -> r_time k0 <= ev_time e /\ (is_tsev e = false -> ev_local_ok g c e = true)).
  { intros e He. rewrite K1. destruct (Hloc e He) as [H1 H2]. split; [lia|exact H2]. }
  assert (Hv : valid_from g c k0 E = true).
  { apply (valid_from_ts g c E k0 0 (r_total k0)); [exact K4|reflexivity|now rewrite K2, K1|exact Hsort|exact Hloc'|].
    rewrite Hts. exact R1. }
  split; [exact Hv|].
  assert (Htime : r_time (fst (ref_run c k0 E)) = T).
  { rewrite ref_run_time, K1. destruct Hend as (e & He & Het).
    pose proof (last_time_sorted E Hsort 0 e He) as Hge.
    destruct (last_time_In E 0) as [Ez|(e' & He' & Ez)]; [lia|]. destruct (Hloc e' He') as [Hb _]. lia. }
  split; [exact Htime|].
  destruct (ref_run_grid g c E k0 0 (r_total k0) K4 eq_refl) as (G1 & G2 & G3);
    [now rewrite K2, K1|exact Hsort|intros e He; now apply Hloc'|rewrite Hts; exact R1|].
  rewrite Hts in G1, G2, G3. cbv zeta in G1, G2, G3. rewrite Htime, R2 in G3.
  split; [exact G3|].
  destruct (ref_run_has g c E k0 (T - 1) Hv K4) as (H1 & H2 & H3);
    [lia|rewrite K3; discriminate|intros e He Hone; pose proof (Hon e He Hone); lia|].
  cbv zeta in H1, H2, H3.
  assert (Hhas : r_has (fst (ref_run c k0 E)) = false).
  { destruct (r_has (fst (ref_run c k0 E))); [|reflexivity]. specialize (H3 eq_refl). rewrite Htime, G3 in H3. lia. }
  split; [exact Hhas|]. split; [exact H1|].
  pose proof (run_expected c E k0 0 (r_total k0) T K4 eq_refl) as Hr. rewrite Hts in Hr.
  assert (Hon' : ts_on c 0 (r_total k0) (changes (NONE, NONE) (bar_tsl c 0 sg)) = true).
  { apply (bars_on g c sg 0 0 (r_total k0) (NONE, NONE) Hsv K4); [reflexivity|now left]. }
  specialize (Hr ltac:(now rewrite K2, K1) Hsort).
  assert (Hb : forall e, In e E -> r_time k0 <= ev_time e <= T) by (intros e He; rewrite K1; now apply Hloc).
  specialize (Hr Hb ltac:(rewrite K1; lia) Hon').
  pose proof (bars_expected g c sg 0 k0 (NONE, NONE) Hsv K4) as He. rewrite Z.add_0_l in He. fold T in He.
  rewrite He in Hr; [|lia|lia|rewrite K1, K2; reflexivity|now left].
  assert (E1 : adv_caps (fst (ref_run c k0 E)) T = []).
  { unfold adv_caps, adv_n. rewrite Htime, G3. replace (0 + (T - T)) with 0 by lia. rewrite Z.div_0_l by lia. reflexivity. }
  assert (E2 : adv_caps k0 0 = []).
  { unfold adv_caps, adv_n. rewrite K1, K2. cbn [Z.add Z.sub Z.opp]. rewrite Z.div_0_l by lia. reflexivity. }
  rewrite E1, E2, app_nil_r in Hr. exact Hr.
Qed.

(* ================================================================ groups that may end on a NOTE_OFF *)
Definition n_onset (x : note) : Z := snd (fst (fst x)).
Definition gbar_track2 (c : cfg) (sg : list (Z * Z)) (r : list msg) : bool :=
  gtrack_ok r && tsl_eqb (tsv (ev_rel r)) (bar_tsl c 0 sg) && (dur_rel r =? bars_dur c sg) &&
  forallb (fun tm => negb (is_on (snd tm)) || (fst tm <? bars_dur c sg)) (timed 0 r).
(* no message at the group's last tick ... *)
Definition group_open (c : cfg) (sg : list (Z * Z)) (tracks : list (list msg)) : bool :=
  forallb (fun r => forallb (fun tm => fst tm <? bars_dur c sg) (timed 0 r)) tracks.
(* ... or some note starts inside the group's last bar *)
Definition group_touched (c : cfg) (sg : list (Z * Z)) (tracks : list (list msg)) : bool :=
  existsb (fun r => existsb (fun x => bars_dur c sg - last_cap c sg <=? n_onset x) (notes_of r)) tracks.
Definition group_ok2 (g : Z) (c : cfg) (sg : list (Z * Z)) (tracks : list (list msg)) : bool :=
  (lenZ tracks =? c_ntracks c) && (0 <? bars_dur c sg) && forallb (sig_valid g c) sg &&
  forallb (gbar_track2 c sg) tracks && forallb (fun r => forallb (note_ok g c) (notes_of r)) tracks &&
  (group_open c sg tracks || group_touched c sg tracks).

Lemma psig_timed_on n r : forall cur e, In e (psig n cur r) -> exists m, In (s_time e, m) (timed cur r) /\ is_on m = s_on e.
Proof.
  induction r as [|m r IH]; intros cur e H; [destruct H|]. cbn [psig timed] in *.
  destruct (is_wait m); [now apply IH|].
  destruct (is_note m && (n =? m_note m)).
  - destruct H as [<-|H]; [exists m; split; [now left|reflexivity]|].
    destruct (IH _ _ H) as (m' & Hm' & Ho). exists m'. split; [now right|exact Ho].
  - destruct (IH _ _ H) as (m' & Hm' & Ho). exists m'. split; [now right|exact Ho].
Qed.

Lemma track_notes_In i evs x : In x (track_notes i evs) ->
  exists e, In e evs /\ is_on (ev_msg e) = true /\ ev_time e = n_onset x.
Proof.
  unfold track_notes. intros H. apply in_flat_map in H. destruct H as (e & He & Hx).
  destruct (is_on (ev_msg e)) eqn:Eon; [|destruct Hx]. destruct (m_chan (ev_msg e) =? i); [|destruct Hx].
  destruct Hx as [<-|[]]. exists e. split; [exact He|]. split; [exact Eon|reflexivity].
Qed.

Lemma sorted_snoc l x : StronglySorted ele l -> (forall e, In e l -> ev_time e <= ev_time x) -> StronglySorted ele (l ++ [x]).
Proof.
  induction 1 as [|y l Hs IH Hy]; intros H; [repeat constructor|]. cbn [app]. constructor.
  - apply IH. intros e He. apply H. now right.
  - apply Forall_app. split; [exact Hy|]. constructor; [|constructor]. apply (H y). now left.
Qed.

Lemma last_time_snoc l x : forall d, last_time d (l ++ [x]) = ev_time x.
Proof. induction l as [|y l IH]; intros d; [reflexivity|]. cbn [app last_time]. apply IH. Qed.

Lemma nth_In_ex {A} (l : list A) x d : In x l -> exists i, (i < length l)%nat /\ nth i l d = x.
Proof. intros H. destruct (In_nth l x d H) as (i & Hi & E). now exists i. Qed.

Local Opaque fe_events.
Section GroupChunk2.
  Variables (g : Z) (c : cfg) (sg : list (Z * Z)) (tracks : list (list msg)).
  Hypothesis Hc : valid_cfg g c = true.
  Hypothesis Hgr : group_ok2 g c sg tracks = true.

  Let T := bars_dur c sg.
  Let evs := fe_events tracks.
  Definition cevs : list event := fe_events tracks ++ [ev_cap (bars_dur c sg)].

  Lemma group2_parts :
    lenZ tracks = c_ntracks c /\ 0 < T /\ forallb (sig_valid g c) sg = true /\
    (forall r, In r tracks -> gtrack_ok r = true /\ tsv (ev_rel r) = bar_tsl c 0 sg /\ dur_rel r = T /\
                              forall tm, In tm (timed 0 r) -> is_on (snd tm) = true -> fst tm < T) /\
    (forall r x, In r tracks -> In x (notes_of r) -> note_ok g c x = true) /\
    (group_open c sg tracks = true \/ group_touched c sg tracks = true).
  Proof.
    unfold group_ok2 in Hgr. apply andb_prop in Hgr. destruct Hgr as [H H6]. apply andb_prop in H. destruct H as [H H5].
    apply andb_prop in H. destruct H as [H H4].
    apply andb_prop in H. destruct H as [H H3]. apply andb_prop in H. destruct H as [H1 H2].
    apply Z.eqb_eq in H1. apply Z.ltb_lt in H2. rewrite forallb_forall in H4, H5. apply orb_prop in H6.
    split; [exact H1|]. split; [exact H2|]. split; [exact H3|]. split; [|split; [|exact H6]].
    - intros r Hr. specialize (H4 r Hr). unfold gbar_track2 in H4.
      apply andb_prop in H4. destruct H4 as [H4 G4]. apply andb_prop in H4. destruct H4 as [H4 G3].
      apply andb_prop in H4. destruct H4 as [G1 G2]. apply tsl_eqb_eq in G2. apply Z.eqb_eq in G3.
      rewrite forallb_forall in G4. split; [exact G1|]. split; [exact G2|]. split; [exact G3|].
      intros tm Htm Hon. specialize (G4 tm Htm). rewrite Hon in G4. cbn [negb orb] in G4. now apply Z.ltb_lt in G4.
    - intros r x Hr Hx. specialize (H5 r Hr). rewrite forallb_forall in H5. now apply H5.
  Qed.

  Let Hlen := proj1 group2_parts.
  Let HT := proj1 (proj2 group2_parts).
  Let Hsv := proj1 (proj2 (proj2 group2_parts)).
  Let Htr := proj1 (proj2 (proj2 (proj2 group2_parts))).
  Let Hno := proj1 (proj2 (proj2 (proj2 (proj2 group2_parts)))).
  Let Hend := proj2 (proj2 (proj2 (proj2 (proj2 group2_parts)))).

  Lemma group2_gtracks : gtracks_ok tracks = true.
  Proof. unfold gtracks_ok. apply forallb_forall. intros r Hr. now apply (Htr r Hr). Qed.
  Lemma group2_ne : tracks <> [].
  Proof.
    destruct (valid_cfg_parts g c Hc) as (_ & _ & Hn & _). intros E. rewrite E in Hlen. cbn in Hlen. lia.
  Qed.
  Lemma group2_pos : caps_pos c sg.
  Proof. now apply sig_valid_pos with g. Qed.
  Lemma group2_g : 0 < g.
  Proof. now destruct (valid_cfg_parts g c Hc) as (_ & Hg & _). Qed.
  Lemma group2_dur : piece_dur tracks = T.
  Proof.
    apply piece_dur_const; [exact group2_ne|unfold T; apply bars_dur_nonneg, group2_pos|]. intros r Hr. now apply (Htr r Hr).
  Qed.

  Let TSL := bar_TSL tracks.
  Lemma group2_TSL : map ent TSL = changes (NONE, NONE) (bar_tsl c 0 sg) /\ (forall e, In e TSL -> m_chan (snd e) = 0).
  Proof. apply bar_TSL_spec; [exact group2_pos|intros r Hr; now apply (Htr r Hr)|exact group2_ne]. Qed.
  Lemma group2_TSL_sorted : ForallOrdPairs elt TSL.
  Proof. apply bar_TSL_sorted with c sg; [exact group2_pos|intros r Hr; now apply (Htr r Hr)|exact group2_ne]. Qed.
  Lemma group2_divT : divb g (piece_dur tracks) = true.
  Proof. rewrite group2_dur. apply divb_of; [exact group2_g|]. apply bars_dur_div; [exact group2_g|exact Hsv]. Qed.

  Lemma group2_frontend : tok_frontend tracks = Ok evs.
  Proof. apply (gfrontend_ok tracks group2_gtracks). Qed.
  Lemma group2_sorted : StronglySorted ele evs.
  Proof. apply (gevents_sorted tracks group2_gtracks). Qed.
  Lemma group2_local e : In e evs -> 0 <= ev_time e /\ (is_tsev e = false -> ev_local_ok g c e = true).
  Proof. apply (gevent_local g c tracks group2_gtracks Hlen Hno group2_divT). Qed.
  Lemma group2_ts : map ev_tsv (filter is_tsev evs) = changes (NONE, NONE) (bar_tsl c 0 sg).
  Proof.
    unfold evs. rewrite (gevents_ts tracks TSL group2_gtracks eq_refl group2_TSL_sorted (proj2 group2_TSL)).
    rewrite tsv3_ent. apply group2_TSL.
  Qed.

  (* the NOTE_ON messages of the sorted list come before the end of the group *)
  Lemma group2_on_time x : In x (fe_sorted tracks) -> is_on x = true -> m_time x < T.
  Proof.
    intros Hx Hon. pose proof (on_is_note x Hon) as Hn. set (k := (m_chan x, m_note x)).
    assert (Hin : In (sigm x) (asig k (fe_sorted tracks))).
    { rewrite asig_kp. apply in_map. unfold kp. apply filter_In. split; [exact Hx|]. unfold nkey, k.
      now rewrite Hn, k2_eqb_refl. }
    rewrite (gfe_sorted_sig tracks group2_gtracks) in Hin. apply piece_sig_In in Hin. destruct Hin as (r & Hr & Hin).
    apply psig_timed_on in Hin. destruct Hin as (m & Hm & Ho). destruct (Htr r Hr) as (_ & _ & _ & Hlt).
    apply (Hlt _ Hm). cbn [snd]. rewrite Ho. exact Hon.
  Qed.

  Lemma group2_ev_le e : In e evs -> ev_time e <= T.
  Proof.
    intros He. destruct (gevent_msg tracks group2_gtracks e He) as [Hin _].
    rewrite <- group2_dur, <- (gfe_sorted_maxt tracks group2_gtracks). now apply maxt_In.
  Qed.

  Lemma group2_on_lt e : In e evs -> is_on (ev_msg e) = true -> ev_time e < T.
  Proof.
    intros He Hon. destruct (gevent_msg tracks group2_gtracks e He) as [Hin _]. now apply group2_on_time.
  Qed.

  (* ---- the events followed by the virtual cap *)
  Lemma cevs_sorted : StronglySorted ele cevs.
  Proof.
    unfold cevs. apply sorted_snoc; [exact group2_sorted|]. intros e He. now apply group2_ev_le.
  Qed.

  Lemma cevs_In e : In e cevs -> In e evs \/ e = ev_cap T.
  Proof. unfold cevs. intros H. apply in_app_or in H. destruct H as [H|[<-|[]]]; [now left|now right]. Qed.

  Lemma cevs_local e : In e cevs -> 0 <= ev_time e <= T /\ (is_tsev e = false -> ev_local_ok g c e = true).
  Proof.
    intros H. destruct (cevs_In e H) as [He| ->].
    - destruct (group2_local e He) as [H1 H2]. pose proof (group2_ev_le e He). split; [lia|exact H2].
    - cbn [ev_cap ev_time ev_msg snd p_first fst mk_internal m_time]. split; [lia|]. intros _.
      unfold ev_local_ok. cbn [ev_cap ev_msg snd p_first fst mk_internal m_time m_type]. rewrite <- group2_dur, group2_divT. reflexivity.
  Qed.

  Lemma cevs_ts : map ev_tsv (filter is_tsev cevs) = changes (NONE, NONE) (bar_tsl c 0 sg).
  Proof. unfold cevs. rewrite filter_app. cbn [filter]. rewrite app_nil_r. apply group2_ts. Qed.

  Lemma cevs_on_lt e : In e cevs -> is_on (ev_msg e) = true -> ev_time e < T.
  Proof. intros H Hon. destruct (cevs_In e H) as [He| ->]; [now apply group2_on_lt|discriminate]. Qed.

  Lemma cevs_end : exists e, In e cevs /\ ev_time e = T.
  Proof. exists (ev_cap T). split; [unfold cevs; apply in_or_app; right; now left|reflexivity]. Qed.

  Lemma cevs_run0 k0 :
    r_time k0 = 0 -> r_tbar k0 = 0 -> r_has k0 = false -> 0 < r_total k0 ->
    valid_from g c k0 cevs = true /\
    r_time (fst (ref_run c k0 cevs)) = T /\ r_tbar (fst (ref_run c k0 cevs)) = 0 /\
    r_has (fst (ref_run c k0 cevs)) = false /\ 0 < r_total (fst (ref_run c k0 cevs)) /\
    snd (ref_run c k0 cevs) = bar_ends c 0 sg.
  Proof.
    apply (events_run0 g c sg cevs k0 group2_g Hsv HT cevs_sorted cevs_local cevs_ts cevs_on_lt cevs_end).
  Qed.

  (* ---- where the clock stands after the real events *)
  Lemma group2_open_end : group_open c sg tracks = true -> exists e, In e evs /\ ev_time e = T.
  Proof.
    intros Ho. unfold group_open in Ho. rewrite forallb_forall in Ho.
    pose proof (gfe_sorted_maxt tracks group2_gtracks) as Hm. rewrite group2_dur in Hm.
    destruct (maxt_ex (fe_sorted tracks)) as (x & Hx & Ht); [lia|]. rewrite Hm in Ht.
    destruct (gfe_sorted_types tracks group2_gtracks x Hx) as [Hn|Hs].
    - exfalso. set (k := (m_chan x, m_note x)).
      assert (Hin : In (sigm x) (asig k (fe_sorted tracks))).
      { rewrite asig_kp. apply in_map. unfold kp. apply filter_In. split; [exact Hx|]. unfold nkey, k.
        now rewrite Hn, k2_eqb_refl. }
      rewrite (gfe_sorted_sig tracks group2_gtracks) in Hin. apply piece_sig_In in Hin. destruct Hin as (r & Hr & Hin).
      apply psig_timed in Hin. destruct Hin as (m & Hm'). specialize (Ho r Hr). rewrite forallb_forall in Ho.
      specialize (Ho _ Hm'). apply Z.ltb_lt in Ho. cbn [fst] in Ho. unfold sigm, s_time in Ho. cbn [fst] in Ho. fold T in Ho. lia.
    - assert (Hs' : is_ts x || is_internal x = true).
      { destruct Hs as [[Hi _]|Hts]; [rewrite Hi; apply orb_true_r|now rewrite Hts]. }
      destruct (gsingle_event tracks group2_gtracks x Hx Hs') as (e & He & Hmsg).
      exists e. split; [exact He|]. unfold ev_time. now rewrite Hmsg.
  Qed.

  Lemma group2_valid0 k0 : r_time k0 = 0 -> r_tbar k0 = 0 -> 0 < r_total k0 -> valid_from g c k0 evs = true.
  Proof.
    intros K1 K2 K4.
    destruct (bars_run g c group2_g sg 0 0 (r_total k0) (NONE, NONE) Hsv K4) as [R1 _];
      [reflexivity|now left|apply Z.divide_0_r|].
    apply (valid_from_ts g c evs k0 0 (r_total k0)); [exact K4|reflexivity|now rewrite K2, K1|exact group2_sorted| |].
    - intros e He. rewrite K1. now apply group2_local.
    - rewrite group2_ts. exact R1.
  Qed.

  Lemma group2_vcond0 k0 :
    r_time k0 = 0 -> r_tbar k0 = 0 -> r_has k0 = false -> 0 < r_total k0 ->
    vcap_cond (fst (ref_run c k0 evs)) T.
  Proof.
    intros K1 K2 K3 K4.
    destruct (existsb (fun e => ev_time e =? T) evs) eqn:Ex.
    - (* some event at the end: the clock is there *)
      apply existsb_exists in Ex. destruct Ex as (e & He & Et). apply Z.eqb_eq in Et. left.
      assert (Hl : forall e, In e evs -> 0 <= ev_time e <= T /\ (is_tsev e = false -> ev_local_ok g c e = true)).
      { intros x Hx. destruct (group2_local x Hx) as [H1 H2]. pose proof (group2_ev_le x Hx). split; [lia|exact H2]. }
      destruct (events_run0 g c sg evs k0 group2_g Hsv HT group2_sorted Hl group2_ts group2_on_lt
                  (ex_intro _ e (conj He Et)) K1 K2 K3 K4) as (_ & R & _). exact R.
    - (* no event at the end: a note started inside the last bar *)
      assert (Hlt : forall e, In e evs -> ev_time e < T).
      { intros e He. pose proof (group2_ev_le e He) as Hle.
        destruct (Z.eq_dec (ev_time e) T) as [E|E]; [|lia]. exfalso.
        assert (existsb (fun e => ev_time e =? T) evs = true); [|congruence].
        apply existsb_exists. exists e. split; [exact He|now apply Z.eqb_eq]. }
      assert (Ht : group_touched c sg tracks = true).
      { destruct Hend as [Ho|Ht]; [|exact Ht]. destruct (group2_open_end Ho) as (e & He & Et). specialize (Hlt e He). lia. }
      unfold group_touched in Ht. apply existsb_exists in Ht. destruct Ht as (r & Hr & Hx).
      apply existsb_exists in Hx. destruct Hx as (x & Hx & Hons). apply Z.leb_le in Hons.
      destruct (nth_In_ex tracks r [] Hr) as (i & Hi & Hnth). rewrite <- Hnth in Hx.
      eapply Permutation_in in Hx; [|apply Permutation_sym, (gfrontend_notes tracks group2_gtracks i Hi)].
      destruct (track_notes_In _ _ _ Hx) as (en & Hen & Hon & Hte).
      right. pose proof (group2_valid0 k0 K1 K2 K4) as Hv.
      destruct (bars_run g c group2_g sg 0 0 (r_total k0) (NONE, NONE) Hsv K4) as [R1 R2];
        [reflexivity|now left|apply Z.divide_0_r|].
      rewrite Z.add_0_l in R2. fold T in R2.
      destruct (ref_run_grid g c evs k0 0 (r_total k0) K4 eq_refl) as (G1 & G2 & G3);
        [now rewrite K2, K1|exact group2_sorted|intros e He; rewrite K1; now apply group2_local|rewrite group2_ts; exact R1|].
      rewrite group2_ts in G1, G2, G3. cbv zeta in G1, G2, G3.
      assert (Hsg : sg <> []).
      { intros E. pose proof HT as HT'. unfold T in HT'. rewrite E in HT'. cbn in HT'. lia. }
      pose proof (bars_grid_last_ne g c sg (r_total k0) Hsv K4 Hsg) as HL'.
      rewrite HL' in G1, G2, G3, R2.
      set (ka := fst (ref_run c k0 evs)) in *.
      assert (Hta : ev_time en <= r_time ka < T).
      { unfold ka. rewrite ref_run_time, K1. split; [now apply last_time_sorted; [exact group2_sorted|]|].
        destruct (last_time_In evs 0) as [E|(e' & He' & E)]; [lia|]. rewrite <- E. now apply Hlt. }
      assert (Hbar : r_time ka - r_tbar ka + r_total ka = T).
      { rewrite G3, G2. apply in_last_bar; [exact G1|exact R2|]. lia. }
      split; [exact Hbar|]. right.
      apply (ref_run_touched g c evs en k0 Hv K4 ltac:(lia) Hen Hon). fold ka. lia.
  Qed.

  (* ---- shifted to a clock on a bar start *)
  Lemma cevs_run k :
    r_tbar k = 0 -> r_has k = false -> 0 < r_total k -> (g | r_time k) ->
    let r := ref_run c k (map (shift_ev (r_time k)) cevs) in
    valid_from g c k (map (shift_ev (r_time k)) cevs) = true /\
    r_time (fst r) = r_time k + T /\ r_tbar (fst r) = 0 /\ r_has (fst r) = false /\ 0 < r_total (fst r) /\
    (g | r_time (fst r)) /\ snd r = bar_ends c (r_time k) sg /\
    vcap_cond (fst (ref_run c k (map (shift_ev (r_time k)) evs))) (T + r_time k).
  Proof.
    intros K2 K3 K4 K5. set (a := r_time k) in *. set (k0 := mkrc 0 0 (r_total k) false).
    assert (Ek : k = kshift a k0).
    { destruct k as [t tb tot h]. cbn [r_time r_tbar r_total r_has] in *. subst tb h. unfold kshift, k0, a.
      cbn [r_time r_tbar r_total r_has]. f_equal. }
    destruct (cevs_run0 k0 eq_refl eq_refl eq_refl K4) as (R1 & R2 & R3 & R4 & R5 & R6).
    pose proof (group2_vcond0 k0 eq_refl eq_refl eq_refl K4) as Hvc.
    cbv zeta.
    assert (E1 : valid_from g c k (map (shift_ev a) cevs) = true).
    { rewrite Ek. rewrite valid_from_shift; [exact R1|exact group2_g|exact K5]. }
    assert (E2 : fst (ref_run c k (map (shift_ev a) cevs)) = kshift a (fst (ref_run c k0 cevs))).
    { rewrite Ek. apply ref_run_shift. }
    assert (E3 : snd (ref_run c k (map (shift_ev a) cevs)) = bar_ends c a sg).
    { rewrite Ek. rewrite ref_run_shift_snd, R6, bar_ends_shift. reflexivity. }
    assert (E4 : fst (ref_run c k (map (shift_ev a) evs)) = kshift a (fst (ref_run c k0 evs))).
    { rewrite Ek. apply ref_run_shift. }
    rewrite E2, E3, E4. unfold kshift at 1 2 3 4 5 6. cbn [r_time r_tbar r_total r_has]. rewrite R2.
    split; [exact E1|]. split; [lia|]. split; [exact R3|]. split; [exact R4|]. split; [exact R5|].
    split; [apply Z.divide_add_r; [|exact K5]; apply bars_dur_div; [exact group2_g|exact Hsv]|].
    split; [reflexivity|].
    unfold vcap_cond, kshift in *. cbn [r_time r_tbar r_total r_has]. destruct Hvc as [H|[H1 H2]]; [left; lia|right; split; [lia|exact H2]].
  Qed.

  Lemma cevs_len : chunk_len cevs = T.
  Proof. unfold chunk_len, cevs. now rewrite last_time_snoc. Qed.

  Lemma cevs_notes i : (i < length tracks)%nat ->
    Permutation (track_notes (Z.of_nat i) cevs) (notes_of (nth i tracks [])).
  Proof.
    intros Hi. unfold cevs. rewrite track_notes_app. unfold track_notes at 2. cbn [flat_map ev_cap ev_msg snd p_first fst mk_internal].
    cbn [is_on m_type mtype_eqb mtype_rank Z.eqb andb app]. rewrite app_nil_r. apply gfrontend_notes; [exact group2_gtracks|exact Hi].
  Qed.

  Lemma group2_ntracks : length tracks = Z.to_nat (c_ntracks c).
  Proof. unfold lenZ in Hlen. lia. Qed.
End GroupChunk2.

(* ================================================================ lists of groups *)
Definition groups_ok2 (g : Z) (c : cfg) (groups : list group) : bool :=
  forallb (fun gr => group_ok2 g c (fst gr) (snd gr)) groups.
(* the front-end outputs with the length of each group *)
Definition group_cevents (c : cfg) (groups : list group) : list (list event * Z) :=
  map (fun gr => (fe_events (snd gr), bars_dur c (fst gr))) groups.

Lemma capped_cevs c sg tracks : capped (fe_events tracks, bars_dur c sg) = cevs c sg tracks.
Proof. reflexivity. Qed.

Lemma groups2_chunks g c (Hc : valid_cfg g c = true) : forall groups k,
  r_tbar k = 0 -> r_has k = false -> 0 < r_total k -> (g | r_time k) -> groups_ok2 g c groups = true ->
  chunks_ok g c k (map capped (group_cevents c groups)) = true /\ vcaps_ok c k (group_cevents c groups).
Proof.
  induction groups as [|[sg tracks] groups IH]; intros k K2 K3 K4 K5 Hok; [split; [reflexivity|exact I]|].
  cbn [groups_ok2 forallb fst snd] in Hok. apply andb_prop in Hok. destruct Hok as [Hgr Hok].
  cbn [group_cevents map chunks_ok vcaps_ok fst snd]. fold (group_cevents c groups). rewrite capped_cevs.
  destruct (cevs_run g c sg tracks Hc Hgr k K2 K3 K4 K5) as (R1 & R2 & R3 & R4 & R5 & R6 & _ & R8).
  cbv zeta in R1, R2, R3, R4, R5, R6, R8.
  destruct (IH _ R3 R4 R5 R6 Hok) as [I1 I2].
  rewrite R1, R3, R4, Z.eqb_refl, I1. cbn [andb negb]. split; [reflexivity|]. split; [exact R8|exact I2].
Qed.

Lemma groups2_frontend g c (Hc : valid_cfg g c = true) groups :
  groups_ok2 g c groups = true -> mapM tok_frontend (group_calls groups) = Ok (map fst (group_cevents c groups)).
Proof.
  induction groups as [|[sg tracks] groups IH]; intros Hok; [reflexivity|].
  cbn [groups_ok2 forallb fst snd] in Hok. apply andb_prop in Hok. destruct Hok as [Hgr Hok].
  cbn [group_calls group_cevents map mapM snd fst]. rewrite (group2_frontend g c sg tracks Hgr). cbn [rbind].
  fold (group_calls groups). fold (group_cevents c groups). rewrite (IH Hok). reflexivity.
Qed.

Lemma groups2_len g c groups : groups_ok2 g c groups = true -> calls_len c (group_calls groups) = true.
Proof.
  induction groups as [|[sg tracks] groups IH]; intros Hok; [reflexivity|].
  cbn [groups_ok2 forallb fst snd] in Hok. apply andb_prop in Hok. destruct Hok as [Hgr Hok].
  cbn [group_calls calls_len map forallb snd]. fold (group_calls groups). fold (calls_len c (group_calls groups)).
  rewrite (IH Hok), andb_true_r. unfold group_ok2 in Hgr. repeat (apply andb_prop in Hgr; destruct Hgr as [Hgr _]). exact Hgr.
Qed.

Lemma groups2_run g c (Hc : valid_cfg g c = true) : forall groups k,
  r_tbar k = 0 -> r_has k = false -> 0 < r_total k -> (g | r_time k) -> groups_ok2 g c groups = true ->
  let r := ref_run c k (glue (r_time k) (map capped (group_cevents c groups))) in
  r_time (fst r) = r_time k + bars_dur c (all_sigs groups) /\ r_tbar (fst r) = 0 /\ r_has (fst r) = false /\
  snd r = bar_ends c (r_time k) (all_sigs groups).
Proof.
  induction groups as [|[sg tracks] groups IH]; intros k K2 K3 K4 K5 Hok.
  - cbn. repeat split; try assumption. lia.
  - cbn [groups_ok2 forallb fst snd] in Hok. apply andb_prop in Hok. destruct Hok as [Hgr Hok].
    cbn [group_cevents map glue snd all_sigs concat fst]. fold (group_cevents c groups). fold (all_sigs groups).
    rewrite capped_cevs, ref_run_app. cbn [fst snd].
    destruct (cevs_run g c sg tracks Hc Hgr k K2 K3 K4 K5) as (_ & R2 & R3 & R4 & R5 & R6 & R7 & _).
    cbv zeta in R2, R3, R4, R5, R6, R7.
    rewrite (cevs_len c sg tracks), <- R2.
    destruct (IH _ R3 R4 R5 R6 Hok) as (I1 & I2 & I3 & I4). cbv zeta in I1, I2, I3, I4.
    rewrite I1, I2, I3, I4, R7, R2.
    rewrite bar_ends_app. split; [|split; [reflexivity|split; [reflexivity|reflexivity]]].
    clear. induction sg as [|nd sg IHs]; cbn [app bars_dur]; lia.
Qed.

Lemma groups2_lens c groups : map chunk_len (map capped (group_cevents c groups)) = group_lens c groups.
Proof.
  induction groups as [|[sg tracks] groups IH]; [reflexivity|].
  cbn [group_cevents group_lens map fst snd]. rewrite capped_cevs, cevs_len. f_equal. exact IH.
Qed.

Lemma groups2_notes g c (Hc : valid_cfg g c = true) i groups : (i < Z.to_nat (c_ntracks c))%nat ->
  groups_ok2 g c groups = true ->
  Forall2 (fun ch ns => Permutation (track_notes (Z.of_nat i) ch) ns)
          (map capped (group_cevents c groups)) (group_notes_of i groups).
Proof.
  intros Hi. induction groups as [|[sg tracks] groups IH]; intros Hok; [constructor|].
  cbn [groups_ok2 forallb fst snd] in Hok. apply andb_prop in Hok. destruct Hok as [Hgr Hok].
  cbn [group_cevents group_notes_of map snd fst]. constructor; [|now apply IH].
  rewrite capped_cevs. apply (cevs_notes g c sg tracks Hgr). now rewrite (group2_ntracks g c sg tracks Hgr).
Qed.

(* Group-level round trip without the open-end restriction: `group_ok2` only asks that no NOTE_ON sits at the group's
   last tick and that the group is open-ended OR some note starts inside its last bar. *)
Theorem C03_groups_roundtrip_full g c groups :
  valid_cfg g c = true -> groups_ok2 g c groups = true ->
  exists toks st seqs,
    tokenise_many c (tstate0 c) (group_calls groups) = Ok (toks, st) /\
    mapM tok_frontend (group_calls groups) = Ok (map fst (group_cevents c groups)) /\
    core c (tstate0 c) (glue 0 (map capped (group_cevents c groups))) = Ok (toks, st) /\
    t_time st = bars_dur c (all_sigs groups) /\ t_tbar st = 0 /\
    detokenise c toks = Ok seqs /\ length seqs = Z.to_nat (c_ntracks c) /\
    forall i, (i < length seqs)%nat ->
      Permutation (filter is_note (nth i seqs []))
                  (flat_map (note_msgs c) (glued_notes i 0 (group_lens c groups) (group_notes_of i groups))) /\
      Permutation (filter is_cap (nth i seqs [])) (caps_msgs (bar_ends c 0 (all_sigs groups))).
Proof.
  intros Hc Hok. destruct (valid_cfg_parts g c Hc) as (_ & _ & _ & _ & _ & HB & _).
  destruct (groups2_chunks g c Hc groups (rclk0 c) eq_refl eq_refl HB (Z.divide_0_r g) Hok) as [H3 H4].
  pose proof (groups2_frontend g c Hc groups Hok) as H1. pose proof (groups2_len g c groups Hok) as H2.
  pose proof (chunks_valid g c _ _ H3) as Hv. cbn [rclk0 r_time] in Hv.
  destruct (C01_core_roundtrip g c _ Hc Hv) as (toks & st & seqs & R1 & _ & R3 & R4 & R5 & R6 & R7).
  destruct (groups2_run g c Hc groups (rclk0 c) eq_refl eq_refl HB (Z.divide_0_r g) Hok) as (G1 & G2 & G3 & G4).
  cbv zeta in G1, G2, G3, G4. change (r_time (rclk0 c)) with 0 in G1, G2, G3, G4.
  set (chs := map capped (group_cevents c groups)) in *.
  assert (Hclose : ref_close (fst (ref_run c (rclk0 c) (glue 0 chs))) = (fst (ref_run c (rclk0 c) (glue 0 chs)), [])).
  { unfold ref_close. now rewrite G2, G3. }
  exists toks, st, seqs.
  split.
  { rewrite (tokenise_many_chunked c _ _ _ H2 H1).
    rewrite (chunked_vcap g c Hc (group_cevents c groups) (tstate0 c) (rclk0 c) (dstate0 c)
               (init_good g c Hc) (init_match c) (init_sim c) eq_refl H3 H4).
    fold chs. rewrite (C03_chunked_tokens g c _ Hc H3). exact R1. }
  split; [exact H1|]. split; [exact R1|].
  split; [rewrite R3; unfold run_end; rewrite Hclose; cbn [fst]; rewrite G1; lia|].
  split; [exact R4|]. split; [exact R5|]. split; [exact R6|]. intros i Hi. specialize (R7 i Hi). split.
  - apply (filter_perm is_note) in R7. rewrite filter_note_rel, exp_track_notes, ev_notes_track in R7.
    eapply perm_trans; [exact R7|]. apply Permutation_flat_map.
    rewrite <- (groups2_lens c groups). apply glue_track_notes. apply (groups2_notes g c Hc i groups); [lia|exact Hok].
  - apply (filter_perm is_cap) in R7. rewrite filter_cap_rel, exp_track_caps in R7.
    unfold run_caps in R7. rewrite Hclose, G4 in R7. cbn [snd] in R7. now rewrite app_nil_r in R7.
Qed.

(* Target 2 without the open-end restriction: every front end succeeds; its events FOLLOWED BY an INTERNAL cap at the
   group's end (`capped`) satisfy `chunks_ok`; and that virtual cap changes neither the tokens nor the states of the
   threaded core runs (when the front end wrote a cap itself the virtual one is a second cap at the same tick). *)
Theorem C03_bar_chunks_full g c groups :
  valid_cfg g c = true -> groups_ok2 g c groups = true ->
  mapM tok_frontend (group_calls groups) = Ok (map fst (group_cevents c groups)) /\
  calls_len c (group_calls groups) = true /\
  chunks_ok g c (rclk0 c) (map capped (group_cevents c groups)) = true /\
  chunked c (tstate0 c) (map fst (group_cevents c groups)) = chunked c (tstate0 c) (map capped (group_cevents c groups)) /\
  tokenise_many c (tstate0 c) (group_calls groups) = core c (tstate0 c) (glue 0 (map capped (group_cevents c groups))).
Proof.
  intros Hc Hok. destruct (valid_cfg_parts g c Hc) as (_ & _ & _ & _ & _ & HB & _).
  destruct (groups2_chunks g c Hc groups (rclk0 c) eq_refl eq_refl HB (Z.divide_0_r g) Hok) as [H3 H4].
  pose proof (groups2_frontend g c Hc groups Hok) as H1. pose proof (groups2_len g c groups Hok) as H2.
  pose proof (chunked_vcap g c Hc (group_cevents c groups) (tstate0 c) (rclk0 c) (dstate0 c)
                (init_good g c Hc) (init_match c) (init_sim c) eq_refl H3 H4) as H5.
  split; [exact H1|]. split; [exact H2|]. split; [exact H3|]. split; [exact H5|].
  rewrite (tokenise_many_chunked c _ _ _ H2 H1), H5. now apply C03_chunked_tokens with g.
Qed.
