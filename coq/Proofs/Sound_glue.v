(* Sound_glue.v -- glue between the two notions of "sounding":
     * tick-wise, on ABSOLUTE lists (C15_proofs.depth_at / C15_proofs.sounding: a key (channel,pitch) sounds at tick t
       iff #note-ons with time <= t minus #note-offs with time <= t is positive), and
     * list-order, on RELATIVE lists (C07_proofs.sounding: t lies in a WAIT during which the nesting depth is positive),
   through to_rel, normalise and to_abs.  Used by C15_sound.v, C13_union.v, C12_notes.v. *)
From Coq Require Import ZArith List Bool Lia Permutation.
From Model Require Import Base Seq.
From Proofs Require Import C04_sort C04_proofs C07_proofs C17_proofs C15_proofs.
Import ListNotations.
Open Scope Z_scope.

(* ================================================================ Part 0: small facts on flags *)
Lemma on_off_excl m : is_on m = true -> is_off m = false.
Proof. by_flags m; congruence. Qed.
Lemma note_flags m : is_note m = false -> is_on m = false /\ is_off m = false.
Proof. unfold is_note. intros H. now apply orb_false_iff in H. Qed.
Lemma on_is_note m : is_on m = true -> is_note m = true.
Proof. unfold is_note. intros ->. reflexivity. Qed.
Lemma off_is_note m : is_off m = true -> is_note m = true.
Proof. unfold is_note. intros ->. apply orb_true_r. Qed.
Lemma internal_not_note m : is_internal m = true -> is_note m = false.
Proof. unfold is_internal, is_note, is_on, is_off, mtype_eqb. destruct (m_type m); cbn; congruence. Qed.
Lemma wait_not_note m : is_wait m = true -> is_note m = false.
Proof. unfold is_note. by_flags m; congruence. Qed.
Lemma on_rank m : is_on m = true -> mtype_rank (m_type m) = 7.
Proof. unfold is_on, mtype_eqb. intros H. now apply Z.eqb_eq in H. Qed.
Lemma off_rank m : is_off m = true -> mtype_rank (m_type m) = 6.
Proof. unfold is_off, mtype_eqb. intros H. now apply Z.eqb_eq in H. Qed.
Lemma is_key_eq k m : is_key k m = true -> k = (m_chan m, m_note m).
Proof. unfold is_key. apply C07_proofs.k2_eqb_eq. Qed.

(* ================================================================ Part 1: weighted note counts *)
(* contribution of message m, placed at tick c, to a count in which a NOTE_ON of key k at tick c weighs (a c) and a
   NOTE_OFF of key k at tick c weighs -(b c) *)
Definition term (k : k2) (a b : Z -> Z) (c : Z) (m : msg) : Z :=
  (if is_key k m && is_on m then a c else 0) - (if is_key k m && is_off m then b c else 0).

(* absolute lists: every message at its own time *)
Fixpoint asum (k : k2) (a b : Z -> Z) (l : list msg) : Z :=
  match l with [] => 0 | m :: l' => term k a b (m_time m) m + asum k a b l' end.
(* relative lists: every non-wait message at the sum of the waits before it (start clock cur) *)
Fixpoint rsum (k : k2) (a b : Z -> Z) (cur : Z) (r : list msg) : Z :=
  match r with
  | [] => 0
  | m :: r' => if is_wait m then rsum k a b (cur + m_time m) r' else term k a b cur m + rsum k a b cur r'
  end.

Definition c0 (_ : Z) : Z := 0.
Definition c1 (_ : Z) : Z := 1.
Definition le_t (t c : Z) : Z := b2z (c <=? t).      (* c <= t *)
Definition lt_t (t c : Z) : Z := b2z (c <? t).       (* c < t *)

(* depth at tick t: #on(time <= t) - #off(time <= t) *)
Definition adepth (k : k2) (t : Z) (l : list msg) : Z := asum k (le_t t) (le_t t) l.
(* strict depth at tick t: #on(time < t) - #off(time <= t); it is >= 0 everywhere iff every note-off closes a note
   that started STRICTLY earlier *)
Definition sdepth (k : k2) (t : Z) (l : list msg) : Z := asum k (lt_t t) (le_t t) l.
Definition radepth (k : k2) (t : Z) (cur : Z) (r : list msg) : Z := rsum k (le_t t) (le_t t) cur r.
Definition rsdepth (k : k2) (t : Z) (cur : Z) (r : list msg) : Z := rsum k (lt_t t) (le_t t) cur r.

Lemma term_mono k a b a' b' c m : a c <= a' c -> b' c <= b c -> term k a b c m <= term k a' b' c m.
Proof. intros H1 H2. unfold term. destruct (is_key k m && is_on m), (is_key k m && is_off m); lia. Qed.
Lemma term_nonnote k a b c m : is_note m = false -> term k a b c m = 0.
Proof. intros H. apply note_flags in H as [H1 H2]. unfold term. now rewrite H1, H2, !andb_false_r. Qed.
Lemma term_nokey k a b c m : is_key k m = false -> term k a b c m = 0.
Proof. intros H. unfold term. now rewrite H. Qed.
Lemma term_c0 k c m : term k c0 c0 c m = 0.
Proof. unfold term, c0. destruct (is_key k m && is_on m), (is_key k m && is_off m); reflexivity. Qed.
Lemma term_c1 k c m :
  term k c1 c1 c m = (if is_key k m && is_on m then 1 else if is_key k m && is_off m then -1 else 0).
Proof.
  unfold term, c1. destruct (is_key k m) eqn:K; cbn [andb]; [|reflexivity].
  by_flags m; reflexivity.
Qed.
Lemma term_on k a b c m : is_key k m = true -> is_on m = true -> term k a b c m = a c.
Proof. intros K O. unfold term. rewrite K, O, (on_off_excl m O). cbn. lia. Qed.
Lemma term_off k a b c m : is_key k m = true -> is_off m = true -> term k a b c m = - b c.
Proof.
  intros K O. unfold term. rewrite K, O. assert (is_on m = false) as -> by (by_flags m; congruence). cbn. lia.
Qed.

Lemma asum_cons k a b m l : asum k a b (m :: l) = term k a b (m_time m) m + asum k a b l.
Proof. reflexivity. Qed.
Lemma asum_app k a b l l' : asum k a b (l ++ l') = asum k a b l + asum k a b l'.
Proof. induction l as [|m l IH]; cbn [app asum]; lia. Qed.
Lemma asum_perm k a b l l' : Permutation l l' -> asum k a b l = asum k a b l'.
Proof. induction 1; cbn [asum]; lia. Qed.
Lemma asum_concat k a b ls : asum k a b (concat ls) = sumZ (map (asum k a b) ls).
Proof. induction ls as [|l ls IH]; [reflexivity|]. cbn [concat map sumZ]. now rewrite asum_app, IH. Qed.
Lemma asum_mono k a b a' b' l :
  (forall m, In m l -> term k a b (m_time m) m <= term k a' b' (m_time m) m) -> asum k a b l <= asum k a' b' l.
Proof.
  induction l as [|m l IH]; intros H; cbn [asum]; [lia|].
  pose proof (H m (or_introl eq_refl)). assert (asum k a b l <= asum k a' b' l) by (apply IH; intros; apply H; now right).
  lia.
Qed.
Lemma asum_mono_fn k a b a' b' l :
  (forall m, In m l -> a (m_time m) <= a' (m_time m) /\ b' (m_time m) <= b (m_time m)) ->
  asum k a b l <= asum k a' b' l.
Proof. intros H. apply asum_mono. intros m Hm. destruct (H m Hm). now apply term_mono. Qed.
Lemma asum_ext_fn k a b a' b' l :
  (forall m, In m l -> a (m_time m) = a' (m_time m) /\ b (m_time m) = b' (m_time m)) ->
  asum k a b l = asum k a' b' l.
Proof.
  intros H. apply Z.le_antisymm; apply asum_mono_fn; intros m Hm; destruct (H m Hm); lia.
Qed.
Lemma asum_c0 k l : asum k c0 c0 l = 0.
Proof. induction l as [|m l IH]; cbn [asum]; [reflexivity|]. rewrite term_c0. lia. Qed.
Lemma asum_c1 k l : asum k c1 c1 l = zdelta k l.
Proof. induction l as [|m l IH]; cbn [asum zdelta]; [reflexivity|]. rewrite term_c1. lia. Qed.
Lemma asum_nokey k a b l : existsb (fun m => is_note m && is_key k m) l = false -> asum k a b l = 0.
Proof.
  induction l as [|m l IH]; cbn [existsb asum]; intros H; [reflexivity|].
  apply orb_false_iff in H as [H1 H2]. rewrite (IH H2).
  destruct (is_key k m) eqn:K; [|rewrite term_nokey by exact K; lia].
  rewrite andb_true_r in H1. rewrite term_nonnote by exact H1. lia.
Qed.

Lemma rsum_app k a b x y : forall cur, rsum k a b cur (x ++ y) = rsum k a b cur x + rsum k a b (cur + dur_rel x) y.
Proof.
  induction x as [|m x IH]; intros cur; cbn [app rsum].
  - unfold dur_rel. cbn. now rewrite Z.add_0_r.
  - rewrite C07_proofs.dur_rel_cons. destruct (is_wait m); rewrite IH; [f_equal; f_equal; lia|].
    rewrite Z.add_0_l. lia.
Qed.
Lemma nonneg_cons m r : nonneg_waits (m :: r) = true ->
  (is_wait m = true -> 0 <= m_time m) /\ nonneg_waits r = true /\ 0 <= dur_rel r.
Proof.
  unfold nonneg_waits. cbn [forallb]. intros H. apply andb_true_iff in H as [H1 H2]. split; [|split].
  - intros E. rewrite E in H1. cbn in H1. now apply Z.leb_le.
  - exact H2.
  - now apply dur_rel_nonneg.
Qed.
Lemma rsum_mono_range k a b a' b' r : forall cur, nonneg_waits r = true ->
  (forall c, cur <= c <= cur + dur_rel r -> a c <= a' c /\ b' c <= b c) ->
  rsum k a b cur r <= rsum k a' b' cur r.
Proof.
  induction r as [|m r IH]; intros cur NN H; cbn [rsum]; [lia|].
  apply nonneg_cons in NN as (Wm & NN & D). rewrite C07_proofs.dur_rel_cons in H.
  destruct (is_wait m) eqn:Ew.
  - specialize (Wm eq_refl). apply IH; [exact NN|]. intros c Hc. apply H. lia.
  - assert (term k a b cur m <= term k a' b' cur m) by (apply term_mono; apply H; lia).
    assert (rsum k a b cur r <= rsum k a' b' cur r) by (apply IH; [exact NN|]; intros c Hc; apply H; lia).
    lia.
Qed.
Lemma rsum_ext_range k a b a' b' r cur : nonneg_waits r = true ->
  (forall c, cur <= c <= cur + dur_rel r -> a c = a' c /\ b c = b' c) ->
  rsum k a b cur r = rsum k a' b' cur r.
Proof.
  intros NN H. apply Z.le_antisymm; apply rsum_mono_range; try exact NN; intros c Hc; destruct (H c Hc); lia.
Qed.
Lemma rsum_c0 k r : forall cur, rsum k c0 c0 cur r = 0.
Proof. induction r as [|m r IH]; intros cur; cbn [rsum]; [reflexivity|]. destruct (is_wait m); rewrite IH, ?term_c0; lia. Qed.
Lemma rsum_c1 k r : forall cur, rsum k c1 c1 cur r = zdelta k r.
Proof.
  induction r as [|m r IH]; intros cur; cbn [rsum zdelta]; [reflexivity|].
  destruct (is_wait m) eqn:Ew; rewrite IH, ?term_c1; [|lia].
  assert (is_on m = false) as -> by (by_flags m; congruence).
  assert (is_off m = false) as -> by (by_flags m; congruence). now rewrite !andb_false_r.
Qed.

(* ================================================================ Part 2: the counts through to_abs / to_rel *)
Lemma asum_to_abs_aux k a b r : forall cur f cap, asum k a b (ta_msgs (to_abs_aux r cur f cap)) = rsum k a b cur r.
Proof.
  induction r as [|m r IH]; intros cur f cap; [reflexivity|]. cbn [rsum].
  destruct (is_wait m) eqn:Ew.
  - rewrite to_abs_aux_wait by exact Ew. apply IH.
  - rewrite to_abs_aux_msg by exact Ew. unfold ta_msgs at 1. cbn [fst]. rewrite asum_cons, IH. reflexivity.
Qed.

Lemma asum_to_abs k a b r : asum k a b (to_abs r) = rsum k a b 0 r.
Proof.
  rewrite to_abs_unfold. cbv zeta. rewrite <- (asum_to_abs_aux k a b r 0 false true).
  destruct (ta_cap _).
  - symmetry. apply asum_perm, C04_sort.sort_abs_perm.
  - rewrite <- (asum_perm k a b _ _ (C04_sort.insort_perm _ _)). rewrite asum_cons.
    rewrite term_nonnote by reflexivity. rewrite Z.add_0_l. symmetry. apply asum_perm, C04_sort.sort_abs_perm.
Qed.

Lemma tsorted_next m l : tsorted (m :: l) = true -> forall y, hd_error l = Some y -> m_time m <= m_time y.
Proof.
  intros Hs y Hy. destruct l as [|z l]; [discriminate|]. cbn in Hy. injection Hy as <-.
  rewrite tsorted_cons in Hs. apply andb_prop in Hs. now apply Z.leb_le.
Qed.

Lemma rsum_to_rel_aux k a b l : forall cur f, tsorted l = true ->
  (forall m, hd_error l = Some m -> cur <= m_time m) ->
  rsum k a b cur (to_rel_aux l cur f) = asum k a b l.
Proof.
  induction l as [|m l IH]; intros cur f Hs Hh; [reflexivity|].
  specialize (Hh m eq_refl). pose proof (tsorted_next m l Hs) as Hn. pose proof (tsorted_tail _ _ Hs) as Hs'.
  rewrite to_rel_aux_cons, asum_cons.
  assert (R : forall f', rsum k a b (m_time m) ((if is_internal m then [] else [strip_time m]) ++
                to_rel_aux l (m_time m) f') = term k a b (m_time m) m + asum k a b l).
  { intros f'. destruct (is_internal m) eqn:Ei; cbn [app rsum].
    - rewrite (IH _ _ Hs' Hn). rewrite term_nonnote by (now apply internal_not_note). lia.
    - rewrite is_wait_strip. destruct (is_wait m) eqn:Ew.
      + cbn [strip_time set_time m_time]. rewrite Z.add_0_r, (IH _ _ Hs' Hn).
        rewrite term_nonnote by (now apply wait_not_note). lia.
      + rewrite (IH _ _ Hs' Hn). reflexivity. }
  destruct (cur <? m_time m) eqn:E.
  - cbn [app rsum]. change (is_wait (mk_wait _ _ _)) with true. cbv iota. cbn [mk_wait m_time].
    replace (cur + (m_time m - cur)) with (m_time m) by lia. apply R.
  - apply Z.ltb_ge in E. assert (cur = m_time m) as -> by lia. cbn [app]. apply R.
Qed.

(* non-negative times *)
Definition nnt (l : list msg) : bool := forallb (fun m => 0 <=? m_time m) l.
Lemma nnt_hd l : nnt l = true -> forall m, hd_error l = Some m -> 0 <= m_time m.
Proof.
  intros H m Hm. destruct l as [|x l]; [discriminate|]. cbn in Hm. injection Hm as <-.
  cbn in H. apply andb_true_iff in H as [H _]. now apply Z.leb_le.
Qed.
Lemma nnt_In l : nnt l = true -> forall m, In m l -> 0 <= m_time m.
Proof. unfold nnt. rewrite forallb_forall. intros H m Hm. apply Z.leb_le. now apply H. Qed.

Lemma rsum_to_rel k a b l : tsorted l = true -> nnt l = true -> rsum k a b 0 (to_rel l) = asum k a b l.
Proof. intros Hs Hn. apply rsum_to_rel_aux; [exact Hs|now apply nnt_hd]. Qed.

(* ================================================================ Part 3: list-order predicates through to_rel *)
(* to_rel only inserts WAITs, strips times and drops INTERNAL messages: the list-order depth bookkeeping of C07
   (zdelta, balp, bal, alt_run, alt) is the same on an absolute list and on its relative form *)
Lemma key_on_strip k m : is_key k (strip_time m) && is_on (strip_time m) = is_key k m && is_on m.
Proof. reflexivity. Qed.
Lemma key_off_strip k m : is_key k (strip_time m) && is_off (strip_time m) = is_key k m && is_off m.
Proof. reflexivity. Qed.
Lemma key_on_internal k m : is_internal m = true -> is_key k m && is_on m = false.
Proof. intros H. apply internal_not_note, note_flags in H as [-> _]. apply andb_false_r. Qed.
Lemma key_off_internal k m : is_internal m = true -> is_key k m && is_off m = false.
Proof. intros H. apply internal_not_note, note_flags in H as [_ ->]. apply andb_false_r. Qed.

Lemma zdelta_to_rel_aux k l : forall cur f, zdelta k (to_rel_aux l cur f) = zdelta k l.
Proof.
  induction l as [|m l IH]; intros cur f; [reflexivity|].
  rewrite to_rel_aux_cons, !zdelta_app, IH. cbn [zdelta].
  assert (W : zdelta k (if cur <? m_time m then [mk_wait (m_chan m) (m_time m - cur) (m_tf m || f)] else []) = 0).
  { destruct (cur <? m_time m); [|reflexivity]. cbn [zdelta]. now rewrite !andb_false_r. }
  rewrite W. destruct (is_internal m) eqn:Ei.
  - rewrite (key_on_internal k m Ei), (key_off_internal k m Ei). reflexivity.
  - cbn [zdelta]. rewrite key_on_strip, key_off_strip. lia.
Qed.

Lemma balp_to_rel_aux k l : forall cur f d, balp k d (to_rel_aux l cur f) = balp k d l.
Proof.
  induction l as [|m l IH]; intros cur f d; [reflexivity|].
  rewrite to_rel_aux_cons, !balp_app. cbn [balp].
  assert (W : forall d', balp k d' (if cur <? m_time m then [mk_wait (m_chan m) (m_time m - cur) (m_tf m || f)] else []) = true
              /\ zdelta k (if cur <? m_time m then [mk_wait (m_chan m) (m_time m - cur) (m_tf m || f)] else []) = 0).
  { intros d'. destruct (cur <? m_time m); [|split; reflexivity]. cbn [balp zdelta]. now rewrite !andb_false_r. }
  destruct (W d) as [-> ->]. rewrite Z.add_0_r. cbn [andb].
  destruct (is_internal m) eqn:Ei.
  - rewrite (key_on_internal k m Ei), (key_off_internal k m Ei). cbn [balp zdelta andb]. rewrite Z.add_0_r. apply IH.
  - cbn [balp zdelta]. rewrite key_on_strip, key_off_strip.
    destruct (is_key k m && is_on m); [|destruct (is_key k m && is_off m)]; cbn [andb]; rewrite IH;
      rewrite ?andb_true_r; try reflexivity; do 2 f_equal; lia.
Qed.

Lemma bal_to_rel_aux k l cur f d : bal k d (to_rel_aux l cur f) = bal k d l.
Proof. now rewrite !bal_split, balp_to_rel_aux, zdelta_to_rel_aux. Qed.

Lemma alt_run_to_rel_aux k l : forall cur f o, alt_run k o (to_rel_aux l cur f) = alt_run k o l.
Proof.
  induction l as [|m l IH]; intros cur f o; [reflexivity|].
  rewrite to_rel_aux_cons, !alt_run_app.
  assert (W : alt_run k o (if cur <? m_time m then [mk_wait (m_chan m) (m_time m - cur) (m_tf m || f)] else []) = Some o).
  { destruct (cur <? m_time m); [|reflexivity]. cbn [alt_run]. now rewrite !andb_false_r. }
  rewrite W. cbn [alt_run]. destruct (is_internal m) eqn:Ei.
  - rewrite (key_on_internal k m Ei), (key_off_internal k m Ei). cbn [app alt_run]. apply IH.
  - cbn [app alt_run]. rewrite key_on_strip, key_off_strip.
    destruct (is_key k m && is_on m); [|destruct (is_key k m && is_off m)].
    + destruct o; [reflexivity|apply IH].
    + destruct o; [apply IH|reflexivity].
    + apply IH.
Qed.

Lemma alt_to_rel k l o : alt k o (to_rel l) = alt k o l.
Proof.
  apply eq_true_iff_eq. rewrite !alt_spec. unfold to_rel. now rewrite alt_run_to_rel_aux.
Qed.

(* every key is balanced <-> the boolean check over the keys that occur *)
Lemma balanced_intro l : (forall k, bal k 0 l = true) -> balanced l = true.
Proof. intros H. unfold balanced. apply forallb_forall. intros m _. rewrite H. apply orb_true_r. Qed.

Lemma balanced_to_rel l : balanced l = true -> balanced (to_rel l) = true.
Proof.
  intros B. apply balanced_intro. intros k. unfold to_rel. rewrite bal_to_rel_aux. now apply balanced_all.
Qed.

Lemma nonneg_to_rel l : nonneg_waits (to_rel l) = true.
Proof. apply (to_rel_wfr l). Qed.

(* ================================================================ Part 4: list-order sounding = tick-wise depth *)
Lemma rsum_early k a b r cur : nonneg_waits r = true ->
  (forall c, cur <= c -> a c = 0 /\ b c = 0) -> rsum k a b cur r = 0.
Proof.
  intros NN H. rewrite <- (rsum_c0 k r cur). apply rsum_ext_range; [exact NN|].
  intros c Hc. unfold c0. apply H. lia.
Qed.

Lemma le_t_early t c : t < c -> le_t t c = 0.
Proof. intros H. unfold le_t. destruct (c <=? t) eqn:E; [apply Z.leb_le in E; lia|reflexivity]. Qed.
Lemma le_t_late t c : c <= t -> le_t t c = 1.
Proof. intros H. unfold le_t. destruct (c <=? t) eqn:E; [reflexivity|apply Z.leb_gt in E; lia]. Qed.
Lemma lt_t_early t c : t <= c -> lt_t t c = 0.
Proof. intros H. unfold lt_t. destruct (c <? t) eqn:E; [apply Z.ltb_lt in E; lia|reflexivity]. Qed.
Lemma lt_t_late t c : c < t -> lt_t t c = 1.
Proof. intros H. unfold lt_t. destruct (c <? t) eqn:E; [reflexivity|apply Z.ltb_ge in E; lia]. Qed.
Lemma le_t_range t c : 0 <= le_t t c <= 1.
Proof. unfold le_t. destruct (c <=? t); cbn; lia. Qed.
Lemma lt_t_range t c : 0 <= lt_t t c <= 1.
Proof. unfold lt_t. destruct (c <? t); cbn; lia. Qed.
Lemma lt_le_t t c : lt_t t c <= le_t t c.
Proof.
  unfold lt_t, le_t. destruct (c <? t) eqn:E1, (c <=? t) eqn:E2; cbn; try lia.
Qed.

(* C07's list-order sounding on a relative list with non-negative waits, starting at depth d and clock cur:
   t is inside the list's time span and the depth d + (#on - #off stamped <= t) is positive *)
Lemma snd_rel k t r : forall d cur, nonneg_waits r = true ->
  C07_proofs.sounding k t d cur r = (cur <=? t) && (t <? cur + dur_rel r) && (0 <? d + radepth k t cur r).
Proof.
  unfold radepth. induction r as [|m r IH]; intros d cur NN.
  - cbn [C07_proofs.sounding]. unfold dur_rel. cbn. rewrite Z.add_0_r.
    destruct (cur <=? t) eqn:E1; [apply Z.leb_le in E1|reflexivity].
    destruct (t <? cur) eqn:E2; [apply Z.ltb_lt in E2; lia|reflexivity].
  - apply nonneg_cons in NN as (Wm & NN & D). rewrite C07_proofs.dur_rel_cons. cbn [C07_proofs.sounding rsum].
    destruct (is_wait m) eqn:Ew.
    + specialize (Wm eq_refl). rewrite (IH d (cur + m_time m) NN).
      destruct (t <? cur + m_time m) eqn:E; [apply Z.ltb_lt in E|apply Z.ltb_ge in E].
      * rewrite (rsum_early k (le_t t) (le_t t) r (cur + m_time m) NN)
          by (intros c Hc; split; apply le_t_early; lia).
        rewrite Z.add_0_r.
        destruct (0 <? d), (cur <=? t) eqn:E1, (cur + m_time m <=? t) eqn:E2,
          (t <? cur + (m_time m + dur_rel r)) eqn:E3, (t <? cur + m_time m + dur_rel r) eqn:E4;
          cbn [andb orb]; try reflexivity; exfalso; lia.
      * destruct (0 <? d), (cur <=? t) eqn:E1, (cur + m_time m <=? t) eqn:E2,
          (t <? cur + (m_time m + dur_rel r)) eqn:E3, (t <? cur + m_time m + dur_rel r) eqn:E4;
          cbn [andb orb]; try reflexivity; exfalso; lia.
    + rewrite Z.add_0_l.
      assert (S : C07_proofs.sounding k t (d + term k c1 c1 cur m) cur r =
                  (if is_key k m && is_on m then C07_proofs.sounding k t (d + 1) cur r
                   else if is_key k m && is_off m then C07_proofs.sounding k t (d - 1) cur r
                   else C07_proofs.sounding k t d cur r)).
      { rewrite term_c1. destruct (is_key k m && is_on m); [|destruct (is_key k m && is_off m)];
          f_equal; lia. }
      rewrite <- S, (IH _ cur NN).
      destruct (cur <=? t) eqn:E; [apply Z.leb_le in E|reflexivity]. cbn [andb]. f_equal. f_equal.
      assert (T : term k (le_t t) (le_t t) cur m = term k c1 c1 cur m).
      { unfold term. rewrite (le_t_late t cur E). reflexivity. }
      lia.
Qed.

(* ... from the start (depth 0, clock 0) for a list whose key-k notes are all closed at the end *)
Lemma rel_sound k t r : nonneg_waits r = true -> zdelta k r = 0 ->
  C07_proofs.sounding k t 0 0 r = (0 <? radepth k t 0 r).
Proof.
  intros NN Z. rewrite snd_rel by exact NN. rewrite !Z.add_0_l.
  destruct (0 <=? t) eqn:E1; [apply Z.leb_le in E1|apply Z.leb_gt in E1].
  - destruct (t <? dur_rel r) eqn:E2; [reflexivity|apply Z.ltb_ge in E2]. cbn [andb].
    unfold radepth. rewrite (rsum_ext_range k _ _ c1 c1 r 0 NN), rsum_c1, Z; [reflexivity|].
    intros c Hc. unfold c1. split; apply le_t_late; lia.
  - cbn [andb]. unfold radepth. rewrite rsum_early; [reflexivity|exact NN|].
    intros c Hc. split; apply le_t_early; lia.
Qed.

(* ================================================================ Part 5: from tick-wise counts to list order *)
Lemma sdepth_cons k t m l : sdepth k t (m :: l) = term k (lt_t t) (le_t t) (m_time m) m + sdepth k t l.
Proof. reflexivity. Qed.
Lemma adepth_cons k t m l : adepth k t (m :: l) = term k (le_t t) (le_t t) (m_time m) m + adepth k t l.
Proof. reflexivity. Qed.
Lemma zdelta_cons k m l : zdelta k (m :: l) = term k c1 c1 0 m + zdelta k l.
Proof. rewrite term_c1. reflexivity. Qed.

(* everything in l is at c or later: nothing of l is counted strictly before c *)
Lemma sdepth_le0 k c l : Forall (fun y => c <= m_time y) l -> sdepth k c l <= 0.
Proof.
  intros F. unfold sdepth. rewrite <- (asum_c0 k l). apply asum_mono_fn. intros m Hm.
  rewrite Forall_forall in F. specialize (F m Hm). unfold c0. rewrite lt_t_early by lia.
  pose proof (le_t_range c (m_time m)). lia.
Qed.
Lemma sdepth_before k t c l : Forall (fun y => c <= m_time y) l -> t < c -> sdepth k t l = 0.
Proof.
  intros F Ht. unfold sdepth. rewrite <- (asum_c0 k l). apply asum_ext_fn. intros m Hm.
  rewrite Forall_forall in F. specialize (F m Hm). unfold c0. rewrite lt_t_early, le_t_early by lia. auto.
Qed.
Lemma adepth_before k t c l : Forall (fun y => c <= m_time y) l -> t < c -> adepth k t l = 0.
Proof.
  intros F Ht. unfold adepth. rewrite <- (asum_c0 k l). apply asum_ext_fn. intros m Hm.
  rewrite Forall_forall in F. specialize (F m Hm). unfold c0. rewrite le_t_early by lia. auto.
Qed.

(* G1: in a TIME-sorted list whose strict depth is never negative, no NOTE_OFF of k comes at list-order depth 0.
   (Only the order of the TIMES matters: an on and an off of different notes at one tick may come in either order.) *)
Lemma sd_balp k : forall l d, tsorted l = true -> (forall t, 0 <= d + sdepth k t l) -> balp k d l = true.
Proof.
  induction l as [|m l IH]; intros d TS H; [reflexivity|].
  pose proof (tsorted_head _ _ TS) as F. pose proof (tsorted_tail _ _ TS) as TS'. cbn [balp].
  destruct (is_key k m) eqn:K; cbn [andb].
  - destruct (is_on m) eqn:On; [|destruct (is_off m) eqn:Off].
    + apply IH; [exact TS'|]. intros t. specialize (H t). rewrite sdepth_cons, (term_on _ _ _ _ _ K On) in H.
      pose proof (lt_t_range t (m_time m)). lia.
    + assert (D : 0 < d).
      { specialize (H (m_time m)). rewrite sdepth_cons, (term_off _ _ _ _ _ K Off), le_t_late in H by lia.
        pose proof (sdepth_le0 k (m_time m) l F). lia. }
      apply andb_true_intro. split; [now apply Z.ltb_lt|].
      apply IH; [exact TS'|]. intros t. specialize (H t). rewrite sdepth_cons, (term_off _ _ _ _ _ K Off) in H.
      destruct (Z_lt_ge_dec t (m_time m)) as [L|G].
      * rewrite (sdepth_before k t (m_time m) l F L). lia.
      * rewrite le_t_late in H by lia. lia.
    + apply IH; [exact TS'|]. intros t. specialize (H t). rewrite sdepth_cons in H.
      rewrite term_nonnote in H by (unfold is_note; now rewrite On, Off). lia.
  - apply IH; [exact TS'|]. intros t. specialize (H t). rewrite sdepth_cons, term_nokey in H by exact K. lia.
Qed.

(* strictly alternating per key, in list order: on, strictly later off, on, ... ; o = time of the open NOTE_ON *)
Fixpoint salt (k : k2) (o : option Z) (l : list msg) : bool :=
  match l with
  | [] => match o with None => true | Some _ => false end
  | m :: l' =>
      if is_key k m && is_on m then match o with None => salt k (Some (m_time m)) l' | Some _ => false end
      else if is_key k m && is_off m then match o with Some t0 => (t0 <? m_time m) && salt k None l' | None => false end
      else salt k o l'
  end.
Definition osome (o : option Z) : bool := match o with Some _ => true | None => false end.

Lemma salt_alt k l : forall o, salt k o l = true -> alt k (osome o) l = true.
Proof.
  induction l as [|m l IH]; intros o H; cbn [salt alt] in *.
  - destruct o; [discriminate|reflexivity].
  - destruct (is_key k m && is_on m); [|destruct (is_key k m && is_off m)].
    + destruct o; [discriminate|]. cbn [osome negb andb]. now apply (IH (Some (m_time m))).
    + destruct o as [t0|]; [|discriminate]. apply andb_true_iff in H as [_ H]. cbn [osome andb]. now apply (IH None).
    + now apply IH.
Qed.

(* the open note of the scan state o counts from its own start *)
Definition opn_s (o : option Z) (t : Z) : Z := match o with Some t0 => lt_t t t0 | None => 0 end.

Lemma sortedb_tsorted l : sortedb l = true -> tsorted l = true.
Proof.
  induction l as [|x l IH]; [reflexivity|]. intros H. pose proof (sortedb_tail _ _ H) as H'.
  destruct l as [|y l]; [reflexivity|]. rewrite tsorted_cons, (IH H'), andb_true_r.
  apply Z.leb_le. apply C15_proofs.key_le_time. apply (sortedb_head_le _ _ H). now left.
Qed.

(* after a NOTE_ON of k at tick c in a KEY-sorted list, no NOTE_OFF of k at tick c follows (offs sort first) *)
Lemma adepth_after_on k m l : sortedb (m :: l) = true -> is_key k m = true -> is_on m = true ->
  0 <= adepth k (m_time m) l.
Proof.
  intros S K On. unfold adepth. rewrite <- (asum_c0 k l). apply asum_mono. intros y Hy.
  rewrite term_c0. pose proof (sortedb_head_le _ _ S y Hy) as L.
  unfold term. destruct (is_key k y && is_off y) eqn:E.
  - apply andb_true_iff in E as [Ky Off].
    assert (is_on y = false) as -> by (by_flags y; congruence). rewrite andb_false_r.
    destruct (Z_le_gt_dec (m_time y) (m_time m)) as [Le|Gt]; [|rewrite le_t_early by lia; lia].
    exfalso. apply C15_proofs.key_le_spec in L. apply is_key_eq in K, Ky. rewrite K in Ky. injection Ky as Kc Kn.
    rewrite (on_rank m On), (off_rank y Off) in L. lia.
  - pose proof (le_t_range (m_time m) (m_time y)). destruct (is_key k y && is_on y); lia.
Qed.

(* G2: in a KEY-sorted list (sort_abs) with strict depth >= 0, depth <= 1 and all notes closed, the notes of k
   strictly alternate in list order *)
Lemma sd_salt k : forall l o, sortedb l = true ->
  (forall t, 0 <= opn_s o t + sdepth k t l) -> (forall t, b2z (osome o) + adepth k t l <= 1) ->
  b2z (osome o) + zdelta k l = 0 -> salt k o l = true.
Proof.
  induction l as [|m l IH]; intros o S H1 H2 H3.
  - cbn in H3. destruct o; cbn in *; [lia|reflexivity].
  - pose proof (sortedb_tsorted _ S) as TS. pose proof (tsorted_head _ _ TS) as F.
    pose proof (sortedb_tail _ _ S) as S'. cbn [salt].
    destruct (is_key k m) eqn:K; cbn [andb].
    + destruct (is_on m) eqn:On; [|destruct (is_off m) eqn:Off].
      * (* NOTE_ON: the scan must be closed *)
        assert (O : o = None).
        { destruct o as [t0|]; [|reflexivity]. exfalso. specialize (H2 (m_time m)).
          rewrite adepth_cons, (term_on _ _ _ _ _ K On), le_t_late in H2 by lia.
          pose proof (adepth_after_on k m l S K On). cbn [osome b2z] in H2. lia. }
        subst o. apply IH; [exact S'| | |].
        -- intros t. specialize (H1 t). rewrite sdepth_cons, (term_on _ _ _ _ _ K On) in H1. cbn [opn_s] in *. lia.
        -- intros t. specialize (H2 t). rewrite adepth_cons, (term_on _ _ _ _ _ K On) in H2. cbn [osome b2z] in *.
           destruct (Z_lt_ge_dec t (m_time m)) as [L|G].
           ++ rewrite (adepth_before k t (m_time m) l F L). lia.
           ++ rewrite le_t_late in H2 by lia. lia.
        -- rewrite zdelta_cons, (term_on _ _ _ _ _ K On) in H3. cbn [osome b2z] in *. unfold c1 in H3. lia.
      * (* NOTE_OFF: the scan must be open since a strictly earlier tick *)
        pose proof (H1 (m_time m)) as H1c. rewrite sdepth_cons, (term_off _ _ _ _ _ K Off), le_t_late in H1c by lia.
        pose proof (sdepth_le0 k (m_time m) l F) as Le.
        destruct o as [t0|]; [|cbn [opn_s] in H1c; lia].
        cbn [opn_s] in H1c. pose proof (lt_t_range (m_time m) t0).
        assert (T0 : t0 < m_time m).
        { destruct (Z_lt_ge_dec t0 (m_time m)) as [L|G]; [exact L|]. rewrite lt_t_early in H1c by lia. lia. }
        apply andb_true_intro. split; [now apply Z.ltb_lt|].
        apply IH; [exact S'| | |].
        -- intros t. specialize (H1 t). rewrite sdepth_cons, (term_off _ _ _ _ _ K Off) in H1. cbn [opn_s] in *.
           destruct (Z_lt_ge_dec t (m_time m)) as [L|G].
           ++ rewrite (sdepth_before k t (m_time m) l F L). lia.
           ++ rewrite le_t_late in H1 by lia. pose proof (lt_t_range t t0). lia.
        -- intros t. specialize (H2 t). rewrite adepth_cons, (term_off _ _ _ _ _ K Off) in H2. cbn [osome b2z] in *.
           destruct (Z_lt_ge_dec t (m_time m)) as [L|G].
           ++ rewrite (adepth_before k t (m_time m) l F L). lia.
           ++ rewrite le_t_late in H2 by lia. lia.
        -- rewrite zdelta_cons, (term_off _ _ _ _ _ K Off) in H3. cbn [osome b2z] in *. unfold c1 in H3. lia.
      * assert (N : is_note m = false) by (unfold is_note; now rewrite On, Off).
        apply IH; [exact S'| | |].
        -- intros t. specialize (H1 t). rewrite sdepth_cons, term_nonnote in H1 by exact N. lia.
        -- intros t. specialize (H2 t). rewrite adepth_cons, term_nonnote in H2 by exact N. lia.
        -- rewrite zdelta_cons, term_nonnote in H3 by exact N. lia.
    + apply IH; [exact S'| | |].
      * intros t. specialize (H1 t). rewrite sdepth_cons, term_nokey in H1 by exact K. lia.
      * intros t. specialize (H2 t). rewrite adepth_cons, term_nokey in H2 by exact K. lia.
      * rewrite zdelta_cons, term_nokey in H3 by exact K. lia.
Qed.

(* ---------------------------------------------------------------- boolean hypotheses and what they mean *)
(* sbal: for every key that occurs, the strict depth is >= 0 at every tick that occurs and as many offs as ons.
   Meaning (sbal_spec): every NOTE_OFF closes a note of its key that started at a STRICTLY earlier tick, and every
   note is closed.  It depends only on the multiset of (type, channel, pitch, time): no sortedness is involved. *)
Definition sbal (l : list msg) : bool :=
  forallb (fun m => negb (is_note m) ||
             (forallb (fun m' => 0 <=? sdepth (key_of m) (m_time m') l) l && (zdelta (key_of m) l =? 0))) l.
(* nover: no two notes of one key overlap (depth <= 1 everywhere) *)
Definition nover (l : list msg) : bool :=
  forallb (fun m => negb (is_note m) || forallb (fun m' => adepth (key_of m) (m_time m') l <=? 1) l) l.

Lemma latest_cases t (l : list msg) :
  (forall x, In x l -> t < m_time x) \/
  (exists mx, In mx l /\ m_time mx <= t /\ forall x, In x l -> m_time x <= t -> m_time x <= m_time mx).
Proof.
  destruct (existsb (fun x => m_time x <=? t) l) eqn:E.
  - right. apply existsb_exists in E. destruct (exists_latest (fun x => m_time x <=? t) l E) as (mx & Hin & P & Mx).
    exists mx. split; [exact Hin|]. split; [now apply Z.leb_le|]. intros x Hx Hle. apply Mx; [exact Hx|now apply Z.leb_le].
  - left. intros x Hx. destruct (Z_lt_ge_dec t (m_time x)) as [L|G]; [exact L|].
    assert (existsb (fun x => m_time x <=? t) l = true); [|congruence].
    apply existsb_exists. exists x. split; [exact Hx|]. apply Z.leb_le. lia.
Qed.

Lemma sdepth_ticks k l : (forall m', In m' l -> 0 <= sdepth k (m_time m') l) -> forall t, 0 <= sdepth k t l.
Proof.
  intros H t. destruct (latest_cases t l) as [E|(mx & Hin & Le & Mx)].
  - assert (sdepth k t l = 0) as ->; [|lia]. unfold sdepth. rewrite <- (asum_c0 k l). apply asum_ext_fn.
    intros m Hm. specialize (E m Hm). unfold c0. rewrite lt_t_early, le_t_early by lia. auto.
  - specialize (H mx Hin). assert (sdepth k (m_time mx) l <= sdepth k t l); [|lia].
    apply asum_mono_fn. intros y Hy. split.
    + destruct (Z_lt_ge_dec (m_time y) (m_time mx)) as [L|G].
      * rewrite !lt_t_late by lia. lia.
      * rewrite (lt_t_early (m_time mx)) by lia. apply lt_t_range.
    + destruct (Z_le_gt_dec (m_time y) t) as [L|G].
      * rewrite !le_t_late by (try apply Mx; auto; lia). lia.
      * rewrite (le_t_early t) by lia. apply le_t_range.
Qed.

Lemma adepth_ticks k l : (forall m', In m' l -> adepth k (m_time m') l <= 1) -> forall t, adepth k t l <= 1.
Proof.
  intros H t. destruct (latest_cases t l) as [E|(mx & Hin & Le & Mx)].
  - assert (adepth k t l = 0) as ->; [|lia]. unfold adepth. rewrite <- (asum_c0 k l). apply asum_ext_fn.
    intros m Hm. specialize (E m Hm). unfold c0. rewrite le_t_early by lia. auto.
  - specialize (H mx Hin). assert (adepth k t l = adepth k (m_time mx) l) as ->; [|exact H].
    apply asum_ext_fn. intros y Hy.
    assert (le_t t (m_time y) = le_t (m_time mx) (m_time y)); [|auto].
    destruct (Z_le_gt_dec (m_time y) t) as [L|G].
    + rewrite !le_t_late by (try apply Mx; auto; lia). reflexivity.
    + rewrite !le_t_early by lia. reflexivity.
Qed.

Lemma key_occurs k (l : list msg) :
  existsb (fun m => is_note m && is_key k m) l = true -> exists m, In m l /\ is_note m = true /\ key_of m = k.
Proof.
  intros E. apply existsb_exists in E as (m & Hin & H). apply andb_true_iff in H as [H1 H2].
  exists m. split; [exact Hin|]. split; [exact H1|]. apply is_key_eq in H2. now rewrite H2.
Qed.

Lemma sbal_spec l : sbal l = true -> forall k, (forall t, 0 <= sdepth k t l) /\ zdelta k l = 0.
Proof.
  intros B k. destruct (existsb (fun m => is_note m && is_key k m) l) eqn:E.
  - destruct (key_occurs k l E) as (m & Hin & N & <-).
    unfold sbal in B. rewrite forallb_forall in B. specialize (B m Hin). rewrite N in B. cbn [negb orb] in B.
    apply andb_true_iff in B as [B1 B2]. rewrite forallb_forall in B1. split; [|now apply Z.eqb_eq].
    apply sdepth_ticks. intros m' Hm'. apply Z.leb_le. now apply B1.
  - split; [intros t; unfold sdepth; rewrite asum_nokey by exact E; lia|].
    rewrite <- asum_c1. now apply asum_nokey.
Qed.
Lemma sbal_intro l : (forall k, (forall t, 0 <= sdepth k t l) /\ zdelta k l = 0) -> sbal l = true.
Proof.
  intros H. unfold sbal. apply forallb_forall. intros m _. apply orb_true_iff. right.
  destruct (H (key_of m)) as [H1 H2]. apply andb_true_intro. split; [|now apply Z.eqb_eq].
  apply forallb_forall. intros m' _. apply Z.leb_le. apply H1.
Qed.
Lemma nover_spec l : nover l = true -> forall k t, adepth k t l <= 1.
Proof.
  intros B k. destruct (existsb (fun m => is_note m && is_key k m) l) eqn:E.
  - destruct (key_occurs k l E) as (m & Hin & N & <-).
    unfold nover in B. rewrite forallb_forall in B. specialize (B m Hin). rewrite N in B. cbn [negb orb] in B.
    rewrite forallb_forall in B. apply adepth_ticks. intros m' Hm'. apply Z.leb_le. now apply B.
  - intros t. unfold adepth. rewrite asum_nokey by exact E. lia.
Qed.
Lemma nover_intro l : (forall k t, adepth k t l <= 1) -> nover l = true.
Proof.
  intros H. unfold nover. apply forallb_forall. intros m _. apply orb_true_iff. right.
  apply forallb_forall. intros m' _. apply Z.leb_le. apply H.
Qed.

Lemma sbal_perm l l' : Permutation l l' -> sbal l = true -> sbal l' = true.
Proof.
  intros P B. apply sbal_intro. intros k. destruct (sbal_spec l B k) as [H1 H2]. split.
  - intros t. unfold sdepth. rewrite <- (asum_perm k _ _ l l' P). apply H1.
  - rewrite <- asum_c1, <- (asum_perm k _ _ l l' P), asum_c1. exact H2.
Qed.
Lemma nover_perm l l' : Permutation l l' -> nover l = true -> nover l' = true.
Proof.
  intros P B. apply nover_intro. intros k t. unfold adepth. rewrite <- (asum_perm k _ _ l l' P).
  now apply nover_spec.
Qed.
Lemma nnt_perm l l' : Permutation l l' -> nnt l = true -> nnt l' = true.
Proof.
  unfold nnt. rewrite !forallb_forall. intros P H m Hm. apply H. eapply Permutation_in; [symmetry|]; eassumption.
Qed.

(* a time-sorted list with sbal is balanced in list order (G1) *)
Lemma sbal_balanced l : tsorted l = true -> sbal l = true -> balanced l = true.
Proof.
  intros TS B. apply balanced_intro. intros k. destruct (sbal_spec l B k) as [H1 H2].
  rewrite bal_split, H2. rewrite sd_balp; [reflexivity|exact TS|]. intros t. specialize (H1 t). lia.
Qed.

(* swf: per key the notes strictly alternate in list order (on, strictly later off, on, ...) *)
Definition swf (l : list msg) : bool := forallb (fun m => negb (is_note m) || salt (key_of m) None l) l.

Lemma salt_nokey k l : existsb (fun m => is_note m && is_key k m) l = false -> forall o, salt k o l = negb (osome o).
Proof.
  induction l as [|m l IH]; cbn [existsb salt]; intros H o; [destruct o; reflexivity|].
  apply orb_false_iff in H as [H1 H2].
  assert (C1 : is_key k m && is_on m = false).
  { destruct (is_key k m); [|reflexivity]. rewrite andb_true_r in H1. now apply note_flags in H1 as [-> _]. }
  assert (C2 : is_key k m && is_off m = false).
  { destruct (is_key k m); [|reflexivity]. rewrite andb_true_r in H1. now apply note_flags in H1 as [_ ->]. }
  rewrite C1, C2. now apply IH.
Qed.
Lemma swf_spec l : swf l = true -> forall k, salt k None l = true.
Proof.
  intros B k. destruct (existsb (fun m => is_note m && is_key k m) l) eqn:E.
  - destruct (key_occurs k l E) as (m & Hin & N & <-).
    unfold swf in B. rewrite forallb_forall in B. specialize (B m Hin). now rewrite N in B.
  - now rewrite salt_nokey.
Qed.
Lemma swf_intro l : (forall k, salt k None l = true) -> swf l = true.
Proof. intros H. unfold swf. apply forallb_forall. intros m _. rewrite H. apply orb_true_r. Qed.

Lemma salt_counts k : forall l o, tsorted l = true -> salt k o l = true ->
  (forall t, 0 <= opn_s o t + sdepth k t l) /\ (forall t, b2z (osome o) + adepth k t l <= 1) /\
  b2z (osome o) + zdelta k l = 0.
Proof.
  induction l as [|m l IH]; intros o TS H.
  - cbn [salt] in H. destruct o; [discriminate|]. cbn. repeat split; intros; lia.
  - pose proof (tsorted_head _ _ TS) as F. pose proof (tsorted_tail _ _ TS) as TS'. cbn [salt] in H.
    destruct (is_key k m) eqn:K; cbn [andb] in H.
    + destruct (is_on m) eqn:On; [|destruct (is_off m) eqn:Off].
      * destruct o; [discriminate|]. destruct (IH _ TS' H) as (I1 & I2 & I3). cbn [opn_s osome b2z] in *.
        split; [|split].
        -- intros t. rewrite sdepth_cons, (term_on _ _ _ _ _ K On). specialize (I1 t). lia.
        -- intros t. rewrite adepth_cons, (term_on _ _ _ _ _ K On). specialize (I2 t).
           pose proof (le_t_range t (m_time m)). lia.
        -- rewrite zdelta_cons, (term_on _ _ _ _ _ K On). unfold c1. lia.
      * destruct o as [t0|]; [|discriminate]. apply andb_true_iff in H as [T0 H]. apply Z.ltb_lt in T0.
        destruct (IH _ TS' H) as (I1 & I2 & I3). cbn [opn_s osome b2z] in *. split; [|split].
        -- intros t. rewrite sdepth_cons, (term_off _ _ _ _ _ K Off). specialize (I1 t).
           destruct (Z_le_gt_dec (m_time m) t) as [L|G].
           ++ rewrite lt_t_late by lia. pose proof (le_t_range t (m_time m)). lia.
           ++ rewrite le_t_early by lia. pose proof (lt_t_range t t0). lia.
        -- intros t. rewrite adepth_cons, (term_off _ _ _ _ _ K Off). specialize (I2 t).
           destruct (Z_le_gt_dec (m_time m) t) as [L|G].
           ++ rewrite le_t_late by lia. lia.
           ++ rewrite (adepth_before k t (m_time m) l F) by lia. pose proof (le_t_range t (m_time m)). lia.
        -- rewrite zdelta_cons, (term_off _ _ _ _ _ K Off). unfold c1. lia.
      * assert (N : is_note m = false) by (unfold is_note; now rewrite On, Off).
        destruct (IH _ TS' H) as (I1 & I2 & I3). split; [|split].
        -- intros t. rewrite sdepth_cons, term_nonnote by exact N. apply I1.
        -- intros t. rewrite adepth_cons, term_nonnote by exact N. apply I2.
        -- rewrite zdelta_cons, term_nonnote by exact N. exact I3.
    + destruct (IH _ TS' H) as (I1 & I2 & I3). split; [|split].
      * intros t. rewrite sdepth_cons, term_nokey by exact K. apply I1.
      * intros t. rewrite adepth_cons, term_nokey by exact K. apply I2.
      * rewrite zdelta_cons, term_nokey by exact K. exact I3.
Qed.

(* a time-sorted strictly alternating list has no zero-length notes and no overlaps ... *)
Lemma swf_sbal_nover l : tsorted l = true -> swf l = true -> sbal l = true /\ nover l = true.
Proof.
  intros TS W. split.
  - apply sbal_intro. intros k. destruct (salt_counts k l None TS (swf_spec l W k)) as (I1 & _ & I3).
    cbn [opn_s osome b2z] in *. split; [intros t; specialize (I1 t); lia|lia].
  - apply nover_intro. intros k t. destruct (salt_counts k l None TS (swf_spec l W k)) as (_ & I2 & _).
    cbn [osome b2z] in *. specialize (I2 t). lia.
Qed.
(* ... and conversely, for KEY-sorted lists (G2) *)
Lemma sorted_swf l : sortedb l = true -> sbal l = true -> nover l = true -> swf l = true.
Proof.
  intros S B N. apply swf_intro. intros k. destruct (sbal_spec l B k) as [H1 H2].
  apply sd_salt; [exact S| | |]; cbn [opn_s osome b2z].
  - intros t. specialize (H1 t). lia.
  - intros t. pose proof (nover_spec l N k t). lia.
  - lia.
Qed.
Lemma swf_alt l : swf l = true -> forall k, alt k false l = true.
Proof. intros W k. apply (salt_alt k l None). now apply swf_spec. Qed.

(* ================================================================ Part 6: normalise keeps the strict depth >= 0 *)
(* normalise fuses overlapping notes of one key: it keeps the NOTE_ON that takes the list-order depth from 0 to 1 and
   the NOTE_OFF that takes it back to 0.  Invariant of the loop: for every tick t,
       min 1 (strict depth of the input read so far) <= strict depth of the output written so far.
   Consequence: an input without zero-length notes yields an output without zero-length notes. *)
Lemma rsum_pend k a b c s ch : rsum k a b c (pend s ch) = 0.
Proof. unfold pend. destruct (0 <? n_wait s); reflexivity. Qed.

Lemma rsum_one k a b c m : rsum k a b c [m] = if is_wait m then 0 else term k a b c m.
Proof. cbn [rsum]. destruct (is_wait m); lia. Qed.

(* all ticks later than the list's end: the count is the net list-order change *)
Lemma rsdepth_late k t r : nonneg_waits r = true -> dur_rel r < t -> rsdepth k t 0 r = zdelta k r.
Proof.
  intros NN H. unfold rsdepth. rewrite <- (rsum_c1 k r 0). apply rsum_ext_range; [exact NN|].
  intros c Hc. unfold c1. rewrite lt_t_late, le_t_late by lia. auto.
Qed.
(* from the list's end on, the strict depth is at most the net change *)
Lemma rsdepth_le_zdelta k t r : nonneg_waits r = true -> dur_rel r <= t -> rsdepth k t 0 r <= zdelta k r.
Proof.
  intros NN H. unfold rsdepth. rewrite <- (rsum_c1 k r 0). apply rsum_mono_range; [exact NN|].
  intros c Hc. unfold c1. rewrite le_t_late by lia. pose proof (lt_t_range t c). lia.
Qed.

Definition rs_R (k : k2) (s : nstate) (p : list msg) : Prop :=
  s = fold_left nstep p init /\
  (nonneg_waits p = true -> balp k 0 p = true ->
   forall t, Z.min 1 (rsdepth k t 0 p) <= rsdepth k t 0 (n_out s)).

Lemma rs_inv k l : rs_R k (fold_left nstep l init) l.
Proof.
  apply (fold_inv (rs_R k)).
  - split; [reflexivity|]. intros _ _ t. cbn. lia.
  - intros s p m [Hs IH]. split; [rewrite fold_left_app; cbn [fold_left]; now rewrite <- Hs|].
    intros NN B t. rewrite nonneg_app in NN. apply andb_true_iff in NN as [NNp NNm].
    rewrite balp_app in B. apply andb_true_iff in B as [Bp Bm]. rewrite Z.add_0_l in Bm.
    pose proof (snd_inv k t p NNp Bp) as ([D W] & [ND A] & DP & _). rewrite <- Hs in D, W, ND, A, DP.
    specialize (A k). specialize (IH NNp Bp t).
    assert (NNo : nonneg_waits (n_out s) = true) by (rewrite Hs; apply nonneg_out).
    unfold rsdepth at 1. rewrite rsum_app, rsum_one, Z.add_0_l. fold (rsdepth k t 0 p).
    rewrite nstep_out.
    destruct (is_wait m) eqn:Ew.
    { assert (E : emit s m = false) by (unfold emit; now rewrite Ew). rewrite E. lia. }
    set (T := term k (lt_t t) (le_t t) (dur_rel p) m).
    assert (OUT : emit s m = true ->
                  rsdepth k t 0 (n_out s ++ pend s (m_chan m) ++ [m]) = rsdepth k t 0 (n_out s) + T).
    { intros _. unfold rsdepth. rewrite !rsum_app, rsum_pend, rsum_one, Ew, dur_rel_pend by exact W.
      replace (0 + dur_rel (n_out s) + n_wait s) with (dur_rel p) by lia. fold T. lia. }
    destruct (is_key k m) eqn:K.
    2:{ assert (T = 0) as T0 by (apply term_nokey; exact K).
        destruct (emit s m) eqn:E; [rewrite (OUT eq_refl)|]; lia. }
    assert (Kk : k = key_of m) by (apply is_key_eq in K; exact K).
    destruct (is_on m) eqn:On; [|destruct (is_off m) eqn:Off].
    + (* NOTE_ON *)
      assert (T1 : T = lt_t t (dur_rel p)) by (apply term_on; assumption).
      pose proof (lt_t_range t (dur_rel p)) as R.
      assert (E : emit s m = Nat.eqb (depth k (n_open s)) 0).
      { unfold emit. rewrite Ew, On, Kk. reflexivity. }
      destruct (emit s m) eqn:E'; [rewrite (OUT eq_refl); lia|].
      destruct (Z_lt_ge_dec (dur_rel p) t) as [L|G]; [|rewrite lt_t_early in T1 by lia; lia].
      (* not emitted: a note of k is open in the output, and t is later than everything written *)
      assert (O : is_open k (n_open s) = true).
      { unfold is_open. rewrite <- E. reflexivity. }
      pose proof (alt_run_zdelta _ _ _ _ A) as Zd. rewrite O in Zd. cbn [b2z] in Zd.
      rewrite (rsdepth_late k t (n_out s) NNo) by lia. lia.
    + (* NOTE_OFF *)
      assert (T1 : T = - le_t t (dur_rel p)) by (apply term_off; assumption).
      pose proof (le_t_range t (dur_rel p)) as R.
      assert (E : emit s m = Nat.eqb (depth k (n_open s)) 1).
      { unfold emit. rewrite Ew, Off, Kk. assert (is_on m = false) as -> by exact On. reflexivity. }
      destruct (emit s m) eqn:E'; [rewrite (OUT eq_refl)|lia].
      symmetry in E. apply Nat.eqb_eq in E. rewrite E in DP.
      destruct (Z_le_gt_dec (dur_rel p) t) as [L|G]; [|rewrite le_t_early in T1 by lia; lia].
      pose proof (rsdepth_le_zdelta k t p NNp L). lia.
    + assert (T = 0) as T0 by (apply term_nonnote; unfold is_note; now rewrite On, Off).
      destruct (emit s m) eqn:E; [rewrite (OUT eq_refl)|]; lia.
Qed.

(* on balanced input the final cleanup removes nothing *)
Lemma normalise_balanced_eq l : nonneg_waits l = true -> balanced l = true ->
  normalise l = n_out (fold_left nstep l init) ++ pend (fold_left nstep l init) (first_chan l).
Proof.
  intros NN B. pose proof (balanced_all l B) as BA.
  assert (BP : forall k', balp k' 0 l = true /\ zdelta k' l = 0).
  { intros k'. specialize (BA k'). rewrite bal_split in BA. apply andb_true_iff in BA as [B1 B2].
    apply Z.eqb_eq in B2. split; [exact B1 | lia]. }
  rewrite normalise_eq.
  destruct (snd_inv (0, 0) 0 l NN (proj1 (BP (0, 0)))) as (_ & [ND _] & _).
  apply cleanup_closed; [exact ND|].
  intros k'. destruct (snd_inv k' 0 l NN (proj1 (BP k'))) as (_ & _ & DP' & _).
  rewrite (proj2 (BP k')) in DP'. lia.
Qed.

Lemma normalise_rs l k t : nonneg_waits l = true -> balanced l = true ->
  Z.min 1 (rsdepth k t 0 l) <= rsdepth k t 0 (normalise l).
Proof.
  intros NN B. rewrite (normalise_balanced_eq l NN B).
  destruct (rs_inv k l) as [_ H].
  assert (Bp : balp k 0 l = true).
  { pose proof (balanced_all l B k) as BA. rewrite bal_split in BA. now apply andb_true_iff in BA as [BA _]. }
  specialize (H NN Bp t). unfold rsdepth at 2. rewrite rsum_app, rsum_pend. fold (rsdepth k t 0 (n_out (fold_left nstep l init))).
  lia.
Qed.

Lemma zdelta_normalise l k : zdelta k (normalise l) = 0.
Proof.
  pose proof (C07_alternate l k) as A. apply alt_spec in A. apply alt_run_zdelta in A. cbn [b2z] in A. lia.
Qed.

(* ================================================================ Part 7: the counts are C15's tick-wise notions *)
Lemma cnt_cons on k t m l : cnt on k t (m :: l) = b2z (hits on k t m) + cnt on k t l.
Proof. unfold cnt. cbn [filter]. destruct (hits on k t m); cbn [length b2z]; lia. Qed.

Lemma adepth_depth_at k t l : adepth k t l = depth_at k t l.
Proof.
  induction l as [|m l IH]; [reflexivity|]. rewrite adepth_cons, IH. unfold depth_at. rewrite !cnt_cons.
  assert (T : term k (le_t t) (le_t t) (m_time m) m = b2z (hits true k t m) - b2z (hits false k t m)); [|lia].
  unfold term, hits, le_t. fold (is_key k m). by_flags m; destruct (is_key k m), (m_time m <=? t); reflexivity.
Qed.

Lemma sounding_adepth k t l : C15_proofs.sounding k t l = (0 <? adepth k t l).
Proof. unfold C15_proofs.sounding. now rewrite adepth_depth_at. Qed.

Lemma sdepth_le_adepth k t l : sdepth k t l <= adepth k t l.
Proof. apply asum_mono_fn. intros m _. split; [apply lt_le_t|lia]. Qed.

Lemma zdelta_of_balanced l : balanced l = true -> forall k, zdelta k l = 0.
Proof.
  intros B k. pose proof (balanced_all l B k) as BA. rewrite bal_split in BA. apply andb_true_iff in BA as [_ BA].
  apply Z.eqb_eq in BA. lia.
Qed.

(* ================================================================ Part 8: the glue theorems *)
(* (a) absolute -> relative.  For a time-sorted absolute list with non-negative times that is balanced in list
   order (C07's `balanced`; by sbal_balanced this follows from sbal), the relative form is balanced, has
   non-negative waits, and its list-order sounding is the tick-wise sounding of the absolute list. *)
Theorem glue_to_rel a : tsorted a = true -> nnt a = true -> balanced a = true ->
  nonneg_waits (to_rel a) = true /\ balanced (to_rel a) = true /\
  forall k t, C07_proofs.sounding k t 0 0 (to_rel a) = C15_proofs.sounding k t a.
Proof.
  intros TS NT B. split; [apply nonneg_to_rel|]. split; [now apply balanced_to_rel|]. intros k t.
  rewrite rel_sound; [|apply nonneg_to_rel|unfold to_rel; rewrite zdelta_to_rel_aux; now apply zdelta_of_balanced].
  unfold radepth. rewrite rsum_to_rel by assumption. symmetry. apply sounding_adepth.
Qed.

(* (b) ... through normalise (C07_sound), whose output alternates per key *)
Theorem glue_normalise a : tsorted a = true -> nnt a = true -> balanced a = true ->
  nonneg_waits (normalise (to_rel a)) = true /\ (forall k, alt k false (normalise (to_rel a)) = true) /\
  forall k t, C07_proofs.sounding k t 0 0 (normalise (to_rel a)) = C15_proofs.sounding k t a.
Proof.
  intros TS NT B. destruct (glue_to_rel a TS NT B) as (NN & BR & S).
  split; [apply nonneg_normalise|]. split; [intros k; apply C07_alternate|].
  intros k t. rewrite C07_sound by assumption. apply S.
Qed.

(* relative -> absolute, for any relative list with non-negative waits whose notes of k are all closed *)
Theorem glue_to_abs r k t : nonneg_waits r = true -> zdelta k r = 0 ->
  C15_proofs.sounding k t (to_abs r) = C07_proofs.sounding k t 0 0 r.
Proof.
  intros NN Z. rewrite sounding_adepth, rel_sound by assumption. unfold adepth, radepth. now rewrite asum_to_abs.
Qed.

(* (c) ... and back to an absolute list: same tick-wise sounding set *)
Theorem glue_round a : tsorted a = true -> nnt a = true -> balanced a = true ->
  forall k t, C15_proofs.sounding k t (to_abs (normalise (to_rel a))) = C15_proofs.sounding k t a.
Proof.
  intros TS NT B k t. destruct (glue_normalise a TS NT B) as (NN & _ & S).
  rewrite glue_to_abs; [apply S|exact NN|apply zdelta_normalise].
Qed.

(* an alternating relative list never has two notes of one key open *)
Lemma alt_radepth k t r : forall o b cur, nonneg_waits r = true -> alt_run k o r = Some b ->
  b2z o + radepth k t cur r <= 1.
Proof.
  unfold radepth. induction r as [|m r IH]; intros o b cur NN A.
  - cbn [rsum]. destruct o; cbn; lia.
  - apply nonneg_cons in NN as (Wm & NN & D). cbn [alt_run rsum] in *.
    destruct (is_wait m) eqn:Ew.
    + assert (is_on m = false) as On by (by_flags m; congruence).
      assert (is_off m = false) as Off by (by_flags m; congruence).
      rewrite On, Off, !andb_false_r in A. now apply (IH o b).
    + destruct (is_key k m) eqn:K; cbn [andb] in A.
      * destruct (is_on m) eqn:On; [|destruct (is_off m) eqn:Off].
        -- destruct o; [discriminate|]. rewrite (term_on _ _ _ _ _ K On).
           specialize (IH true b cur NN A). pose proof (le_t_range t cur). cbn [b2z] in *. lia.
        -- destruct o; [|discriminate]. rewrite (term_off _ _ _ _ _ K Off).
           specialize (IH false b cur NN A). cbn [b2z] in *.
           destruct (Z_le_gt_dec cur t) as [L|G]; [rewrite le_t_late by lia; lia|].
           rewrite (rsum_early k (le_t t) (le_t t) r cur NN) by (intros c Hc; split; apply le_t_early; lia).
           pose proof (le_t_range t cur). lia.
        -- rewrite term_nonnote by (unfold is_note; now rewrite On, Off). specialize (IH o b cur NN A). lia.
      * rewrite term_nokey by exact K. specialize (IH o b cur NN A). lia.
Qed.

Lemma salt_insort k x : is_note x = false -> forall l o, salt k o (insort x l) = salt k o l.
Proof.
  intros N. apply note_flags in N as [On Off].
  assert (X : forall l o, salt k o (x :: l) = salt k o l).
  { intros l o. cbn [salt]. now rewrite On, Off, !andb_false_r. }
  induction l as [|y l IH]; intros o; cbn [insort]; [apply X|].
  destruct (m_time x <? m_time y); [apply X|]. cbn [salt].
  destruct (is_key k y && is_on y); [|destruct (is_key k y && is_off y)].
  - destruct o; [reflexivity|apply IH].
  - destruct o; [|reflexivity]. now rewrite IH.
  - apply IH.
Qed.

(* the absolute view of a relative list that alternates per key without zero-length notes is time-sorted,
   non-negative, strictly alternating per key in list order, hence sbal and without overlaps *)
Lemma to_abs_wf r : nonneg_waits r = true -> (forall k, alt k false r = true) ->
  (forall k t, 0 <= rsdepth k t 0 r) ->
  tsorted (to_abs r) = true /\ nnt (to_abs r) = true /\ swf (to_abs r) = true /\
  sbal (to_abs r) = true /\ nover (to_abs r) = true.
Proof.
  intros NN A S.
  assert (Z : forall k, zdelta k r = 0).
  { intros k. specialize (A k). apply alt_spec in A. apply alt_run_zdelta in A. cbn [b2z] in A. lia. }
  assert (SB : sbal (to_abs r) = true).
  { apply sbal_intro. intros k. split.
    - intros t. unfold sdepth. rewrite asum_to_abs. apply S.
    - rewrite <- asum_c1, asum_to_abs, rsum_c1. apply Z. }
  assert (NO : nover (to_abs r) = true).
  { apply nover_intro. intros k t. unfold adepth. rewrite asum_to_abs.
    specialize (A k). apply alt_spec in A. pose proof (alt_radepth k t r false false 0 NN A) as H. cbn [b2z] in H.
    unfold radepth in H. lia. }
  split; [apply to_abs_tsorted|]. split; [|split; [|split; assumption]].
  - pose proof (to_abs_wfa r NN) as W. apply wfa_Forall in W. rewrite Forall_forall in W.
    unfold nnt. apply forallb_forall. intros m Hm. apply Z.leb_le. now apply W.
  - (* strict alternation: sort_abs part by G2, the INTERNAL cap is not a note *)
    apply swf_intro. intros k. revert SB NO. rewrite to_abs_unfold. cbv zeta.
    destruct (ta_cap (to_abs_aux r 0 false true)); intros SB NO.
    + apply (swf_spec _ (sorted_swf _ (sort_abs_sorted _) SB NO)).
    + rewrite salt_insort by reflexivity.
      set (c := mk_internal (first_chan r) (ta_clock (to_abs_aux r 0 false true))) in *.
      set (S' := sort_abs (ta_msgs (to_abs_aux r 0 false true))) in *.
      assert (P : Permutation (insort c S') (c :: S')) by (symmetry; apply C04_sort.insort_perm).
      assert (E : forall k' a b, asum k' a b (insort c S') = asum k' a b S').
      { intros k' a b. rewrite (asum_perm _ _ _ _ _ P), asum_cons. rewrite term_nonnote by reflexivity. lia. }
      apply swf_spec. apply sorted_swf; [apply sort_abs_sorted| |].
      * apply sbal_intro. intros k'. destruct (sbal_spec _ SB k') as [H1 H2]. split.
        -- intros t. unfold sdepth. rewrite <- E. apply H1.
        -- rewrite <- asum_c1, <- E, asum_c1. exact H2.
      * apply nover_intro. intros k' t. unfold adepth. rewrite <- E. now apply nover_spec.
Qed.

(* (c, continued) the normalised absolute view of an absolute list without zero-length notes (sbal) is again
   time-sorted, non-negative, sbal, and now strictly alternating (overlapping notes have been fused) *)
Theorem glue_round_wf a : tsorted a = true -> nnt a = true -> sbal a = true ->
  let x := to_abs (normalise (to_rel a)) in
  tsorted x = true /\ nnt x = true /\ swf x = true /\ sbal x = true /\ nover x = true /\
  forall k t, C15_proofs.sounding k t x = C15_proofs.sounding k t a.
Proof.
  intros TS NT SB x. pose proof (sbal_balanced a TS SB) as B.
  destruct (glue_to_rel a TS NT B) as (NN & BR & _).
  destruct (to_abs_wf (normalise (to_rel a))) as (H1 & H2 & H3 & H4 & H5).
  - apply nonneg_normalise.
  - intros k. apply C07_alternate.
  - intros k t. pose proof (normalise_rs (to_rel a) k t NN BR) as H.
    unfold rsdepth at 1 in H. rewrite rsum_to_rel in H by assumption.
    destruct (sbal_spec a SB k) as [S1 _]. specialize (S1 t). unfold sdepth in S1. lia.
  - repeat split; try assumption. apply glue_round; assumption.
Qed.

(* ================================================================ non-vacuity and necessity *)
Module Ex.
  Definition on c n v t := mk_on c n v t false.
  Definition of c n t := mk_off c n t false.
  (* two overlapping notes of one key, an abutting pair, another channel, a signature *)
  Definition a1 : list msg :=
    [on 0 60 64 0; mk_ts 0 3 4 0 false; on 1 60 50 2; on 0 60 70 3; of 0 60 6; of 1 60 6; on 1 60 51 6; of 0 60 10; of 1 60 12].
  Definition ticks : list Z := [-1;0;1;2;3;4;5;6;7;8;9;10;11;12;13].
End Ex.

Example glue_nonvacuous :
  tsorted Ex.a1 = true /\ nnt Ex.a1 = true /\ sbal Ex.a1 = true /\ balanced Ex.a1 = true /\ swf Ex.a1 = false /\
  map (fun t => C15_proofs.sounding (0, 60) t Ex.a1) Ex.ticks =
    [false; true; true; true; true; true; true; true; true; true; true; false; false; false; false] /\
  map (fun t => C15_proofs.sounding (0, 60) t (to_abs (normalise (to_rel Ex.a1)))) Ex.ticks =
    [false; true; true; true; true; true; true; true; true; true; true; false; false; false; false] /\
  swf (to_abs (normalise (to_rel Ex.a1))) = true.
Proof. vm_compute. repeat split; reflexivity. Qed.

(* necessity of "no zero-length note": the sort puts the NOTE_OFF of a zero-length note before its NOTE_ON, the
   list is no longer balanced in list order, and normalise (which drops the orphan off and later removes the
   unclosed on) silences a REAL note of the same key that starts at the same tick *)
Example glue_zero_length_breaks :
  let a := sort_abs [Ex.on 0 60 64 5; Ex.of 0 60 5; Ex.on 0 60 70 5; Ex.of 0 60 10] in
  tsorted a = true /\ nnt a = true /\ sbal a = false /\ balanced a = false /\
  C15_proofs.sounding (0, 60) 7 a = true /\ C15_proofs.sounding (0, 60) 7 (to_abs (normalise (to_rel a))) = false.
Proof. vm_compute. repeat split; reflexivity. Qed.

(* ================================================================ Part 9: exact notes (no fusing needed) *)
(* the note messages of a relative list with their ticks *)
Definition nt (x : Z * msg) : bool := is_note (snd x).
Definition ntimed (cur : Z) (l : list msg) : list (Z * msg) := filter nt (timed cur l).

Lemma note_not_wait m : is_note m = true -> is_wait m = false.
Proof. unfold is_note. by_flags m; cbn; congruence. Qed.
Lemma note_not_ts m : is_note m = true -> is_ts m = false.
Proof. unfold is_note. by_flags m; cbn; congruence. Qed.
Lemma note_not_ks m : is_note m = true -> is_ks m = false.
Proof. unfold is_note. by_flags m; cbn; congruence. Qed.

(* normalising a list whose notes alternate per key keeps every NOTE message at its tick -- whatever the signatures
   are (normalise_wellformed of C07 also needs the signatures to be non-repeating) *)
Definition note_R (s : nstate) (p : list msg) : Prop :=
  (forall k, alt_run k false p <> None) -> nonneg_waits p = true ->
  ntimed 0 (n_out s) = ntimed 0 p /\
  (dur_rel (n_out s) + n_wait s = dur_rel p /\ 0 <= n_wait s) /\
  (forall k, alt_run k false p = Some (is_open k (n_open s)) /\ (depth k (n_open s) <= 1)%nat).

Lemma note_inv l : note_R (fold_left nstep l init) l.
Proof.
  apply (fold_inv note_R).
  - intros _ _. repeat split; try reflexivity. cbn. lia.
  - intros s p m IH OK NN.
    assert (OKp : forall k, alt_run k false p <> None).
    { intros k H. apply (OK k). now rewrite alt_run_app, H. }
    rewrite nonneg_app in NN. apply andb_true_iff in NN as [NNp NNm].
    destruct (IH OKp NNp) as (TM & [D W] & I). clear IH.
    pose proof (nonneg_one m NNm) as NN1.
    split; [|split; [apply dur_step; auto | now apply tight_step]].
    unfold ntimed in *. rewrite nstep_out, (timed_app p [m]), Z.add_0_l, filter_app, <- TM. cbn [timed].
    destruct (is_wait m) eqn:Ew.
    + assert (E : emit s m = false) by (unfold emit; now rewrite Ew). rewrite E. cbn [filter]. now rewrite app_nil_r.
    + cbn [filter]. unfold nt at 3. cbn [snd]. destruct (is_note m) eqn:N.
      * destruct (I (key_of m)) as [A L].
        assert (E : emit s m = true).
        { apply (emit_nice s p m Ew (OK (key_of m)) A L); cbn [ts_ok ks_ok].
          - now rewrite (note_not_ts m N).
          - now rewrite (note_not_ks m N). }
        rewrite E, !timed_app, timed_pend, Z.add_0_l. cbn [app timed]. rewrite Ew.
        rewrite dur_rel_pend by exact W. rewrite D, filter_app. cbn [filter]. unfold nt at 2. cbn [snd]. now rewrite N.
      * rewrite app_nil_r. destruct (emit s m) eqn:E; [|reflexivity].
        rewrite !timed_app, timed_pend, Z.add_0_l. cbn [app timed]. rewrite Ew, filter_app. cbn [filter].
        unfold nt at 2. cbn [snd]. now rewrite N, app_nil_r.
Qed.

Theorem normalise_notes o : (forall k, alt k false o = true) -> nonneg_waits o = true ->
  ntimed 0 (normalise o) = ntimed 0 o.
Proof.
  intros AL NN.
  assert (A0 : forall k, alt_run k false o = Some false) by (intros k; now apply alt_spec).
  assert (OK : forall k, alt_run k false o <> None) by (intros k; now rewrite A0).
  destruct (note_inv o OK NN) as (TM & [D W] & I).
  destruct (alt_inv o) as [ND _]. cbv zeta in ND.
  rewrite normalise_eq, cleanup_closed; [|exact ND|].
  - unfold ntimed in *. now rewrite timed_app, timed_pend, app_nil_r.
  - intros k. destruct (I k) as [A _]. rewrite A0 in A. injection A as A. unfold is_open in A.
    destruct (depth k (n_open (fold_left nstep o init))); [reflexivity | discriminate].
Qed.

(* the weighted counts of a relative list are determined by its timed note messages *)
Fixpoint esum (k : k2) (a b : Z -> Z) (evs : list (Z * msg)) : Z :=
  match evs with [] => 0 | e :: evs' => term k a b (fst e) (snd e) + esum k a b evs' end.
Lemma rsum_ntimed k a b r : forall cur, rsum k a b cur r = esum k a b (ntimed cur r).
Proof.
  unfold ntimed. induction r as [|m r IH]; intros cur; [reflexivity|]. cbn [rsum timed].
  destruct (is_wait m); [apply IH|]. cbn [filter]. unfold nt at 1. cbn [snd].
  destruct (is_note m) eqn:N; cbn [esum fst snd]; rewrite IH; [reflexivity|].
  rewrite term_nonnote by exact N. lia.
Qed.
Lemma normalise_rsum o k a b : (forall k, alt k false o = true) -> nonneg_waits o = true ->
  rsum k a b 0 (normalise o) = rsum k a b 0 o.
Proof. intros AL NN. now rewrite !rsum_ntimed, normalise_notes. Qed.

(* note events (tick, message without its time field), for both representations (ev_abs / ev_rel of C04) *)
Definition nev (evs : list event) : list event := filter (fun e => is_note (snd e)) evs.
Definition sev (x : Z * msg) : event := (fst x, strip_time (snd x)).

Lemma nev_ev_rel_from r : forall cur, nev (ev_rel_from cur r) = map sev (ntimed cur r).
Proof.
  unfold nev, ntimed. induction r as [|m r IH]; intros cur; [reflexivity|]. cbn [ev_rel_from timed].
  destruct (is_wait m) eqn:Ew; [apply IH|]. cbn [filter]. unfold nt at 1. cbn [snd].
  destruct (is_internal m) eqn:Ei.
  - rewrite (internal_not_note m Ei). apply IH.
  - cbn [filter snd]. change (is_note (strip_time m)) with (is_note m). destruct (is_note m); cbn [map]; now rewrite IH.
Qed.
Lemma nev_ev_rel r : nev (ev_rel r) = map sev (ntimed 0 r).
Proof. apply nev_ev_rel_from. Qed.

(* normalise keeps the note events of a per-key alternating list *)
Theorem normalise_nev o : (forall k, alt k false o = true) -> nonneg_waits o = true ->
  nev (ev_rel (normalise o)) = nev (ev_rel o).
Proof. intros AL NN. now rewrite !nev_ev_rel, normalise_notes. Qed.

Lemma nev_perm e e' : Permutation e e' -> Permutation (nev e) (nev e').
Proof. apply Permutation_filter. Qed.

(* absolute -> relative -> normalise -> absolute, and (sorted) absolute -> relative -> normalise, on note events,
   for a strictly alternating time-sorted list of non-negative ticks without WAIT messages *)
Theorem notes_round a : tsorted a = true -> wfa a = true -> swf a = true ->
  nev (ev_rel (normalise (to_rel a))) = nev (ev_abs a) /\
  Permutation (nev (ev_abs (to_abs (normalise (to_rel a))))) (nev (ev_abs a)).
Proof.
  intros TS W S.
  assert (E : nev (ev_rel (normalise (to_rel a))) = nev (ev_abs a)).
  { rewrite normalise_nev; [now rewrite to_rel_events| |apply nonneg_to_rel].
    intros k. rewrite alt_to_rel. now apply swf_alt. }
  split; [exact E|]. rewrite <- E. apply nev_perm, to_abs_events.
Qed.

Lemma wfa_nnt a : wfa a = true -> nnt a = true.
Proof.
  unfold wfa, nnt. rewrite !forallb_forall. intros H m Hm. specialize (H m Hm). unfold wfa_msg in H.
  now apply andb_true_iff in H as [H _].
Qed.

(* the counts of to_abs (normalise (to_rel a)) are those of a when nothing has to be fused *)
Lemma asum_round a k x y : tsorted a = true -> wfa a = true -> swf a = true ->
  asum k x y (to_abs (normalise (to_rel a))) = asum k x y a.
Proof.
  intros TS W S. rewrite asum_to_abs, normalise_rsum; [apply rsum_to_rel; [exact TS|now apply wfa_nnt]| |apply nonneg_to_rel].
  intros k'. rewrite alt_to_rel. now apply swf_alt.
Qed.
