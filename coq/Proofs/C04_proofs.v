(* C04_proofs.v -- the absolute and the relative view of a Sequence never diverge.
   Part A: the two conversions lose no event and no duration.
   Part B: an invariant of the Sequence wrapper object that every public operation preserves (see C04_inv.v for
   the store level). *)
From Coq Require Import ZArith List Bool Lia Permutation.
From Model Require Import Base Seq.
From Proofs Require Import C04_sort.
Import ListNotations.
Open Scope Z_scope.

(* ---------------------------------------------------------------- the independent notion of "timed events" *)
(* A timed event is a message together with the tick at which it happens.  The message is kept without its own
   time field and without the float tag of that field (strip_time), so that the same notion applies to both
   representations.  INTERNAL messages (the end-of-sequence cap written by to_abs) and WAIT messages are not events:
   they only carry duration. *)
Definition event : Set := (Z * msg)%type.
Definition is_internal (m : msg) : bool := mtype_eqb (m_type m) INTERNAL.

(* absolute list: every non-INTERNAL message with its own time, in list order *)
Definition ev_abs (a : list msg) : list event :=
  map (fun m => (m_time m, strip_time m)) (filter (fun m => negb (is_internal m)) a).

(* relative list: every non-WAIT, non-INTERNAL message stamped with the sum of the waits before it *)
Fixpoint ev_rel_from (cur : Z) (r : list msg) : list event :=
  match r with
  | [] => []
  | m :: r' => if is_wait m then ev_rel_from (cur + m_time m) r'
               else if is_internal m then ev_rel_from cur r'
               else (cur, strip_time m) :: ev_rel_from cur r'
  end.
Definition ev_rel (r : list msg) : list event := ev_rel_from 0 r.

(* well-formed absolute list: non-negative times, no WAIT message *)
Definition wfa_msg (m : msg) : bool := (0 <=? m_time m) && negb (is_wait m).
Definition wfa (a : list msg) : bool := forallb wfa_msg a.
(* well-formed relative list: non-negative waits *)
Definition wfr_msg (m : msg) : bool := negb (is_wait m) || (0 <=? m_time m).
Definition wfr (r : list msg) : bool := forallb wfr_msg r.

(* ---------------------------------------------------------------- small facts *)
Lemma is_wait_set_time (m : msg) (t : Z) (f : bool) : is_wait (set_time m t f) = is_wait m.
Proof. reflexivity. Qed.
Lemma is_internal_set_time (m : msg) (t : Z) (f : bool) : is_internal (set_time m t f) = is_internal m.
Proof. reflexivity. Qed.
Lemma strip_set_time (m : msg) (t : Z) (f : bool) : strip_time (set_time m t f) = strip_time m.
Proof. reflexivity. Qed.
Lemma strip_strip (m : msg) : strip_time (strip_time m) = strip_time m.
Proof. reflexivity. Qed.
Lemma is_wait_strip (m : msg) : is_wait (strip_time m) = is_wait m.
Proof. reflexivity. Qed.
Lemma is_internal_strip (m : msg) : is_internal (strip_time m) = is_internal m.
Proof. reflexivity. Qed.

Lemma is_wait_internal (m : msg) : is_internal m = true -> is_wait m = false.
Proof. unfold is_internal, is_wait, mtype_eqb. destruct (m_type m); cbn; congruence. Qed.

Lemma wfa_Forall (a : list msg) : wfa a = true -> Forall (fun m => 0 <= m_time m) a.
Proof.
  unfold wfa. rewrite forallb_forall, Forall_forall. intros H m Hm. specialize (H m Hm).
  unfold wfa_msg in H. apply andb_prop in H. destruct H as [H _]. now apply Z.leb_le.
Qed.

Lemma wfa_perm (a b : list msg) : Permutation a b -> wfa a = true -> wfa b = true.
Proof.
  unfold wfa. rewrite !forallb_forall. intros Hp H m Hm. apply H. eapply Permutation_in; [symmetry|]; eassumption.
Qed.

Lemma wfa_app (a b : list msg) : wfa (a ++ b) = wfa a && wfa b.
Proof. apply forallb_app. Qed.
Lemma wfr_app (a b : list msg) : wfr (a ++ b) = wfr a && wfr b.
Proof. apply forallb_app. Qed.

Lemma ev_abs_app (a b : list msg) : ev_abs (a ++ b) = ev_abs a ++ ev_abs b.
Proof. unfold ev_abs. now rewrite filter_app, map_app. Qed.

Lemma ev_abs_perm (a b : list msg) : Permutation a b -> Permutation (ev_abs a) (ev_abs b).
Proof.
  intro H. unfold ev_abs. apply Permutation_map.
  induction H as [|x l l' _ IH|x y l|l l' l'' _ IH1 _ IH2]; cbn [filter].
  - constructor.
  - destruct (negb (is_internal x)); [now apply perm_skip|exact IH].
  - destruct (negb (is_internal x)), (negb (is_internal y)); try reflexivity. apply perm_swap.
  - etransitivity; eassumption.
Qed.

Lemma dur_rel_app (a b : list msg) : dur_rel (a ++ b) = dur_rel a + dur_rel b.
Proof.
  unfold dur_rel. rewrite filter_app, map_app.
  induction (map m_time (filter is_wait a)) as [|x l IH]; cbn [sumZ app]; lia.
Qed.

Lemma dur_rel_cons (m : msg) (l : list msg) :
  dur_rel (m :: l) = (if is_wait m then m_time m else 0) + dur_rel l.
Proof. unfold dur_rel. cbn [filter]. destruct (is_wait m); cbn [map sumZ]; lia. Qed.

Lemma dur_rel_nonneg (r : list msg) : wfr r = true -> 0 <= dur_rel r.
Proof.
  induction r as [|m r IH]; intro H; [cbn; lia|].
  cbn [wfr forallb] in H. apply andb_prop in H. destruct H as [Hm Hr]. specialize (IH Hr).
  rewrite dur_rel_cons. unfold wfr_msg in Hm. destruct (is_wait m); [|lia].
  cbn in Hm. apply Z.leb_le in Hm. lia.
Qed.

(* ================================================================ Part A.1 : relative -> absolute *)
(* projections of the quadruple returned by to_abs_aux *)
Definition ta_msgs (x : list msg * Z * bool * bool) : list msg := fst (fst (fst x)).
Definition ta_clock (x : list msg * Z * bool * bool) : Z := snd (fst (fst x)).
Definition ta_cap (x : list msg * Z * bool * bool) : bool := snd x.

Lemma to_abs_aux_wait (m : msg) (l : list msg) (cur : Z) (curf cap : bool) :
  is_wait m = true -> to_abs_aux (m :: l) cur curf cap = to_abs_aux l (cur + m_time m) (curf || m_tf m) false.
Proof. intro H. cbn [to_abs_aux]. now rewrite H. Qed.

Lemma to_abs_aux_msg (m : msg) (l : list msg) (cur : Z) (curf cap : bool) :
  is_wait m = false ->
  to_abs_aux (m :: l) cur curf cap =
  (set_time m cur curf :: ta_msgs (to_abs_aux l cur curf true), ta_clock (to_abs_aux l cur curf true),
   snd (fst (to_abs_aux l cur curf true)), ta_cap (to_abs_aux l cur curf true)).
Proof.
  intro H. cbn [to_abs_aux]. rewrite H. destruct (to_abs_aux l cur curf true) as [[[r c] f] k]. reflexivity.
Qed.

(* the clock ends at the start value plus the sum of all waits *)
Lemma to_abs_aux_clock (l : list msg) (cur : Z) (curf cap : bool) :
  ta_clock (to_abs_aux l cur curf cap) = cur + dur_rel l.
Proof.
  revert cur curf cap. induction l as [|m l IH]; intros cur curf cap.
  - cbn. lia.
  - rewrite dur_rel_cons. destruct (is_wait m) eqn:E.
    + rewrite to_abs_aux_wait by exact E. rewrite IH. lia.
    + rewrite to_abs_aux_msg by exact E. unfold ta_clock at 1. cbn [fst snd]. rewrite IH. lia.
Qed.

(* the stamped messages are exactly the timed events of the relative list, in the same order *)
Lemma to_abs_aux_events (l : list msg) (cur : Z) (curf cap : bool) :
  ev_abs (ta_msgs (to_abs_aux l cur curf cap)) = ev_rel_from cur l.
Proof.
  revert cur curf cap. induction l as [|m l IH]; intros cur curf cap; [reflexivity|].
  cbn [ev_rel_from]. destruct (is_wait m) eqn:E.
  - rewrite to_abs_aux_wait by exact E. apply IH.
  - rewrite to_abs_aux_msg by exact E. unfold ta_msgs at 1. cbn [fst].
    unfold ev_abs. cbn [filter]. rewrite is_internal_set_time.
    destruct (is_internal m); cbn [negb]; [apply IH|].
    cbn [map]. rewrite strip_set_time. f_equal. apply IH.
Qed.

(* every stamp lies between the start clock and the final clock; no WAIT is produced *)
Lemma to_abs_aux_range (l : list msg) (cur : Z) (curf cap : bool) :
  wfr l = true ->
  Forall (fun m => cur <= m_time m <= cur + dur_rel l /\ is_wait m = false) (ta_msgs (to_abs_aux l cur curf cap)).
Proof.
  revert cur curf cap. induction l as [|m l IH]; intros cur curf cap H; [constructor|].
  cbn [wfr forallb] in H. apply andb_prop in H. destruct H as [Hm Hl].
  rewrite dur_rel_cons. pose proof (dur_rel_nonneg l Hl) as Hd.
  destruct (is_wait m) eqn:E.
  - rewrite to_abs_aux_wait by exact E.
    unfold wfr_msg in Hm. rewrite E in Hm. cbn in Hm. apply Z.leb_le in Hm.
    eapply Forall_impl; [|apply (IH (cur + m_time m) _ _ Hl)]. cbn beta. intros a [Ha1 Ha2]. split; [lia|exact Ha2].
  - rewrite to_abs_aux_msg by exact E. unfold ta_msgs at 1. cbn [fst]. constructor.
    + cbn [set_time m_time]. rewrite is_wait_set_time. split; [lia|exact E].
    + eapply Forall_impl; [|apply (IH cur curf true Hl)]. cbn beta. intros a [Ha1 Ha2]. split; [lia|exact Ha2].
Qed.

(* when no cap is needed, either nothing happened at all or some stamped message sits on the final clock *)
Lemma to_abs_aux_cap (l : list msg) (cur : Z) (curf cap : bool) :
  ta_cap (to_abs_aux l cur curf cap) = true ->
  (cap = true /\ ta_msgs (to_abs_aux l cur curf cap) = [] /\ dur_rel l = 0) \/
  (exists m, In m (ta_msgs (to_abs_aux l cur curf cap)) /\ m_time m = cur + dur_rel l).
Proof.
  revert cur curf cap. induction l as [|m l IH]; intros cur curf cap H.
  - left. cbn in H. subst. repeat split.
  - rewrite dur_rel_cons. destruct (is_wait m) eqn:E.
    + rewrite to_abs_aux_wait in * by exact E. destruct (IH _ _ _ H) as [[Hc _]|[x [Hx1 Hx2]]]; [discriminate|].
      right. exists x. split; [exact Hx1|lia].
    + rewrite to_abs_aux_msg in * by exact E. unfold ta_cap in H at 1. cbn [snd] in H.
      unfold ta_msgs at 1 3. cbn [fst]. right.
      destruct (IH _ _ _ H) as [[_ [Hr Hd]]|[x [Hx1 Hx2]]].
      * exists (set_time m cur curf). split; [now left|]. cbn. lia.
      * exists x. split; [now right|lia].
Qed.

Lemma to_abs_unfold (l : list msg) :
  to_abs l = let x := to_abs_aux l 0 false true in
             if ta_cap x then sort_abs (ta_msgs x)
             else insort (mk_internal (first_chan l) (ta_clock x)) (sort_abs (ta_msgs x)).
Proof. unfold to_abs. destruct (to_abs_aux l 0 false true) as [[[r c] f] k]. reflexivity. Qed.

(* to_abs loses no event: for EVERY relative list *)
Lemma to_abs_events (r : list msg) : Permutation (ev_abs (to_abs r)) (ev_rel r).
Proof.
  rewrite to_abs_unfold. cbv zeta. unfold ev_rel. rewrite <- (to_abs_aux_events r 0 false true).
  set (x := to_abs_aux r 0 false true).
  destruct (ta_cap x).
  - apply ev_abs_perm. symmetry. apply sort_abs_perm.
  - etransitivity; [apply ev_abs_perm; symmetry; apply insort_perm|].
    change (Permutation (ev_abs (sort_abs (ta_msgs x))) (ev_abs (ta_msgs x))).
    apply ev_abs_perm. symmetry. apply sort_abs_perm.
Qed.

Lemma to_abs_tsorted (r : list msg) : tsorted (to_abs r) = true.
Proof.
  rewrite to_abs_unfold. cbv zeta. destruct (ta_cap _); [apply sort_abs_tsorted|].
  apply insort_tsorted, sort_abs_tsorted.
Qed.

Lemma to_abs_wfa (r : list msg) : wfr r = true -> wfa (to_abs r) = true.
Proof.
  intro H. rewrite to_abs_unfold. cbv zeta.
  pose proof (to_abs_aux_range r 0 false true H) as Hr.
  pose proof (dur_rel_nonneg r H) as Hd.
  assert (Hw : wfa (ta_msgs (to_abs_aux r 0 false true)) = true).
  { unfold wfa. apply forallb_forall. rewrite Forall_forall in Hr. intros m Hm. destruct (Hr m Hm) as [H1 H2].
    unfold wfa_msg. rewrite H2. cbn. rewrite andb_true_r. apply Z.leb_le. lia. }
  destruct (ta_cap _).
  - eapply wfa_perm; [apply sort_abs_perm|exact Hw].
  - eapply wfa_perm; [apply insort_perm|]. cbn [wfa forallb]. apply andb_true_intro. split.
    + unfold wfa_msg. cbn. rewrite andb_true_r. apply Z.leb_le. rewrite to_abs_aux_clock. lia.
    + eapply wfa_perm; [apply sort_abs_perm|exact Hw].
Qed.

(* to_abs loses no duration: for relative lists with non-negative waits *)
Lemma to_abs_dur (r : list msg) : wfr r = true -> dur_abs (to_abs r) = dur_rel r.
Proof.
  intro H.
  pose proof (to_abs_aux_range r 0 false true H) as Hr.
  pose proof (dur_rel_nonneg r H) as Hd.
  pose proof (to_abs_tsorted r) as Hs. pose proof (to_abs_wfa r H) as Hw.
  rewrite (dur_abs_maxt _ Hs (wfa_Forall _ Hw)).
  rewrite to_abs_unfold. cbv zeta.
  set (x := to_abs_aux r 0 false true) in *.
  assert (Hle : forall m, In m (ta_msgs x) -> m_time m <= dur_rel r).
  { rewrite Forall_forall in Hr. intros m Hm. destruct (Hr m Hm) as [H1 _]. lia. }
  assert (Hmax : maxt (ta_msgs x) <= dur_rel r).
  { clear -Hle Hd. induction (ta_msgs x) as [|m l IH]; [cbn; lia|]. rewrite maxt_cons.
    specialize (Hle m (or_introl eq_refl)) as Hm.
    assert (maxt l <= dur_rel r) by (apply IH; intros a Ha; apply Hle; now right). lia. }
  destruct (ta_cap x) eqn:Ec.
  - rewrite <- (maxt_perm _ _ (sort_abs_perm (ta_msgs x))).
    pose proof (to_abs_aux_cap r 0 false true Ec) as Hc. change (to_abs_aux r 0 false true) with x in Hc.
    destruct Hc as [[_ [Hn Hz]]|[m [Hm1 Hm2]]].
    + rewrite Hn, Hz. reflexivity.
    + assert (m_time m <= maxt (ta_msgs x)).
      { clear -Hm1. induction (ta_msgs x) as [|a l IH]; [destruct Hm1|]. rewrite maxt_cons.
        destruct Hm1 as [->|Hm1]; [lia|]. specialize (IH Hm1). lia. }
      lia.
  - rewrite <- (maxt_perm _ _ (insort_perm _ _)). rewrite maxt_cons.
    rewrite <- (maxt_perm _ _ (sort_abs_perm (ta_msgs x))).
    cbn [mk_internal m_time]. unfold x at 1. rewrite to_abs_aux_clock. lia.
Qed.

(* ================================================================ Part A.2 : absolute -> relative *)
Lemma to_rel_aux_cons (m : msg) (l : list msg) (cur : Z) (curf : bool) :
  to_rel_aux (m :: l) cur curf =
  (if cur <? m_time m then [mk_wait (m_chan m) (m_time m - cur) (m_tf m || curf)] else []) ++
  (if is_internal m then [] else [strip_time m]) ++
  to_rel_aux l (if cur <? m_time m then m_time m else cur) (if cur <? m_time m then m_tf m else curf).
Proof. reflexivity. Qed.

(* the waits written by to_rel are strictly positive: its output is always a well-formed relative list *)
Lemma to_rel_aux_wfr (l : list msg) (cur : Z) (curf : bool) : wfr (to_rel_aux l cur curf) = true.
Proof.
  revert cur curf. induction l as [|m l IH]; intros cur curf; [reflexivity|].
  rewrite to_rel_aux_cons, !wfr_app, IH, andb_true_r. apply andb_true_intro. split.
  - destruct (cur <? m_time m) eqn:E; [|reflexivity]. apply Z.ltb_lt in E.
    cbn. rewrite andb_true_r. apply Z.leb_le. lia.
  - destruct (is_internal m); [reflexivity|]. cbn [wfr forallb]. unfold wfr_msg. rewrite is_wait_strip.
    cbn [strip_time set_time m_time]. destruct (is_wait m); reflexivity.
Qed.

Lemma to_rel_wfr (a : list msg) : wfr (to_rel a) = true.
Proof. apply to_rel_aux_wfr. Qed.

(* on a time-sorted list that starts not before the clock, the events come back with their own times, in order *)
Lemma to_rel_aux_events (l : list msg) (cur : Z) (curf : bool) :
  tsorted l = true -> wfa l = true -> (forall m, hd_error l = Some m -> cur <= m_time m) ->
  ev_rel_from cur (to_rel_aux l cur curf) = ev_abs l.
Proof.
  revert cur curf. induction l as [|m l IH]; intros cur curf Hs Hw Hh; [reflexivity|].
  cbn [wfa forallb] in Hw. apply andb_prop in Hw. destruct Hw as [Hm Hw].
  unfold wfa_msg in Hm. apply andb_prop in Hm. destruct Hm as [_ Hnw]. apply negb_true_iff in Hnw.
  specialize (Hh m eq_refl).
  assert (Hnext : forall y, hd_error l = Some y -> m_time m <= m_time y).
  { intros y Hy. destruct l as [|z l]; [discriminate|]. cbn in Hy. injection Hy as <-.
    rewrite tsorted_cons in Hs. apply andb_prop in Hs. now apply Z.leb_le. }
  rewrite to_rel_aux_cons.
  assert (Hrest : forall f, ev_rel_from (m_time m) ((if is_internal m then [] else [strip_time m]) ++
                               to_rel_aux l (m_time m) f) = ev_abs (m :: l)).
  { intro f. unfold ev_abs. cbn [filter]. destruct (is_internal m) eqn:Ei; cbn [negb app].
    - apply IH; [eapply tsorted_tail; exact Hs|exact Hw|exact Hnext].
    - cbn [ev_rel_from map]. rewrite is_wait_strip, Hnw, is_internal_strip, Ei, strip_strip. f_equal.
      apply IH; [eapply tsorted_tail; exact Hs|exact Hw|exact Hnext]. }
  destruct (cur <? m_time m) eqn:E.
  - cbn [app ev_rel_from]. change (is_wait (mk_wait _ _ _)) with true. cbv iota.
    cbn [mk_wait m_time]. replace (cur + (m_time m - cur)) with (m_time m) by lia. apply Hrest.
  - apply Z.ltb_ge in E. assert (cur = m_time m) as -> by lia. cbn [app]. apply Hrest.
Qed.

Lemma last_opt_some {A} (x : A) (l : list A) : exists z, last_opt (x :: l) = Some z.
Proof.
  revert x. induction l as [|y l IH]; intro x; [now exists x|]. rewrite last_opt_cons. apply IH.
Qed.

Definition last_time (cur : Z) (l : list msg) : Z := match last_opt l with Some m => m_time m | None => cur end.

Lemma to_rel_aux_dur (l : list msg) (cur : Z) (curf : bool) :
  tsorted l = true -> (forall m, hd_error l = Some m -> cur <= m_time m) ->
  dur_rel (to_rel_aux l cur curf) = last_time cur l - cur.
Proof.
  revert cur curf. induction l as [|m l IH]; intros cur curf Hs Hh; [unfold last_time; cbn; lia|].
  specialize (Hh m eq_refl).
  assert (Hnext : forall y, hd_error l = Some y -> m_time m <= m_time y).
  { intros y Hy. destruct l as [|z l]; [discriminate|]. cbn in Hy. injection Hy as <-.
    rewrite tsorted_cons in Hs. apply andb_prop in Hs. now apply Z.leb_le. }
  rewrite to_rel_aux_cons, !dur_rel_app.
  assert (Hmid : dur_rel (if is_internal m then [] else [strip_time m]) = 0).
  { destruct (is_internal m); [reflexivity|]. rewrite dur_rel_cons. destruct (is_wait (strip_time m)); reflexivity. }
  rewrite Hmid.
  assert (Hlast : last_time cur (m :: l) = last_time (m_time m) l).
  { unfold last_time. destruct l as [|y l]; [reflexivity|]. rewrite last_opt_cons.
    destruct (last_opt_some y l) as [z ->]. reflexivity. }
  rewrite Hlast.
  destruct (cur <? m_time m) eqn:E.
  - rewrite IH; [|eapply tsorted_tail; exact Hs|exact Hnext].
    rewrite dur_rel_cons. change (is_wait (mk_wait _ _ _)) with true. cbn [mk_wait m_time]. cbn [dur_rel filter map sumZ]. lia.
  - apply Z.ltb_ge in E. assert (cur = m_time m) as -> by lia.
    rewrite IH; [|eapply tsorted_tail; exact Hs|exact Hnext]. cbn [dur_rel filter map sumZ]. lia.
Qed.

Lemma hd_nonneg (a : list msg) : wfa a = true -> forall m, hd_error a = Some m -> 0 <= m_time m.
Proof.
  intros H m Hm. destruct a as [|x a]; [discriminate|]. cbn in Hm. injection Hm as <-.
  apply wfa_Forall in H. now inversion H.
Qed.

(* to_rel loses no event and keeps the order: for time-sorted absolute lists with non-negative times *)
Lemma to_rel_events (a : list msg) : tsorted a = true -> wfa a = true -> ev_rel (to_rel a) = ev_abs a.
Proof. intros Hs Hw. apply to_rel_aux_events; [exact Hs|exact Hw|now apply hd_nonneg]. Qed.

Lemma to_rel_dur (a : list msg) : tsorted a = true -> wfa a = true -> dur_rel (to_rel a) = dur_abs a.
Proof.
  intros Hs Hw. unfold to_rel. rewrite to_rel_aux_dur; [|exact Hs|now apply hd_nonneg].
  unfold last_time, dur_abs. destruct (last_opt a); lia.
Qed.

(* ---------------------------------------------------------------- round trips *)
(* rel -> abs -> rel keeps the events up to the order of simultaneous messages, and the duration *)
Lemma round_trip_rel (r : list msg) :
  wfr r = true -> Permutation (ev_rel (to_rel (to_abs r))) (ev_rel r) /\ dur_rel (to_rel (to_abs r)) = dur_rel r.
Proof.
  intro H. rewrite to_rel_events, to_rel_dur by (apply to_abs_tsorted || now apply to_abs_wfa).
  split; [apply to_abs_events|now apply to_abs_dur].
Qed.

(* abs -> rel -> abs *)
Lemma round_trip_abs (a : list msg) :
  tsorted a = true -> wfa a = true ->
  Permutation (ev_abs (to_abs (to_rel a))) (ev_abs a) /\ dur_abs (to_abs (to_rel a)) = dur_abs a.
Proof.
  intros Hs Hw. split.
  - rewrite <- (to_rel_events a Hs Hw). apply to_abs_events.
  - rewrite to_abs_dur by apply to_rel_wfr. now apply to_rel_dur.
Qed.

(* ================================================================ Part A : the theorems exported to Props/C04.v *)
Theorem C04_conv_rel_abs : forall r : list msg,
  Permutation (ev_abs (to_abs r)) (ev_rel r) /\ tsorted (to_abs r) = true /\
  (wfr r = true -> dur_abs (to_abs r) = dur_rel r /\ wfa (to_abs r) = true).
Proof.
  intro r. split; [apply to_abs_events|]. split; [apply to_abs_tsorted|].
  intro H. split; [now apply to_abs_dur|now apply to_abs_wfa].
Qed.

Theorem C04_conv_abs_rel : forall a : list msg,
  tsorted a = true -> wfa a = true ->
  ev_rel (to_rel a) = ev_abs a /\ dur_rel (to_rel a) = dur_abs a /\ wfr (to_rel a) = true.
Proof.
  intros a Hs Hw. split; [now apply to_rel_events|]. split; [now apply to_rel_dur|apply to_rel_wfr].
Qed.

(* non-vacuity: concrete inputs satisfying the hypotheses *)
Definition ex_rel : list msg :=
  [mk_on 0 60 100 0 false; mk_wait 0 24 false; mk_on 1 50 90 0 false; mk_on 0 62 100 0 false; mk_off 0 60 0 false;
   mk_wait 0 12 true; mk_off 0 62 0 false; mk_off 1 50 0 false; mk_wait 0 5 false].
Definition ex_abs : list msg :=
  [mk_on 0 60 100 0 false; mk_on 1 50 90 24 false; mk_off 0 60 24 false; mk_off 1 50 36 true; mk_internal 0 41].
Example ex_rel_wf : wfr ex_rel = true /\ ev_rel ex_rel <> [] /\ dur_rel ex_rel = 41.
Proof. split; [reflexivity|]. split; [discriminate|reflexivity]. Qed.
Example ex_abs_wf : tsorted ex_abs = true /\ wfa ex_abs = true /\ ev_abs ex_abs <> [] /\ dur_abs ex_abs = 41.
Proof. split; [reflexivity|]. split; [reflexivity|]. split; [discriminate|reflexivity]. Qed.

(* the hypothesis of the duration clause is needed: a negative wait makes the views disagree on the duration *)
Example neg_wait_diverges :
  let r := [mk_wait 0 5 false; mk_on 0 60 100 0 false; mk_wait 0 (-3) false] in
  dur_rel r = 2 /\ dur_abs (to_abs r) = 5.
Proof. split; reflexivity. Qed.
(* a WAIT message inside an absolute list is lost by the round trip: excluded by wfa *)
Example wait_in_abs_lost :
  let a := [mk_wait 0 5 false] in ev_abs a <> [] /\ ev_rel (to_rel a) = [] /\ ev_abs (to_abs (to_rel a)) = [].
Proof. split; [discriminate|]. split; reflexivity. Qed.
(* a negative time in an absolute list is moved to 0 by to_rel: excluded by wfa *)
Example neg_time_moved :
  let a := [mk_on 0 60 100 (-5) false] in map fst (ev_abs a) = [-5] /\ map fst (ev_rel (to_rel a)) = [0].
Proof. split; reflexivity. Qed.
