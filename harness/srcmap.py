#!/usr/bin/env python3
"""(regenerate with: /venv/bin/python harness/srcmap.py --write -- the same interpreter the checks use)
Change-directed budget: SHA-256 of the AST of every modelled Python function.  A differing hash never raises an
alarm by itself; it multiplies the correspondence budget of the operations that exercise the function (check.py)."""
import ast, hashlib, json, os, sys

VERIF = os.path.dirname(os.path.dirname(os.path.abspath(__file__)))
FILES = ["scoda/sequences/sequence.py", "scoda/sequences/absolute_sequence.py", "scoda/sequences/relative_sequence.py",
         "scoda/sequences/abstract_sequence.py", "scoda/elements/bar.py", "scoda/elements/message.py",
         "scoda/elements/track.py", "scoda/elements/composition.py", "scoda/misc/util.py", "scoda/misc/music_theory.py",
         "scoda/tokenisation/notelike_tokenisation.py", "scoda/midi/midi_file.py", "scoda/midi/midi_message.py",
         "scoda/midi/midi_track.py"]

# operation of harness/ops.py -> substrings of qualified names ("file::Class.function") it exercises
OPS = {
    "to_abs": ["to_absolute_sequence", "binary_insort", "AbsoluteSequence.sort"], "to_rel": ["to_relative_sequence", "binary_insort"],
    "rel_abs_rel": ["to_absolute_sequence", "to_relative_sequence"], "normalise": ["normalise_relative"],
    "pad": ["RelativeSequence.pad"], "set_channel": ["set_channel"], "scale": ["RelativeSequence.scale", "Sequence.scale"],
    "transpose_rel": ["RelativeSequence.transpose", "transpose_key"], "split": ["RelativeSequence.split", "Sequence.split"],
    "merge": ["merge", "normalise_relative", "AbsoluteSequence.sort"], "cutoff": ["cutoff", "get_message_pairings"],
    "quantise": ["AbsoluteSequence.quantise", "find_minimal_distance"],
    "qnl": ["quantise_note_lengths", "get_message_pairings", "find_minimal_distance"],
    "pairings": ["get_message_pairings"], "interleaved": ["get_interleaved_message_pairings", "get_message_pairings"],
    "equals": ["equals", "get_interleaved_message_pairings"], "bar": ["bar.py"],
    "split_bars": ["sequences_split_bars", "bar.py", "RelativeSequence.split", "quantise_note_lengths"],
    "util": ["util.py"], "vocab": ["_construct_dictionary", "__init__", "get_velocity_bins"],
    "tok_roundtrip": ["notelike_tokenisation.py", "bin_velocity", "set_channel", "merge", "get_interleaved_message_pairings"],
    "tok_stateful": ["tokenise", "sequences_split_bars", "to_sequence", "concatenate"],
    "comp_file": ["composition.py", "track.py", "bar.py", "sequences_split_bars", "sequences_load", "midi_file.py", "quantise_and_normalise"],
    "concat_repeat": ["concatenate", "normalise_relative", "RelativeSequence.pad", "RelativeSequence.split", "set_channel", "message.py"],
    "scale_down": ["RelativeSequence.scale", "Sequence.scale", "sequences_split_bars", "bar.py", "RelativeSequence.split", "normalise_relative"],
    "tok_stream": ["detokenise", "get_info", "_split_token"], "history": ["sequence.py", "relative_sequence.py", "absolute_sequence.py", "bar.py", "message.py", "abstract_sequence.py"],
    "midi_events": ["to_midi_track", "to_mido_track", "parse_internal_message"],
    "midi_load": ["midi_file.py", "midi_message.py", "midi_track.py", "sequences_load"],
    "midi_roundtrip": ["midi_file.py", "midi_message.py", "midi_track.py", "sequences_save", "sequences_load", "to_midi_track"],
    "midi_roundtrip_mi": ["midi_file.py", "midi_message.py", "midi_track.py", "sequences_save", "sequences_load", "to_midi_track"],
    "music_theory": ["music_theory.py"],
    "getters": ["is_empty", "is_channel_consistent", "get_sequence_channel", "get_sequence_duration", "get_key_signature_guess", "get_message_times_of_type"],
    "digitise": ["digitise_velocity", "velocity_from_bin", "bin_velocity", "get_velocity_bins"],
    "composition": ["composition.py", "track.py", "bar.py", "sequences_split_bars", "Sequence.transpose", "Sequence.copy"],
}


def compute(repo):
    out = {}
    for f in FILES:
        try:
            tree = ast.parse(open(os.path.join(repo, f)).read())
        except (OSError, SyntaxError):
            out[f + "::<file>"] = "unreadable"
            continue
        def visit(node, prefix):
            for n in node.body:
                if isinstance(n, ast.ClassDef):
                    visit(n, prefix + n.name + ".")
                    # class-level assignments (tables, defaults)
                    body = [x for x in n.body if isinstance(x, (ast.Assign, ast.AnnAssign))]
                    out[f"{f}::{prefix}{n.name}.<attrs>"] = hashlib.sha256("".join(ast.dump(x) for x in body).encode()).hexdigest()[:16]
                elif isinstance(n, (ast.FunctionDef, ast.AsyncFunctionDef)):
                    out[f"{f}::{prefix}{n.name}"] = hashlib.sha256(ast.dump(n).encode()).hexdigest()[:16]
        visit(tree, "")
    return out


def changed(repo):
    cur = compute(repo)
    try:
        old = json.load(open(os.path.join(VERIF, "harness", "srcmap.json")))
    except OSError:
        return []
    return sorted(k for k in set(cur) | set(old) if cur.get(k) != old.get(k))


def boost_for(op, changed_names):
    pats = OPS.get(op, [])
    return any(any(p in name for p in pats) for name in changed_names)


if __name__ == "__main__":
    repo = os.environ.get("SCODA_REPO", "/repo")
    if "--write" in sys.argv:
        json.dump(compute(repo), open(os.path.join(VERIF, "harness", "srcmap.json"), "w"), indent=1, sort_keys=True)
        print("written", len(compute(repo)), "entries")
    else:
        print(changed(repo))
