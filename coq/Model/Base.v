(* Base.v -- messages, results, association lists (Python dict with insertion order), small list utilities.
   Hand-written model; tied to /repo by the correspondence check (DESIGN.md section 3 (C)). *)
From Coq Require Export ZArith Bool String List Lia.
From Gen Require Export Enums MusicTheory.
Export ListNotations.
Open Scope Z_scope.

(* ---------------------------------------------------------------- messages *)
(* Python `None` in an integer field is encoded as -1 (note, velocity, control, program, numerator, denominator).
   m_tf is the ride-along type tag of m_time: true iff the Python value is a float (DESIGN section 2). It never
   influences control flow.  In a relative list only WAIT messages carry a time; all others have time 0 (Python
   None). *)
Record msg : Set := mkmsg {
  m_type : mtype; m_chan : Z; m_time : Z; m_tf : bool; m_note : Z; m_vel : Z;
  m_ctrl : Z; m_prog : Z; m_num : Z; m_den : Z; m_key : option Key }.

Definition NONE : Z := -1.

Definition set_time (m : msg) (t : Z) (f : bool) : msg :=
  mkmsg (m_type m) (m_chan m) t f (m_note m) (m_vel m) (m_ctrl m) (m_prog m) (m_num m) (m_den m) (m_key m).
Definition set_chan (m : msg) (c : Z) : msg :=
  mkmsg (m_type m) c (m_time m) (m_tf m) (m_note m) (m_vel m) (m_ctrl m) (m_prog m) (m_num m) (m_den m) (m_key m).
Definition set_note (m : msg) (n : Z) : msg :=
  mkmsg (m_type m) (m_chan m) (m_time m) (m_tf m) n (m_vel m) (m_ctrl m) (m_prog m) (m_num m) (m_den m) (m_key m).
Definition set_vel (m : msg) (v : Z) : msg :=
  mkmsg (m_type m) (m_chan m) (m_time m) (m_tf m) (m_note m) v (m_ctrl m) (m_prog m) (m_num m) (m_den m) (m_key m).
Definition set_key (m : msg) (k : option Key) : msg :=
  mkmsg (m_type m) (m_chan m) (m_time m) (m_tf m) (m_note m) (m_vel m) (m_ctrl m) (m_prog m) (m_num m) (m_den m) k.
Definition set_sig (m : msg) (n d : Z) : msg :=
  mkmsg (m_type m) (m_chan m) (m_time m) (m_tf m) (m_note m) (m_vel m) (m_ctrl m) (m_prog m) n d (m_key m).

(* constructors mirroring Message(message_type=..., ...) with unspecified fields None *)
Definition mk_wait (c t : Z) (f : bool) : msg := mkmsg WAIT c t f NONE NONE NONE NONE NONE NONE None.
Definition mk_on (c n v t : Z) (f : bool) : msg := mkmsg NOTE_ON c t f n v NONE NONE NONE NONE None.
Definition mk_off (c n t : Z) (f : bool) : msg := mkmsg NOTE_OFF c t f n NONE NONE NONE NONE NONE None.
Definition mk_ts (c n d t : Z) (f : bool) : msg := mkmsg TIME_SIGNATURE c t f NONE NONE NONE NONE n d None.
Definition mk_ks (c : Z) (k : option Key) (t : Z) (f : bool) : msg := mkmsg KEY_SIGNATURE c t f NONE NONE NONE NONE NONE NONE k.
Definition mk_internal (c t : Z) : msg := mkmsg INTERNAL c t false NONE NONE NONE NONE NONE NONE None.
Definition mk_cc (c ctrl v t : Z) (f : bool) : msg := mkmsg CONTROL_CHANGE c t f NONE v ctrl NONE NONE NONE None.
Definition mk_pc (c p t : Z) (f : bool) : msg := mkmsg PROGRAM_CHANGE c t f NONE NONE NONE p NONE NONE None.

Definition mtype_eqb (a b : mtype) : bool := Z.eqb (mtype_rank a) (mtype_rank b).
Definition okey_eqb (a b : option Key) : bool :=
  match a, b with Some x, Some y => key_eqb x y | None, None => true | _, _ => false end.
Definition msg_eqb (a b : msg) : bool :=
  mtype_eqb (m_type a) (m_type b) && Z.eqb (m_chan a) (m_chan b) && Z.eqb (m_time a) (m_time b) &&
  Bool.eqb (m_tf a) (m_tf b) && Z.eqb (m_note a) (m_note b) && Z.eqb (m_vel a) (m_vel b) &&
  Z.eqb (m_ctrl a) (m_ctrl b) && Z.eqb (m_prog a) (m_prog b) && Z.eqb (m_num a) (m_num b) &&
  Z.eqb (m_den a) (m_den b) && okey_eqb (m_key a) (m_key b).

Definition is_wait (m : msg) : bool := mtype_eqb (m_type m) WAIT.
Definition is_on (m : msg) : bool := mtype_eqb (m_type m) NOTE_ON.
Definition is_off (m : msg) : bool := mtype_eqb (m_type m) NOTE_OFF.
Definition is_note (m : msg) : bool := is_on m || is_off m.

(* ---------------------------------------------------------------- results *)
Inductive err : Set := BarErr | SeqErr | TokErr | KeyErr | IndexErr | ValueErr | TypeErr | OutOfFuel | OutOfModel | TrackErr.
Inductive result (A : Type) : Type := Ok (a : A) | Err (e : err).
Arguments Ok {A} a. Arguments Err {A} e.
Definition rbind {A B} (r : result A) (f : A -> result B) : result B :=
  match r with Ok a => f a | Err e => Err e end.
Notation "'do' x <- r ; k" := (rbind r (fun x => k)) (at level 200, x name, r at level 100, k at level 200).
Notation "'do' ' p <- r ; k" := (rbind r (fun x_ => match x_ with p => k end))
  (at level 200, p pattern, r at level 100, k at level 200).

Fixpoint mapM {A B} (f : A -> result B) (l : list A) : result (list B) :=
  match l with [] => Ok [] | x :: l' => do y <- f x; do ys <- mapM f l'; Ok (y :: ys) end.
Fixpoint foldM {A B} (f : B -> A -> result B) (l : list A) (b : B) : result B :=
  match l with [] => Ok b | x :: l' => do b' <- f b x; foldM f l' b' end.

(* ---------------------------------------------------------------- insertion-ordered dict with pair keys *)
Definition k2 : Set := (Z * Z)%type.
Definition k2_eqb (a b : k2) : bool := Z.eqb (fst a) (fst b) && Z.eqb (snd a) (snd b).

Section Dict.
  Context {K V : Type} (eqb : K -> K -> bool).
  Fixpoint dget (k : K) (d : list (K * V)) : option V :=
    match d with [] => None | (k', v) :: d' => if eqb k k' then Some v else dget k d' end.
  Definition dmem (k : K) (d : list (K * V)) : bool := match dget k d with Some _ => true | None => false end.
  (* d[k] = v : existing key keeps its position, new key goes last *)
  Fixpoint dset (k : K) (v : V) (d : list (K * V)) : list (K * V) :=
    match d with [] => [(k, v)] | (k', v') :: d' => if eqb k k' then (k', v) :: d' else (k', v') :: dset k v d' end.
  Fixpoint ddel (k : K) (d : list (K * V)) : list (K * V) :=
    match d with [] => [] | (k', v') :: d' => if eqb k k' then d' else (k', v') :: ddel k d' end.
End Dict.

(* ---------------------------------------------------------------- list utilities *)
Fixpoint sumZ (l : list Z) : Z := match l with [] => 0 | x :: l' => x + sumZ l' end.
Definition lenZ {A} (l : list A) : Z := Z.of_nat (length l).
Fixpoint mapi_aux {A B} (f : Z -> A -> B) (i : Z) (l : list A) : list B :=
  match l with [] => [] | x :: l' => f i x :: mapi_aux f (i + 1) l' end.
Definition mapi {A B} (f : Z -> A -> B) (l : list A) : list B := mapi_aux f 0 l.
Fixpoint remove_first {A} (eqb : A -> A -> bool) (x : A) (l : list A) : list A :=
  match l with [] => [] | y :: l' => if eqb x y then l' else y :: remove_first eqb x l' end.
Fixpoint rangeZ_aux (n : nat) (lo : Z) : list Z := match n with O => [] | S n' => lo :: rangeZ_aux n' (lo + 1) end.
Definition memZ (x : Z) (l : list Z) : bool := existsb (Z.eqb x) l.
Fixpoint last_opt {A} (l : list A) : option A :=
  match l with [] => None | [x] => Some x | _ :: l' => last_opt l' end.

(* util.find_minimal_distance: index of the first element at strictly minimal distance *)
Fixpoint fmd_aux (e : Z) (l : list Z) (i : Z) (best : option (Z * Z)) : Z :=
  match l with
  | [] => match best with Some (_, bi) => bi | None => 0 end
  | c :: l' =>
      let d := Z.abs (c - e) in
      match best with
      | None => if d =? 0 then i else fmd_aux e l' (i + 1) (Some (d, i))
      | Some (bd, bi) => if d <? bd then (if d =? 0 then i else fmd_aux e l' (i + 1) (Some (d, i)))
                         else fmd_aux e l' (i + 1) best
      end
  end.
Definition find_minimal_distance (e : Z) (l : list Z) : Z := fmd_aux e l 0 None.
Definition nthZ (l : list Z) (i : Z) (d : Z) : Z := nth (Z.to_nat i) l d.
(* the element picked by valid[find_minimal_distance(e, valid)] *)
Definition closest (e : Z) (l : list Z) : Z := nthZ l (find_minimal_distance e l) 0.
