(* C03 (piece level, without the open-end restriction), final part -- any run of valid bars is a call group in the sense
   of C03_full_groups (`group_ok2`): no NOTE_ON sits at its last tick, and either its last bar holds no message at the
   last tick or a note starts inside it.  Hence the piece-level statement for EVERY partition of the bars. *)
From Coq Require Import ZArith List Bool Lia Permutation Sorted.
From Model Require Import Base Util Seq Pairing Tok.
From Proofs Require Import C05_closest C04_sort C04_proofs C07_proofs.
From Proofs Require Import C01_frontend_sig C01_frontend_pipe C01_frontend_pair C01_rest C01_proofs C01_frontend C03_proofs.
From Proofs Require Import C03_piece_norm C03_piece_fe C03_piece_bars C03_piece_clock C03_piece_join C03_piece_groups C03_piece.
From Proofs Require Import C03_full_core C03_full_groups.
Import ListNotations.
Open Scope Z_scope.

(* ================================================================ signatures of one pitch *)
(* every NOTE_ON of a well-formed signature is followed by a strictly later entry (its NOTE_OFF) *)
Lemma srun_on_later s : forall st st', srun st s = Some st' -> sclosed st' = true ->
  forall e, In e s -> s_on e = true -> exists e', In e' s /\ s_time e < s_time e'.
Proof.
  induction s as [|x s IH]; intros st st' Hr Hc e He Hon; [destruct He|].
  cbn [srun] in Hr. destruct (sstep st x) as [st1|] eqn:Es; [|discriminate].
  destruct He as [<-|He].
  - assert (st1 = SOpen (s_time x)) as ->.
    { unfold sstep in Es. rewrite Hon in Es. destruct st as [|a|b]; [now injection Es|discriminate|].
      destruct (b <=? s_time x); [now injection Es|discriminate]. }
    destruct s as [|y s]; [cbn in Hr; injection Hr as <-; discriminate|].
    cbn [srun] in Hr. unfold sstep in Hr. destruct (s_on y); [discriminate|].
    destruct (s_time x <? s_time y) eqn:E; [|discriminate]. apply Z.ltb_lt in E.
    exists y. split; [right; now left|exact E].
  - destruct (IH st1 st' Hr Hc e He Hon) as (e' & He' & Hlt). exists e'. split; [now right|exact Hlt].
Qed.

Lemma sig_ok_on_later s e : sig_ok s = true -> In e s -> s_on e = true -> exists e', In e' s /\ s_time e < s_time e'.
Proof.
  unfold sig_ok. destruct (srun SNone s) as [st|] eqn:E; [|discriminate]. intros Hc. now apply srun_on_later with SNone st.
Qed.

(* a non-empty well-formed signature yields a note *)
Lemma sig_ok_notes_ne n s : sig_ok s = true -> s <> [] -> sig_notes n None s <> [].
Proof.
  unfold sig_ok. destruct s as [|x s]; [congruence|]. intros H _.
  cbn [srun] in H. unfold sstep at 1 in H. destruct (s_on x) eqn:Eon; [|discriminate].
  destruct s as [|y s]; [cbn in H; discriminate|].
  cbn [srun] in H. unfold sstep at 1 in H. destruct (s_on y) eqn:Eoy; [discriminate|].
  cbn [sig_notes]. rewrite Eon, Eoy. discriminate.
Qed.

Lemma sig_notes_onset n s : forall o x, In x (sig_notes n o s) ->
  (exists tv, o = Some tv /\ n_onset x = fst tv) \/ exists e, In e s /\ n_onset x = s_time e.
Proof.
  induction s as [|e s IH]; intros o x H; [destruct H|]. cbn [sig_notes] in H.
  destruct (s_on e).
  - destruct (IH _ _ H) as [(tv & Ht & Hx)|(e' & He' & Hx)].
    + injection Ht as <-. right. exists e. split; [now left|exact Hx].
    + right. exists e'. split; [now right|exact Hx].
  - destruct o as [[t0 v0]|].
    + destruct H as [<-|H]; [left; exists (t0, v0); split; reflexivity|].
      destruct (IH _ _ H) as [(tv & Ht & _)|(e' & He' & Hx)]; [discriminate|]. right. exists e'. split; [now right|exact Hx].
    + destruct (IH _ _ H) as [(tv & Ht & _)|(e' & He' & Hx)]; [discriminate|]. right. exists e'. split; [now right|exact Hx].
Qed.

Lemma timed_psig r : forall cur t m, In (t, m) (timed cur r) -> is_note m = true ->
  In (t, is_on m, m_vel m) (psig (m_note m) cur r).
Proof.
  induction r as [|x r IH]; intros cur t m H Hn; [destruct H|]. cbn [timed psig] in *.
  destruct (is_wait x); [now apply IH|].
  destruct H as [H|H].
  - injection H as <- <-. rewrite Hn, Z.eqb_refl. now left.
  - destruct (is_note x && (m_note m =? m_note x)); [right|]; now apply IH.
Qed.

Lemma notes_onset_nonneg r x : wfr r = true -> In x (notes_of r) -> 0 <= n_onset x.
Proof.
  intros Hw Hx. set (n := n_pitch x).
  assert (Hf : In x (filter (pitch_is n) (notes_of r))).
  { apply filter_In. split; [exact Hx|]. unfold pitch_is, n. apply Z.eqb_refl. }
  rewrite notes_of_pitch in Hf. destruct (sig_notes_onset n _ None x Hf) as [(tv & Ht & _)|(e & He & Hx')]; [discriminate|].
  pose proof (psig_upper n r Hw 0 e He). lia.
Qed.

Lemma timed_all_waits r : (forall m, In m r -> is_wait m = true) -> forall cur, timed cur r = [].
Proof.
  induction r as [|m r IH]; intros H cur; [reflexivity|]. cbn [timed]. rewrite (H m (or_introl eq_refl)).
  apply IH. intros x Hx. apply H. now right.
Qed.

(* ================================================================ the content of one track of a bar *)
Section Content.
  Variables (g : Z) (c : cfg) (cap : Z) (r : list msg).
  Hypothesis Hok : content_ok g c cap r = true.

  Lemma content_on_lt t m : In (t, m) (timed 0 r) -> is_on m = true -> t < cap.
  Proof.
    intros H Hon. destruct (content_ok_parts g c cap r Hok) as (Hw & _ & Hs & Hd & _).
    pose proof (timed_psig r 0 t m H (on_is_note m Hon)) as Hp. rewrite Hon in Hp.
    destruct (sig_ok_on_later _ _ (Hs (m_note m)) Hp eq_refl) as (e' & He' & Hlt).
    pose proof (psig_upper _ r Hw 0 e' He') as Hb. unfold s_time in Hlt at 1. cbn [fst] in Hlt. lia.
  Qed.

  Lemma content_note_msg m : In m r -> is_note m = true -> notes_of r <> [].
  Proof.
    intros Hm Hn. destruct (content_ok_parts g c cap r Hok) as (Hw & _ & Hs & _).
    destruct (In_timed r 0 m Hm (note_not_wait m Hn)) as [t Ht].
    pose proof (timed_psig r 0 t m Ht Hn) as Hp.
    assert (Hne : sig_notes (m_note m) None (psig (m_note m) 0 r) <> []).
    { apply sig_ok_notes_ne; [apply Hs|]. intros E. rewrite E in Hp. destruct Hp. }
    rewrite <- notes_of_pitch in Hne. intros E. rewrite E in Hne. now apply Hne.
  Qed.

  Lemma content_no_notes_open : notes_of r = [] -> timed 0 r = [].
  Proof.
    intros E. apply timed_all_waits. intros m Hm.
    destruct (content_ok_parts g c cap r Hok) as (_ & Hk & _). specialize (Hk m Hm).
    destruct (is_note m) eqn:En; [exfalso; now apply (content_note_msg m Hm En)|]. now rewrite orb_false_r in Hk.
  Qed.
End Content.

(* ================================================================ runs of bars *)
Definition bars_group_ok2 (g : Z) (c : cfg) (nt : nat) (cols : list bar_col) : bool :=
  negb (match cols with [] => true | _ => false end) && forallb (bar_ok g c nt) cols.

Lemma bars_dur_app c a b : bars_dur c (a ++ b) = bars_dur c a + bars_dur c b.
Proof. induction a as [|nd a IH]; [reflexivity|]. cbn [app bars_dur]. rewrite IH. lia. Qed.

Lemma sigs_of_app a b : sigs_of (a ++ b) = sigs_of a ++ sigs_of b.
Proof. apply map_app. Qed.

Lemma last_cap_snoc c sg nd : last_cap c (sg ++ [nd]) = bar_cap c (fst nd) (snd nd).
Proof. unfold last_cap. rewrite last_last. destruct sg; reflexivity. Qed.

Section Track2.
  Variables (g : Z) (c : cfg) (nt : nat).
  Hypothesis Hg : 0 < g.

  (* no NOTE_ON at the last tick of a run of bars *)
  Lemma track_on_lt i cols : (i < nt)%nat -> forallb (bar_ok g c nt) cols = true -> forall cur tm,
    In tm (timed cur (track_of cols i)) -> is_on (snd tm) = true -> fst tm < cur + bars_dur c (sigs_of cols).
  Proof.
    intros Hi. induction cols as [|b cols IH]; intros H cur tm Htm Hon; [destruct Htm|].
    cbn [forallb] in H. apply andb_prop in H. destruct H as [Hb H].
    destruct (bar_content g c nt i Hg Hi b Hb) as (_ & Hcap & _ & Hc).
    assert (Hpos : 0 <= bars_dur c (sigs_of cols)).
    { apply bars_dur_nonneg. apply Forall_forall. intros nd Hnd. unfold sigs_of in Hnd. apply in_map_iff in Hnd.
      destruct Hnd as (b' & <- & Hb'). rewrite forallb_forall in H. now destruct (bar_content g c nt i Hg Hi b' (H b' Hb')) as (_ & Hp & _). }
    unfold track_of in Htm. cbn [map concat] in Htm. fold (track_of cols i) in Htm.
    rewrite timed_app, (bar_rel_dur g c nt i Hg Hi b Hb) in Htm. cbn [sigs_of map bars_dur]. fold (sigs_of cols). fold (bc_cap c b).
    apply in_app_or in Htm. destruct Htm as [Htm|Htm].
    - unfold bar_rel in Htm. cbn [timed is_wait mtype_eqb mk_ts m_type mtype_rank Z.eqb Pos.eqb] in Htm.
      destruct Htm as [<-|Htm]; [discriminate|].
      rewrite <- (Z.add_0_l cur), timed_shift in Htm. apply in_map_iff in Htm. destruct Htm as ([t0 m0] & <- & Htm0).
      cbn [fst snd] in *. pose proof (content_on_lt g c _ _ Hc t0 m0 Htm0 Hon). lia.
    - specialize (IH H _ _ Htm Hon). lia.
  Qed.

  (* the end of a run of bars: open, or touched by a note of its last bar *)
  Lemma bars_end front b :
    Z.of_nat nt = c_ntracks c -> forallb (bar_ok g c nt) (front ++ [b]) = true ->
    group_open c (sigs_of (front ++ [b])) (join nt (front ++ [b])) = true \/
    group_touched c (sigs_of (front ++ [b])) (join nt (front ++ [b])) = true.
  Proof.
    intros Hnt H. pose proof H as H'. rewrite forallb_app in H'. apply andb_prop in H'. destruct H' as [Hf Hb].
    cbn [forallb] in Hb. rewrite andb_true_r in Hb.
    destruct (existsb (fun r => negb (match notes_of r with [] => true | _ => false end)) (bc_cont b)) eqn:Ex.
    - (* a note in the last bar *)
      right. apply existsb_exists in Ex. destruct Ex as (r & Hr & Hne).
      destruct (nth_In_ex (bc_cont b) r [] Hr) as (j & Hj & Hnth).
      assert (Hlen : length (bc_cont b) = nt).
      { unfold bar_ok in Hb. apply andb_prop in Hb. destruct Hb as [Hb _]. apply andb_prop in Hb. destruct Hb as [Hb _].
        now apply Nat.eqb_eq in Hb. }
      assert (Hjn : (j < nt)%nat) by lia.
      destruct (notes_of r) as [|x xs] eqn:En; [discriminate|].
      destruct (bar_content g c nt j Hg Hjn b Hb) as (_ & Hcap & _ & Hc). rewrite Hnth in Hc.
      destruct (content_ok_parts _ _ _ _ Hc) as (Hw & _).
      assert (Hx0 : 0 <= n_onset x) by (apply (notes_onset_nonneg r x Hw); rewrite En; now left).
      unfold group_touched. apply existsb_exists. exists (track_of (front ++ [b]) j). split.
      + unfold join. apply in_map. apply in_seq. lia.
      + apply existsb_exists. exists (shiftn (bars_dur c (sigs_of front)) x). split.
        * eapply Permutation_in; [apply Permutation_sym, (track_notes_of g c nt j Hg Hjn _ H)|].
          rewrite (bars_notes_app c j front [b] 0). apply in_or_app. right. cbn [bars_notes]. apply in_or_app. left.
          rewrite Z.add_0_l. apply in_map. rewrite Hnth, En. now left.
        * apply Z.leb_le. rewrite sigs_of_app, bars_dur_app. cbn [sigs_of map]. rewrite last_cap_snoc. cbn [bars_dur].
          destruct x as [[[p t] t'] v]. unfold n_onset, shiftn in *. cbn [fst snd] in *. lia.
    - (* no note in the last bar: nothing but waits *)
      left. unfold group_open. apply forallb_forall. intros r Hr. destruct (join_In nt _ r Hr) as (i & Hi & ->).
      apply forallb_forall. intros tm Htm. apply Z.ltb_lt.
      assert (Ho : open_bar c (last (front ++ [b]) dummy_bar) = true).
      { rewrite last_last. unfold open_bar. apply forallb_forall. intros r0 Hr0.
        destruct (nth_In_ex (bc_cont b) r0 [] Hr0) as (j & Hj & Hnth).
        assert (Hlen : length (bc_cont b) = nt).
        { unfold bar_ok in Hb. apply andb_prop in Hb. destruct Hb as [Hb' _]. apply andb_prop in Hb'. destruct Hb' as [Hb' _].
          now apply Nat.eqb_eq in Hb'. }
        destruct (bar_content g c nt j Hg ltac:(lia) b Hb) as (_ & _ & _ & Hc). rewrite Hnth in Hc.
        assert (En : notes_of r0 = []).
        { destruct (notes_of r0) eqn:E; [reflexivity|]. exfalso.
          assert (existsb (fun r => negb (match notes_of r with [] => true | _ => false end)) (bc_cont b) = true); [|congruence].
          apply existsb_exists. exists r0. split; [exact Hr0|]. now rewrite E. }
        rewrite (content_no_notes_open g c _ _ Hc En). reflexivity. }
      assert (Hne : front ++ [b] <> []) by (destruct front; discriminate).
      pose proof (track_open g c nt i Hg Hi (front ++ [b]) Hne H Ho 0 tm Htm). lia.
  Qed.
End Track2.

Lemma bars_group2 g c nt cols :
  valid_cfg g c = true -> Z.of_nat nt = c_ntracks c -> bars_group_ok2 g c nt cols = true ->
  group_ok2 g c (sigs_of cols) (join nt cols) = true.
Proof.
  intros Hc Hnt H. destruct (valid_cfg_parts g c Hc) as (_ & Hg & _).
  unfold bars_group_ok2 in H. apply andb_prop in H. destruct H as [Hne Hb].
  assert (Hne' : cols <> []) by (destruct cols; [discriminate|discriminate]).
  assert (Hsv : forallb (sig_valid g c) (sigs_of cols) = true).
  { apply forallb_forall. intros nd Hnd. unfold sigs_of in Hnd. apply in_map_iff in Hnd. destruct Hnd as (b & <- & Hb').
    rewrite forallb_forall in Hb. specialize (Hb b Hb'). unfold bar_ok in Hb. apply andb_prop in Hb. destruct Hb as [Hb _].
    now apply andb_prop in Hb. }
  assert (HT : 0 < bars_dur c (sigs_of cols)).
  { pose proof (sig_valid_pos g c _ Hsv) as Hp. destruct cols as [|b cols]; [congruence|].
    cbn [sigs_of map bars_dur] in *. inversion Hp as [|? ? H1 H2]; subst. pose proof (bars_dur_nonneg c _ H2). lia. }
  unfold group_ok2. apply andb_true_intro. split; [apply andb_true_intro; split; [apply andb_true_intro; split;
    [apply andb_true_intro; split; [apply andb_true_intro; split|]|]|]|].
  - apply Z.eqb_eq. unfold lenZ, join. rewrite map_length, seq_length. exact Hnt.
  - now apply Z.ltb_lt.
  - exact Hsv.
  - apply forallb_forall. intros r Hr. destruct (join_In nt cols r Hr) as (i & Hi & ->).
    unfold gbar_track2. rewrite (track_gtrack g c nt i Hg Hi cols Hb). cbn [andb].
    unfold ev_rel. rewrite (track_tsv g c nt i Hg Hi cols Hb 0), (track_dur g c nt i Hg Hi cols Hb), Z.eqb_refl.
    assert (E : tsl_eqb (bar_tsl c 0 (sigs_of cols)) (bar_tsl c 0 (sigs_of cols)) = true).
    { induction (bar_tsl c 0 (sigs_of cols)) as [|x l IH]; [reflexivity|]. cbn [tsl_eqb]. now rewrite !Z.eqb_refl, IH. }
    rewrite E. cbn [andb]. apply forallb_forall. intros tm Htm.
    destruct (is_on (snd tm)) eqn:Eon; [|reflexivity]. cbn [negb orb]. apply Z.ltb_lt.
    pose proof (track_on_lt g c nt Hg i cols Hi Hb 0 tm Htm Eon). lia.
  - apply forallb_forall. intros r Hr. destruct (join_In nt cols r Hr) as (i & Hi & ->).
    apply forallb_forall. intros x Hx.
    eapply Permutation_in in Hx; [|apply (track_notes_of g c nt i Hg Hi cols Hb)].
    apply (bars_notes_ok g c nt i Hg Hi cols Hb 0 x); [apply Z.divide_0_r|exact Hx].
  - destruct (exists_last Hne') as (front & b & ->).
    destruct (bars_end g c nt Hg front b Hnt Hb) as [Ho|Ht]; [now rewrite Ho|rewrite Ht; apply orb_true_r].
Qed.

(* ================================================================ the piece, any partition *)
Definition parts_ok2 (g : Z) (c : cfg) (nt : nat) (parts : list (list bar_col)) : bool :=
  negb (match parts with [] => true | _ => false end) && forallb (bars_group_ok2 g c nt) parts.

Lemma part_groups_ok2 g c nt parts :
  valid_cfg g c = true -> Z.of_nat nt = c_ntracks c -> forallb (bars_group_ok2 g c nt) parts = true ->
  groups_ok2 g c (part_groups nt parts) = true.
Proof.
  intros Hc Hnt. induction parts as [|cols parts IH]; intros H; [reflexivity|]. cbn [forallb] in H.
  apply andb_prop in H. destruct H as [H1 H2]. cbn [part_groups map groups_ok2 forallb fst snd].
  rewrite (bars_group2 g c nt cols Hc Hnt H1). apply (IH H2).
Qed.

Lemma whole_ok2 g c nt parts : parts_ok2 g c nt parts = true -> bars_group_ok2 g c nt (concat parts) = true.
Proof.
  unfold parts_ok2. intros H. apply andb_prop in H. destruct H as [Hne H].
  destruct parts as [|cols parts]; [discriminate|]. clear Hne.
  assert (Hall : forallb (bar_ok g c nt) (concat (cols :: parts)) = true).
  { revert H. generalize (cols :: parts). induction l as [|x l IH]; intros H; [reflexivity|]. cbn [forallb concat] in *.
    apply andb_prop in H. destruct H as [H1 H2]. unfold bars_group_ok2 in H1. apply andb_prop in H1. destruct H1 as [_ H1].
    rewrite forallb_app, H1. now apply IH. }
  cbn [forallb] in H. apply andb_prop in H. destruct H as [H1 _]. unfold bars_group_ok2 in *.
  rewrite Hall, andb_true_r. apply andb_prop in H1. destruct H1 as [H1 _]. cbn [concat]. destruct cols; [discriminate|reflexivity].
Qed.

(* The property at piece level, for EVERY piece given bar by bar (valid bars: `bar_ok`) and EVERY partition of its
   bar sequence into non-empty consecutive call groups. *)
Theorem C03_piece_full g c nt parts :
  valid_cfg g c = true -> Z.of_nat nt = c_ntracks c -> parts_ok2 g c nt parts = true ->
  exists toks1 st1 seqs1 toks2 st2 seqs2,
    tokenise_many c (tstate0 c) (map (join nt) parts) = Ok (toks1, st1) /\ detokenise c toks1 = Ok seqs1 /\
    tokenise c (tstate0 c) (join nt (concat parts)) = Ok (toks2, st2) /\ detokenise c toks2 = Ok seqs2 /\
    length seqs1 = nt /\ length seqs2 = nt /\
    t_time st1 = bars_dur c (sigs_of (concat parts)) /\ t_time st2 = bars_dur c (sigs_of (concat parts)) /\
    t_tbar st1 = 0 /\ t_tbar st2 = 0 /\
    forall i, (i < nt)%nat ->
      Permutation (filter is_note (nth i seqs1 [])) (flat_map (note_msgs c) (bars_notes c i 0 (concat parts))) /\
      Permutation (filter is_note (nth i seqs2 [])) (flat_map (note_msgs c) (bars_notes c i 0 (concat parts))) /\
      Permutation (filter is_cap (nth i seqs1 [])) (caps_msgs (bar_ends c 0 (sigs_of (concat parts)))) /\
      Permutation (filter is_cap (nth i seqs2 [])) (caps_msgs (bar_ends c 0 (sigs_of (concat parts)))) /\
      Permutation (filter rel (nth i seqs1 [])) (filter rel (nth i seqs2 [])).
Proof.
  intros Hc Hnt Hp. destruct (valid_cfg_parts g c Hc) as (_ & Hg & _).
  pose proof Hp as Hp'. unfold parts_ok2 in Hp'. apply andb_prop in Hp'. destruct Hp' as [_ Hparts].
  pose proof (part_groups_ok2 g c nt parts Hc Hnt Hparts) as Hok1.
  pose proof (whole_ok2 g c nt parts Hp) as Hw.
  assert (Hok2 : groups_ok2 g c (part_groups nt [concat parts]) = true).
  { apply part_groups_ok2; [exact Hc|exact Hnt|]. cbn [forallb]. now rewrite Hw. }
  destruct (C03_groups_roundtrip_full g c _ Hc Hok1) as (toks1 & st1 & seqs1 & A1 & _ & _ & A2 & A2' & A3 & A4 & A5).
  destruct (C03_groups_roundtrip_full g c _ Hc Hok2) as (toks2 & st2 & seqs2 & B1 & _ & _ & B2 & B2' & B3 & B4 & B5).
  rewrite all_sigs_parts in A2, B2, A5, B5. cbn [concat] in B2, B5. rewrite app_nil_r in B2, B5.
  exists toks1, st1, seqs1, toks2, st2, seqs2.
  rewrite part_calls in A1, B1. split; [exact A1|]. split; [exact A3|].
  split.
  { cbn [map] in B1. rewrite C19_tokenise.tokenise_many_one in B1.
    destruct (tokenise c (tstate0 c) (join nt (concat parts))) as [[t s]|]; cbn [rbind fst snd] in B1; [exact B1|discriminate]. }
  split; [exact B3|]. split; [lia|]. split; [lia|]. split; [exact A2|]. split; [exact B2|]. split; [exact A2'|].
  split; [exact B2'|]. intros i Hi.
  destruct (A5 i ltac:(lia)) as (AN & AC). destruct (B5 i ltac:(lia)) as (BN & BC).
  assert (Hb1 : forallb (bars_group_ok g c nt) [] = true) by reflexivity.
  assert (Q : forall ps, forallb (bars_group_ok2 g c nt) ps = true -> forall s,
            Permutation (glued_notes i s (group_lens c (part_groups nt ps)) (group_notes_of i (part_groups nt ps)))
                        (bars_notes c i s (concat ps))).
  { induction ps as [|cols ps IH]; intros H s; [constructor|]. cbn [forallb] in H. apply andb_prop in H.
    destruct H as [H1 H2].
    assert (Hb : forallb (bar_ok g c nt) cols = true) by (unfold bars_group_ok2 in H1; now apply andb_prop in H1).
    cbn [part_groups map group_lens group_notes_of glued_notes fst snd concat]. rewrite (bars_notes_app c i cols _ s).
    apply Permutation_app.
    - rewrite (join_nth nt cols i Hi). eapply perm_trans; [apply Permutation_map, (track_notes_of g c nt i Hg Hi cols Hb)|].
      rewrite (bars_notes_shift c nt i Hi). apply Permutation_refl.
    - apply (IH H2). }
  assert (P1 : Permutation (filter is_note (nth i seqs1 [])) (flat_map (note_msgs c) (bars_notes c i 0 (concat parts)))).
  { eapply perm_trans; [exact AN|]. apply Permutation_flat_map. apply (Q parts Hparts 0). }
  assert (P2 : Permutation (filter is_note (nth i seqs2 [])) (flat_map (note_msgs c) (bars_notes c i 0 (concat parts)))).
  { eapply perm_trans; [exact BN|]. apply Permutation_flat_map.
    pose proof (Q [concat parts]) as Q'. cbn [forallb concat] in Q'. rewrite app_nil_r in Q'. apply Q'. now rewrite Hw. }
  split; [exact P1|]. split; [exact P2|]. split; [exact AC|]. split; [exact BC|].
  eapply perm_trans; [apply rel_split|]. eapply perm_trans; [|apply Permutation_sym, rel_split].
  apply Permutation_app.
  - eapply perm_trans; [exact P1|]. now apply Permutation_sym.
  - eapply perm_trans; [exact AC|]. now apply Permutation_sym.
Qed.

(* ================================================================ ties to the Bar constructor, non-vacuity *)
From Model Require Bars.

(* the tokeniser's bar capacity is the Bar constructor's when the configuration uses the library's PPQN (make_cfg) *)
Lemma bar_cap_capacity c num den : c_ppqn c = PPQN -> bar_cap c num den = Bars.bar_capacity num den.
Proof. intros H. unfold bar_cap, Bars.bar_capacity. rewrite H. f_equal. ring. Qed.

(* `bar_rel` is what Bar.__init__ leaves: built from the bare content (padded, signature message first) *)
Example ex_bar_init :
  Bars.bar_init [xon 60 100; xw 24; xoff 60] 4 4 = Ok (bar_rel ex_b1 0) /\
  Bars.bar_init (nth 1 (bc_cont ex_b1) []) 4 4 = Ok (bar_rel ex_b1 1) /\
  Bars.bar_init (nth 0 (bc_cont ex_b3) []) 3 4 = Ok (bar_rel ex_b3 0).
Proof. vm_compute. repeat split; reflexivity. Qed.

(* bars that end on a NOTE_OFF at their last tick (no INTERNAL cap from the front end): covered by the full theorem,
   excluded by the open-ended one *)
Definition ex_c1 : bar_col := (4, 4, [[xon 60 100; xw 24; xoff 60; xw 72]; [xw 60; xon 61 50; xw 36; xoff 61]]).
Definition ex_c3 : bar_col := (3, 4, [[xw 36; xon 60 100; xw 36; xoff 60]; [xw 72]]).

Example ex_parts_ok2 :
  parts_ok2 2 cfg_ex 2 [[ex_c1]; [ex_b2; ex_c3]] = true /\ parts_ok2 2 cfg_ex 2 [[ex_c1; ex_b2]; [ex_c3]] = true /\
  parts_ok2 2 cfg_ex 2 [[ex_c1]; [ex_b2]; [ex_c3]] = true /\ parts_ok 2 cfg_ex 2 [[ex_c1]; [ex_b2; ex_c3]] = false /\
  parts_ok2 2 cfg_ex 2 [[ex_b1]; [ex_b2; ex_b3]] = true.
Proof. vm_compute. repeat split; reflexivity. Qed.

Example ex_closed_tokens :
  match tokenise_many cfg_ex (tstate0 cfg_ex) (map (join 2) [[ex_c1]; [ex_b2; ex_c3]]),
        tokenise cfg_ex (tstate0 cfg_ex) (join 2 [ex_c1; ex_b2; ex_c3]) with
  | Ok (t1, s1), Ok (t2, s2) => (length t1, length t2, t_time s1, t_time s2, t_tbar s1, t_tbar s2)
  | _, _ => (O, O, 0, 0, 0, 0)
  end = (27%nat, 26%nat, 264, 264, 0, 0).
Proof. vm_compute. reflexivity. Qed.

Example ex_groups_ok2 :
  groups_ok2 2 cfg_ex (part_groups 2 [[ex_c1]; [ex_b2; ex_c3]]) = true /\
  groups_ok 2 cfg_ex (part_groups 2 [[ex_c1]; [ex_b2; ex_c3]]) = false /\
  calls_len cfg_ex (group_calls (part_groups 2 [[ex_c1]; [ex_b2; ex_c3]])) = true /\
  chunks_ok 2 cfg_ex (rclk0 cfg_ex) (map capped (group_cevents cfg_ex (part_groups 2 [[ex_c1]; [ex_b2; ex_c3]]))) = true /\
  chunks_ok 2 cfg_ex (rclk0 cfg_ex) (map fst (group_cevents cfg_ex (part_groups 2 [[ex_c1]; [ex_b2; ex_c3]]))) = false.
Proof. vm_compute. repeat split; reflexivity. Qed.
