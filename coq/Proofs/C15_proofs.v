(* C15 -- merge: the merged absolute list is the sorted union; its sort-key sequence (and, when equal keys mean equal
   messages, the list itself) does not depend on the order of merging; duration; sounding sets before normalise. *)
From Coq Require Import ZArith List Bool Lia Permutation.
From Model Require Import Base Seq Pairing Store.
From Proofs Require Import C17_proofs.
Import ListNotations.
Open Scope Z_scope.

(* ---------------------------------------------------------------- sort_abs is a permutation *)
Lemma ins_sorted_perm x l : Permutation (ins_sorted x l) (x :: l).
Proof.
  induction l as [|y l IH]; [reflexivity|]. cbn [ins_sorted]. destruct (key_le x y); [reflexivity|].
  rewrite IH. apply perm_swap.
Qed.
Lemma sort_abs_perm l : Permutation (sort_abs l) l.
Proof. induction l as [|x l IH]; [reflexivity|]. cbn [sort_abs]. rewrite ins_sorted_perm. now apply perm_skip. Qed.

(* ---------------------------------------------------------------- the sort key *)
Definition skey (m : msg) : Z * Z * Z * Z := (m_time m, m_chan m, mtype_rank (m_type m), m_note m).

Lemma key_le_spec a b :
  key_le a b = true <->
  (m_time a < m_time b \/ (m_time a = m_time b /\
   (m_chan a < m_chan b \/ (m_chan a = m_chan b /\
    (mtype_rank (m_type a) < mtype_rank (m_type b) \/ (mtype_rank (m_type a) = mtype_rank (m_type b) /\
     m_note a <= m_note b)))))).
Proof.
  unfold key_le.
  destruct (m_time a <? m_time b) eqn:T1; [apply Z.ltb_lt in T1|apply Z.ltb_ge in T1]; [split; [lia|reflexivity]|].
  destruct (m_time b <? m_time a) eqn:T2; [apply Z.ltb_lt in T2|apply Z.ltb_ge in T2]; [split; [discriminate|lia]|].
  destruct (m_chan a <? m_chan b) eqn:C1; [apply Z.ltb_lt in C1|apply Z.ltb_ge in C1]; [split; [lia|reflexivity]|].
  destruct (m_chan b <? m_chan a) eqn:C2; [apply Z.ltb_lt in C2|apply Z.ltb_ge in C2]; [split; [discriminate|lia]|].
  destruct (mtype_rank (m_type a) <? mtype_rank (m_type b)) eqn:R1; [apply Z.ltb_lt in R1|apply Z.ltb_ge in R1];
    [split; [lia|reflexivity]|].
  destruct (mtype_rank (m_type b) <? mtype_rank (m_type a)) eqn:R2; [apply Z.ltb_lt in R2|apply Z.ltb_ge in R2];
    [split; [discriminate|lia]|].
  rewrite Z.leb_le. lia.
Qed.

Lemma key_le_trans a b c : key_le a b = true -> key_le b c = true -> key_le a c = true.
Proof. rewrite !key_le_spec. lia. Qed.

Lemma key_le_antisym a b : key_le a b = true -> key_le b a = true -> skey a = skey b.
Proof.
  rewrite !key_le_spec. unfold skey. intros H1 H2.
  assert (m_time a = m_time b) by lia. assert (m_chan a = m_chan b) by lia.
  assert (mtype_rank (m_type a) = mtype_rank (m_type b)) by lia. assert (m_note a = m_note b) by lia.
  congruence.
Qed.

Lemma key_le_skey a b a' b' : skey a = skey a' -> skey b = skey b' -> key_le a b = key_le a' b'.
Proof. unfold skey, key_le. intros H1 H2. injection H1 as -> -> -> ->. injection H2 as -> -> -> ->. reflexivity. Qed.

Lemma key_le_time a b : key_le a b = true -> m_time a <= m_time b.
Proof. rewrite key_le_spec. lia. Qed.

(* ---------------------------------------------------------------- sorted lists: head below everything *)
Lemma sortedb_tail x l : sortedb (x :: l) = true -> sortedb l = true.
Proof. cbn [sortedb]. intros H. now apply andb_prop in H as [_ H]. Qed.

Lemma sortedb_head_le x l : sortedb (x :: l) = true -> forall y, In y l -> key_le x y = true.
Proof.
  revert x. induction l as [|z l IH]; intros x H y Hy; [contradiction|].
  cbn [sortedb] in H. apply andb_prop in H as [H1 H2]. destruct Hy as [<-|Hy]; [exact H1|].
  eapply key_le_trans; [exact H1|]. apply IH; [exact H2|exact Hy].
Qed.

(* a sorted list is determined by its multiset, as soon as two members with equal standing are equal *)
Lemma sorted_unique (l1 : list msg) : forall l2,
  sortedb l1 = true -> sortedb l2 = true -> Permutation l1 l2 ->
  (forall x y, In x l1 -> In y l1 -> key_le x y = true -> key_le y x = true -> x = y) ->
  l1 = l2.
Proof.
  induction l1 as [|x l1 IH]; intros l2 S1 S2 P A.
  - apply Permutation_nil in P. now subst.
  - destruct l2 as [|y l2]; [apply Permutation_sym, Permutation_nil in P; discriminate|].
    assert (Hy : In y (x :: l1)) by (eapply Permutation_in; [apply Permutation_sym; exact P|now left]).
    assert (Hx : In x (y :: l2)) by (eapply Permutation_in; [exact P|now left]).
    assert (Exy : x = y).
    { destruct Hy as [Hy|Hy]; [exact Hy|]. destruct Hx as [Hx|Hx]; [now symmetry|].
      apply A; [now left|now right| |].
      - eapply sortedb_head_le; eauto.
      - eapply sortedb_head_le; eauto. }
    subst y. f_equal. apply IH.
    + eapply sortedb_tail; eauto.
    + eapply sortedb_tail; eauto.
    + eapply Permutation_cons_inv; eauto.
    + intros a b Ha Hb. apply A; now right.
Qed.

(* sortedness only depends on the keys *)
Lemma sortedb_map_key (f : msg -> msg) (l : list msg) :
  (forall m, skey (f m) = skey m) -> sortedb (map f l) = sortedb l.
Proof.
  intros Hf. induction l as [|x l IH]; [reflexivity|].
  cbn [map sortedb]. fold (map f l). rewrite IH. f_equal.
  destruct l as [|y l]; [reflexivity|]. cbn [map]. apply key_le_skey; apply Hf.
Qed.

(* messages carrying just their sort key *)
Definition key_msg (m : msg) : msg :=
  mkmsg (m_type m) (m_chan m) (m_time m) false (m_note m) 0 0 0 0 0 None.
Lemma skey_key_msg m : skey (key_msg m) = skey m.
Proof. reflexivity. Qed.
Lemma mtype_rank_inj a b : mtype_rank a = mtype_rank b -> a = b.
Proof. destruct a, b; cbn; congruence. Qed.
Lemma key_msg_of_skey a b : skey a = skey b -> key_msg a = key_msg b.
Proof. unfold skey, key_msg. intros H. injection H as H1 H2 H3 H4. apply mtype_rank_inj in H3. congruence. Qed.
Lemma skey_of_key_msg a b : key_msg a = key_msg b -> skey a = skey b.
Proof. intros H. rewrite <- (skey_key_msg a), <- (skey_key_msg b). now rewrite H. Qed.

(* generic form: any view f of the messages that keeps the sort key and is determined by it among the members *)
Lemma sorted_view_unique (f : msg -> msg) (l1 l2 : list msg) :
  (forall m, skey (f m) = skey m) ->
  sortedb l1 = true -> sortedb l2 = true -> Permutation l1 l2 ->
  (forall x y, In x l1 -> In y l1 -> skey x = skey y -> f x = f y) ->
  map f l1 = map f l2.
Proof.
  intros Hf S1 S2 P A. apply sorted_unique.
  - now rewrite sortedb_map_key.
  - now rewrite sortedb_map_key.
  - now apply Permutation_map.
  - intros x' y' Hx Hy L1 L2. apply in_map_iff in Hx as (x & <- & Hx). apply in_map_iff in Hy as (y & <- & Hy).
    apply A; auto. rewrite <- (Hf x), <- (Hf y). now apply key_le_antisym.
Qed.

Lemma sorted_keys_unique (l1 l2 : list msg) :
  sortedb l1 = true -> sortedb l2 = true -> Permutation l1 l2 -> map skey l1 = map skey l2.
Proof.
  intros S1 S2 P.
  assert (H : map key_msg l1 = map key_msg l2).
  { apply sorted_view_unique; auto. intros x y _ _. apply key_msg_of_skey. }
  assert (E : forall l, map skey l = map skey (map key_msg l)).
  { intros l. rewrite map_map. apply map_ext. reflexivity. }
  rewrite (E l1), (E l2). now rewrite H.
Qed.

(* ---------------------------------------------------------------- C15_perm *)
Lemma C15_perm (a : list msg) (others : list (list msg)) :
  Permutation (merge_abs a others) (a ++ concat others) /\ sortedb (merge_abs a others) = true.
Proof. unfold merge_abs. split; [apply sort_abs_perm|apply sort_abs_sorted]. Qed.

(* sortedb is adjacent-pair sortedness; it implies that every earlier element is below every later one *)
Lemma sortedb_strong l : sortedb l = true ->
  forall i j x y, (i < j)%nat -> nth_error l i = Some x -> nth_error l j = Some y -> key_le x y = true.
Proof.
  induction l as [|z l IH]; intros S i j x y Hij Hi Hj; [destruct i; discriminate|].
  destruct j as [|j]; [lia|]. cbn [nth_error] in Hj. destruct i as [|i].
  - cbn in Hi. injection Hi as <-. eapply sortedb_head_le; eauto. eapply nth_error_In; eauto.
  - cbn [nth_error] in Hi. apply (IH (sortedb_tail _ _ S) i j x y); [lia|exact Hi|exact Hj].
Qed.

(* ---------------------------------------------------------------- C15_order_projection *)
Lemma C15_order_projection (a b : list msg) (o1 o2 : list (list msg)) :
  Permutation (a ++ concat o1) (b ++ concat o2) ->
  Permutation (merge_abs a o1) (merge_abs b o2) /\
  map skey (merge_abs a o1) = map skey (merge_abs b o2).
Proof.
  intros P. unfold merge_abs.
  assert (P' : Permutation (sort_abs (a ++ concat o1)) (sort_abs (b ++ concat o2))).
  { rewrite !sort_abs_perm. exact P. }
  split; [exact P'|]. apply sorted_keys_unique; auto using sort_abs_sorted.
Qed.

Lemma Permutation_concat {A} (l1 l2 : list (list A)) : Permutation l1 l2 -> Permutation (concat l1) (concat l2).
Proof.
  induction 1 as [|x l l' _ IH|x y l|l l' l'' _ IH1 _ IH2]; cbn [concat].
  - reflexivity.
  - now apply Permutation_app_head.
  - rewrite !app_assoc. apply Permutation_app_tail, Permutation_app_comm.
  - now rewrite IH1.
Qed.

(* the two ways of re-ordering a merge: permuting the arguments, swapping self with an argument *)
Lemma merge_inputs_perm (a : list msg) (o1 o2 : list (list msg)) :
  Permutation o1 o2 -> Permutation (a ++ concat o1) (a ++ concat o2).
Proof. intros P. apply Permutation_app_head. now apply Permutation_concat. Qed.
Lemma merge_inputs_swap (a b : list msg) (o : list (list msg)) :
  Permutation (a ++ concat (b :: o)) (b ++ concat (a :: o)).
Proof. cbn [concat]. rewrite !app_assoc. apply Permutation_app_tail, Permutation_app_comm. Qed.

Lemma C15_order_args (a : list msg) (o1 o2 : list (list msg)) :
  Permutation o1 o2 -> map skey (merge_abs a o1) = map skey (merge_abs a o2).
Proof. intros P. apply C15_order_projection. now apply merge_inputs_perm. Qed.
Lemma C15_order_self (a b : list msg) (o : list (list msg)) :
  map skey (merge_abs a (b :: o)) = map skey (merge_abs b (a :: o)).
Proof. apply C15_order_projection. apply merge_inputs_swap. Qed.

(* boolean hypothesis: within l, the view f of a message is determined by its sort key *)
Definition skey_eqb (x y : msg) : bool :=
  Z.eqb (m_time x) (m_time y) && Z.eqb (m_chan x) (m_chan y) &&
  Z.eqb (mtype_rank (m_type x)) (mtype_rank (m_type y)) && Z.eqb (m_note x) (m_note y).
Lemma skey_eqb_spec x y : skey_eqb x y = true <-> skey x = skey y.
Proof.
  unfold skey_eqb, skey. rewrite !andb_true_iff, !Z.eqb_eq. split.
  - intros [[[-> ->] ->] ->]. reflexivity.
  - intros H. injection H as -> -> -> ->. auto.
Qed.

Lemma msg_eqb_eq (a b : msg) : msg_eqb a b = true <-> a = b.
Proof.
  unfold msg_eqb. rewrite !andb_true_iff, !Z.eqb_eq, mtype_eqb_eq, okey_eqb_eq, Bool.eqb_true_iff.
  destruct a, b; cbn. split.
  - intros [[[[[[[[[[-> ->] ->] ->] ->] ->] ->] ->] ->] ->] ->]. reflexivity.
  - intros H. injection H as -> -> -> -> -> -> -> -> -> -> ->. repeat split.
Qed.

Definition key_determines (f : msg -> msg) (l : list msg) : bool :=
  forallb (fun x => forallb (fun y => negb (skey_eqb x y) || msg_eqb (f x) (f y)) l) l.
Lemma key_determines_spec f l :
  key_determines f l = true -> forall x y, In x l -> In y l -> skey x = skey y -> f x = f y.
Proof.
  unfold key_determines. rewrite forallb_forall. intros H x y Hx Hy E.
  specialize (H x Hx). rewrite forallb_forall in H. specialize (H y Hy).
  apply skey_eqb_spec in E. rewrite E in H. cbn in H. now apply msg_eqb_eq.
Qed.
Lemma key_determines_perm f l l' : Permutation l l' -> key_determines f l = true ->
  forall x y, In x l' -> In y l' -> skey x = skey y -> f x = f y.
Proof.
  intros P H x y Hx Hy. apply (key_determines_spec f l H);
    (eapply Permutation_in; [apply Permutation_sym; exact P|assumption]).
Qed.

(* if the sort key determines the view f of the messages of the union, the merged lists agree under f *)
Lemma C15_order_view (f : msg -> msg) (a b : list msg) (o1 o2 : list (list msg)) :
  (forall m, skey (f m) = skey m) ->
  Permutation (a ++ concat o1) (b ++ concat o2) ->
  key_determines f (a ++ concat o1) = true ->
  map f (merge_abs a o1) = map f (merge_abs b o2).
Proof.
  intros Hf P K. unfold merge_abs. apply sorted_view_unique; auto using sort_abs_sorted.
  - rewrite !sort_abs_perm. exact P.
  - apply (key_determines_perm f (a ++ concat o1)); [apply Permutation_sym, sort_abs_perm|exact K].
Qed.

(* in particular: no two different messages with the same sort key => the merged lists are literally equal *)
Lemma C15_order_full (a b : list msg) (o1 o2 : list (list msg)) :
  Permutation (a ++ concat o1) (b ++ concat o2) ->
  key_determines (fun m => m) (a ++ concat o1) = true ->
  merge_abs a o1 = merge_abs b o2.
Proof.
  intros P K. rewrite <- (map_id (merge_abs a o1)), <- (map_id (merge_abs b o2)).
  now apply (C15_order_view (fun m => m)).
Qed.

(* ---------------------------------------------------------------- C15_duration *)
Fixpoint tsortedb (l : list msg) : bool :=
  match l with
  | [] => true
  | x :: l' => match l' with [] => true | y :: _ => m_time x <=? m_time y end && tsortedb l'
  end.

Lemma sortedb_tsortedb l : sortedb l = true -> tsortedb l = true.
Proof.
  induction l as [|x l IH]; [reflexivity|]. cbn [sortedb tsortedb]. intros H. apply andb_prop in H as [H1 H2].
  rewrite (IH H2), andb_true_r. destruct l as [|y l]; [reflexivity|]. apply Z.leb_le. now apply key_le_time.
Qed.

Lemma last_opt_cons {A} (x y : A) l : last_opt (x :: y :: l) = last_opt (y :: l).
Proof. reflexivity. Qed.

Lemma last_opt_in {A} (l : list A) m : last_opt l = Some m -> In m l.
Proof.
  induction l as [|x l IH]; [discriminate|]. destruct l as [|y l].
  - cbn. intros H. injection H as ->. now left.
  - rewrite last_opt_cons. intros H. right. now apply IH.
Qed.

Lemma last_opt_none {A} (l : list A) : last_opt l = None <-> l = [].
Proof.
  split; [|now intros ->]. induction l as [|x l IH]; [reflexivity|]. destruct l as [|y l]; [discriminate|].
  rewrite last_opt_cons. intros H. apply IH in H. discriminate.
Qed.

Lemma tsorted_last_max l m : tsortedb l = true -> last_opt l = Some m -> forall x, In x l -> m_time x <= m_time m.
Proof.
  induction l as [|z l IH]; [discriminate|]. destruct l as [|y l].
  - cbn. intros _ H x [<-|[]]. injection H as ->. lia.
  - rewrite last_opt_cons. cbn [tsortedb]. intros S L x Hx. apply andb_prop in S as [S1 S2]. apply Z.leb_le in S1.
    specialize (IH S2 L). destruct Hx as [<-|Hx]; [|now apply IH].
    specialize (IH y (or_introl eq_refl)). lia.
Qed.

Lemma in_inputs (a : list msg) (others : list (list msg)) l x :
  In l (a :: others) -> In x l -> In x (a ++ concat others).
Proof.
  intros Hl Hx. change (a ++ concat others) with (concat (a :: others)). apply in_concat. eauto.
Qed.

Lemma C15_duration (a : list msg) (others : list (list msg)) (m : msg) :
  last_opt (merge_abs a others) = Some m ->
  In m (a ++ concat others) /\
  (forall x, In x (a ++ concat others) -> m_time x <= m_time m) /\
  (forall l x, In l (a :: others) -> last_opt l = Some x -> m_time x <= m_time m) /\
  (forallb tsortedb (a :: others) = true ->
   exists l x, In l (a :: others) /\ last_opt l = Some x /\ m_time x = m_time m).
Proof.
  intros L. destruct (C15_perm a others) as [P S].
  assert (Hm : In m (a ++ concat others)) by (eapply Permutation_in; [exact P|now apply last_opt_in]).
  assert (Hmax : forall x, In x (a ++ concat others) -> m_time x <= m_time m).
  { intros x Hx. apply (tsorted_last_max _ m (sortedb_tsortedb _ S) L).
    eapply Permutation_in; [apply Permutation_sym; exact P|exact Hx]. }
  split; [exact Hm|]. split; [exact Hmax|]. split.
  - intros l x Hl Hx. apply Hmax. eapply in_inputs; eauto. now apply last_opt_in.
  - intros T. change (a ++ concat others) with (concat (a :: others)) in Hm.
    apply in_concat in Hm as (l & Hl & Hml). rewrite forallb_forall in T. specialize (T l Hl).
    destruct (last_opt l) as [x|] eqn:Lx; [|apply last_opt_none in Lx; subst l; contradiction].
    exists l, x. split; [exact Hl|]. split; [exact Lx|].
    pose proof (tsorted_last_max l x T Lx m Hml) as H1.
    assert (H2 : m_time x <= m_time m) by (apply Hmax; eapply in_inputs; eauto; now apply last_opt_in). lia.
Qed.

Lemma C15_duration_empty (a : list msg) (others : list (list msg)) :
  last_opt (merge_abs a others) = None <-> a ++ concat others = [].
Proof.
  rewrite last_opt_none. destruct (C15_perm a others) as [P _]. split; intros H.
  - rewrite H in P. now apply Permutation_nil in P.
  - rewrite H in P. now apply Permutation_sym, Permutation_nil in P.
Qed.

(* ---------------------------------------------------------------- C15_sound_partial *)
Lemma Permutation_filter {A} (f : A -> bool) (l l' : list A) : Permutation l l' -> Permutation (filter f l) (filter f l').
Proof.
  induction 1 as [|x l l' _ IH|x y l|l l' l'' _ IH1 _ IH2]; cbn [filter].
  - reflexivity.
  - destruct (f x); [now apply perm_skip|exact IH].
  - destruct (f x), (f y); try reflexivity. apply perm_swap.
  - now rewrite IH1.
Qed.

Lemma filter_concat {A} (f : A -> bool) (ls : list (list A)) : filter f (concat ls) = concat (map (filter f) ls).
Proof. induction ls as [|l ls IH]; [reflexivity|]. cbn [concat map]. now rewrite filter_app, IH. Qed.

(* the note messages of the merged list are exactly those of the inputs (as a multiset) *)
Lemma C15_notes_perm (a : list msg) (others : list (list msg)) :
  Permutation (filter is_note (merge_abs a others)) (filter is_note a ++ concat (map (filter is_note) others)).
Proof.
  rewrite <- filter_concat, <- filter_app. apply Permutation_filter. apply C15_perm.
Qed.

(* sounding sets of an absolute list: (channel, pitch) k sounds at tick t when more note-ons than note-offs of k have
   a time <= t (a note sounds on [onset, end) ; overlapping notes of the same k count twice and stay "sounding") *)
Definition hits (on : bool) (k : k2) (t : Z) (m : msg) : bool :=
  (if on then is_on m else is_off m) && k2_eqb k (m_chan m, m_note m) && (m_time m <=? t).
Definition cnt (on : bool) (k : k2) (t : Z) (l : list msg) : Z := Z.of_nat (length (filter (hits on k t) l)).
Definition depth_at (k : k2) (t : Z) (l : list msg) : Z := cnt true k t l - cnt false k t l.
Definition sounding (k : k2) (t : Z) (l : list msg) : bool := 0 <? depth_at k t l.
(* no (channel, pitch) is ever closed more often than opened *)
Definition wf_depth (l : list msg) : bool :=
  forallb (fun m => forallb (fun m' => 0 <=? depth_at (m_chan m, m_note m) (m_time m') l) l) l.

Lemma cnt_perm on k t l l' : Permutation l l' -> cnt on k t l = cnt on k t l'.
Proof. intros P. unfold cnt. f_equal. apply Permutation_length. now apply Permutation_filter. Qed.
Lemma cnt_app on k t l l' : cnt on k t (l ++ l') = cnt on k t l + cnt on k t l'.
Proof. unfold cnt. rewrite filter_app, app_length. lia. Qed.
Lemma depth_app k t l l' : depth_at k t (l ++ l') = depth_at k t l + depth_at k t l'.
Proof. unfold depth_at. rewrite !cnt_app. lia. Qed.
Lemma depth_concat k t ls : depth_at k t (concat ls) = sumZ (map (depth_at k t) ls).
Proof. induction ls as [|l ls IH]; [reflexivity|]. cbn [concat map sumZ]. now rewrite depth_app, IH. Qed.
Lemma depth_perm k t l l' : Permutation l l' -> depth_at k t l = depth_at k t l'.
Proof. intros P. unfold depth_at. now rewrite (cnt_perm true k t l l' P), (cnt_perm false k t l l' P). Qed.

Lemma C15_depth_sum (a : list msg) (others : list (list msg)) (k : k2) (t : Z) :
  depth_at k t (merge_abs a others) = sumZ (map (depth_at k t) (a :: others)).
Proof.
  rewrite (depth_perm k t _ _ (proj1 (C15_perm a others))).
  change (a ++ concat others) with (concat (a :: others)). apply depth_concat.
Qed.

Lemma sumZ_pos (l : list Z) : (forall x, In x l -> 0 <= x) -> (0 < sumZ l <-> exists x, In x l /\ 0 < x).
Proof.
  induction l as [|x l IH]; intros H.
  - cbn. split; [lia|]. intros (x & [] & _).
  - cbn [sumZ]. assert (Hx : 0 <= x) by (apply H; now left).
    assert (Hl : forall y, In y l -> 0 <= y) by (intros y Hy; apply H; now right).
    specialize (IH Hl). split.
    + intros S. destruct (Z_lt_ge_dec 0 x) as [Hp|Hn]; [exists x; split; [now left|exact Hp]|].
      assert (S' : 0 < sumZ l) by lia. apply IH in S' as (y & Hy & Hy'). exists y. split; [now right|exact Hy'].
    + intros (y & [<-|Hy] & Hy').
      * assert (0 <= sumZ l); [|lia]. clear -Hl. induction l as [|z l IH]; cbn [sumZ]; [lia|].
        assert (0 <= z) by (apply Hl; now left). assert (0 <= sumZ l) by (apply IH; intros; apply Hl; now right). lia.
      * assert (0 < sumZ l) by (apply IH; eauto). lia.
Qed.

(* Prop form of the well-formedness hypothesis *)
Lemma C15_sound_prop (a : list msg) (others : list (list msg)) (k : k2) (t : Z) :
  (forall l, In l (a :: others) -> 0 <= depth_at k t l) ->
  (0 < depth_at k t (merge_abs a others) <-> exists l, In l (a :: others) /\ 0 < depth_at k t l).
Proof.
  intros W. rewrite C15_depth_sum. rewrite sumZ_pos.
  - split.
    + intros (x & Hx & Hp). apply in_map_iff in Hx as (l & <- & Hl). eauto.
    + intros (l & Hl & Hp). exists (depth_at k t l). split; [now apply in_map|exact Hp].
  - intros x Hx. apply in_map_iff in Hx as (l & <- & Hl). now apply W.
Qed.

(* from the boolean check (finitely many keys and ticks) to all keys and all ticks *)
Lemma k2_eqb_eq (a b : k2) : k2_eqb a b = true <-> a = b.
Proof.
  destruct a as [a1 a2], b as [b1 b2]. unfold k2_eqb. cbn [fst snd]. rewrite andb_true_iff, !Z.eqb_eq.
  split; [intros [-> ->]; reflexivity|intros H; injection H as -> ->; auto].
Qed.

Lemma exists_latest (P : msg -> bool) (l : list msg) :
  (exists x, In x l /\ P x = true) ->
  exists m, In m l /\ P m = true /\ forall x, In x l -> P x = true -> m_time x <= m_time m.
Proof.
  induction l as [|y l IH]; intros (x & Hx & Px); [contradiction|].
  destruct (existsb P l) eqn:E.
  - apply existsb_exists in E. destruct (IH E) as (m & Hm & Pm & Mx).
    destruct (P y) eqn:Py.
    + destruct (Z_le_gt_dec (m_time y) (m_time m)) as [Hle|Hgt].
      * exists m. split; [now right|]. split; [exact Pm|]. intros z [<-|Hz] Pz; [exact Hle|now apply Mx].
      * exists y. split; [now left|]. split; [exact Py|]. intros z [<-|Hz] Pz; [lia|].
        specialize (Mx z Hz Pz). lia.
    + exists m. split; [now right|]. split; [exact Pm|]. intros z [<-|Hz] Pz; [congruence|now apply Mx].
  - assert (Hn : forall z, In z l -> P z = false).
    { intros z Hz. destruct (P z) eqn:Pz; [|reflexivity].
      assert (existsb P l = true) by (apply existsb_exists; eauto). congruence. }
    destruct Hx as [<-|Hx]; [|rewrite (Hn x Hx) in Px; discriminate].
    exists y. split; [now left|]. split; [exact Px|]. intros z [<-|Hz] Pz; [lia|].
    rewrite (Hn z Hz) in Pz. discriminate.
Qed.

Lemma filter_nil {A} (f : A -> bool) (l : list A) : (forall x, In x l -> f x = false) -> filter f l = [].
Proof.
  induction l as [|x l IH]; intros H; [reflexivity|]. cbn [filter]. rewrite (H x (or_introl eq_refl)).
  apply IH. intros y Hy. apply H. now right.
Qed.

Lemma wf_depth_spec (l : list msg) : wf_depth l = true -> forall k t, 0 <= depth_at k t l.
Proof.
  intros W k t.
  set (P := fun x : msg => is_note x && k2_eqb k (m_chan x, m_note x) && (m_time x <=? t)).
  destruct (existsb P l) eqn:E.
  - apply existsb_exists in E. destruct (exists_latest P l E) as (m & Hm & Pm & Mx).
    unfold P in Pm. apply andb_prop in Pm as [Pm Pm3]. apply andb_prop in Pm as [Pm1 Pm2].
    apply k2_eqb_eq in Pm2. apply Z.leb_le in Pm3.
    assert (Eq : forall on x, In x l -> hits on k t x = hits on k (m_time m) x).
    { intros on x Hx. unfold hits.
      destruct ((if on then is_on x else is_off x) && k2_eqb k (m_chan x, m_note x)) eqn:E1; [|reflexivity].
      cbn [andb]. apply andb_prop in E1 as [E1 E2].
      assert (Nx : is_note x = true) by (unfold is_note; destruct on; rewrite E1; auto using orb_true_r).
      destruct (m_time x <=? t) eqn:E3.
      - symmetry. apply Z.leb_le. apply Mx; [exact Hx|]. unfold P. now rewrite Nx, E2, E3.
      - symmetry. apply Z.leb_gt. apply Z.leb_gt in E3. lia. }
    assert (D : depth_at k t l = depth_at k (m_time m) l).
    { unfold depth_at, cnt. now rewrite (filter_ext_in _ _ l (Eq true)), (filter_ext_in _ _ l (Eq false)). }
    rewrite D, Pm2. unfold wf_depth in W. rewrite forallb_forall in W. specialize (W m Hm).
    rewrite forallb_forall in W. specialize (W m Hm). now apply Z.leb_le in W.
  - assert (Z0 : forall on, filter (hits on k t) l = []).
    { intros on. apply filter_nil. intros x Hx. unfold hits.
      destruct ((if on then is_on x else is_off x) && k2_eqb k (m_chan x, m_note x) && (m_time x <=? t)) eqn:E1;
        [|reflexivity].
      apply andb_prop in E1 as [E1 E3]. apply andb_prop in E1 as [E1 E2].
      assert (Nx : is_note x = true) by (unfold is_note; destruct on; rewrite E1; auto using orb_true_r).
      assert (existsb P l = true) by (apply existsb_exists; exists x; split; [exact Hx|unfold P; now rewrite Nx, E2, E3]).
      congruence. }
    unfold depth_at, cnt. rewrite !Z0. cbn. lia.
Qed.

Lemma C15_sound (a : list msg) (others : list (list msg)) (k : k2) (t : Z) :
  forallb wf_depth (a :: others) = true ->
  sounding k t (merge_abs a others) = existsb (sounding k t) (a :: others).
Proof.
  intros W. rewrite forallb_forall in W. apply eq_true_iff_eq. unfold sounding at 1. rewrite Z.ltb_lt.
  rewrite C15_sound_prop by (intros l Hl; apply wf_depth_spec; now apply W).
  rewrite existsb_exists. unfold sounding. split; intros (l & Hl & Hp); exists l; split; auto; now apply Z.ltb_lt.
Qed.

(* the merged list is again well formed in this sense *)
Lemma C15_sound_wf (a : list msg) (others : list (list msg)) (k : k2) (t : Z) :
  forallb wf_depth (a :: others) = true -> 0 <= depth_at k t (merge_abs a others).
Proof.
  intros W. rewrite forallb_forall in W. rewrite C15_depth_sum.
  assert (H : forall ls, (forall l, In l ls -> wf_depth l = true) -> 0 <= sumZ (map (depth_at k t) ls)).
  { induction ls as [|l ls IH]; intros H; cbn [map sumZ]; [lia|].
    pose proof (wf_depth_spec l (H l (or_introl eq_refl)) k t). 
    assert (0 <= sumZ (map (depth_at k t) ls)) by (apply IH; intros; apply H; now right). lia. }
  now apply H.
Qed.

(* ---------------------------------------------------------------- lift to the seq wrapper *)
Lemma seq_merge_spec (s s1 : seq) (others os : list seq) (a : list msg) (as_ : list (list msg)) :
  get_abs s = Ok (s1, a) -> refresh_abs_all others = Ok (os, as_) ->
  seq_merge s others =
    Ok (mkseq (merge_abs a as_) (normalise (to_rel (merge_abs a as_))) true false, os).
Proof.
  intros H1 H2. unfold seq_merge. rewrite H1. cbn [rbind]. rewrite H2. cbn [rbind].
  cbv [seq_normalise upd_rel get_rel s_rel_stale s_abs_stale s_rel s_abs rbind]. reflexivity.
Qed.

(* ---------------------------------------------------------------- non-vacuity *)
Definition ex_s1 : list msg := [mk_on 0 60 90 0 false; mk_off 0 60 24 false; mk_ts 0 3 4 0 false].
Definition ex_s2 : list msg := [mk_on 0 60 50 12 false; mk_off 0 60 48 false; mk_on 1 64 70 0 false; mk_off 1 64 12 false].
Definition ex_s3 : list msg := [mk_on 0 60 70 0 false; mk_off 0 60 30 false].

Example C15_ex_perm : Permutation (ex_s1 ++ concat [ex_s2; ex_s3]) (ex_s3 ++ concat [ex_s1; ex_s2]).
Proof. apply (merge_inputs_perm [] [ex_s1; ex_s2; ex_s3] [ex_s3; ex_s1; ex_s2]). apply Permutation_sym, (Permutation_cons_append [ex_s1; ex_s2] ex_s3). Qed.
(* same keys, but the lists themselves differ (two note-ons with equal key and different velocity) *)
Example C15_ex_order : merge_abs ex_s1 [ex_s2; ex_s3] <> merge_abs ex_s3 [ex_s1; ex_s2] /\
                       key_determines (fun m => m) (ex_s1 ++ concat [ex_s2; ex_s3]) = false /\
                       key_determines (fun m => m) (ex_s1 ++ concat [ex_s2]) = true.
Proof. vm_compute. repeat split; discriminate. Qed.
Example C15_ex_duration : exists m, last_opt (merge_abs ex_s1 [ex_s2; ex_s3]) = Some m /\ m_time m = 48 /\
                          forallb tsortedb [ex_s1; ex_s2; ex_s3] = false /\ forallb tsortedb [ex_s3; sort_abs ex_s2] = true.
Proof. eexists. vm_compute. repeat split; reflexivity. Qed.
Example C15_ex_sound : forallb wf_depth [ex_s1; ex_s2; ex_s3] = true /\
                       sounding (0, 60) 40 (merge_abs ex_s1 [ex_s2; ex_s3]) = true /\
                       sounding (0, 60) 48 (merge_abs ex_s1 [ex_s2; ex_s3]) = false /\ sounding (0, 60) 40 ex_s1 = false.
Proof. vm_compute. auto. Qed.
Example C15_ex_seq : get_abs (seq_of_abs ex_s1) = Ok (seq_of_abs ex_s1, ex_s1) /\
                     refresh_abs_all [seq_of_abs ex_s2] = Ok ([seq_of_abs ex_s2], [ex_s2]).
Proof. vm_compute. auto. Qed.
