#!/usr/bin/env python3
"""Which lines / branches of the implementation do the generators of the correspondence check and of the oracles reach?
A diagnostic for the input space (every seeded change that was missed so far was missed there), not a check.
usage: PYTHONPATH=$SCODA_REPO /venv/bin/python harness/linecov.py [N] [--oracles]  -> notes/linecov.txt"""
import os, sys, random, io
import coverage
REPO = os.environ.get("SCODA_REPO", "/repo")
HERE = os.path.dirname(os.path.abspath(__file__))
sys.path.insert(0, HERE)
N = int(sys.argv[1]) if len(sys.argv) > 1 and sys.argv[1].isdigit() else 150
cov = coverage.Coverage(source=[os.path.join(REPO, "scoda")], branch=True, data_file=None)
cov.start()
import ops, oracles, witnesses     # imported under coverage so that module-level code counts
for name, op in ops.OPS.items():
    rng = random.Random(f"cov/{name}")
    for _ in range(N if name != "vocab" else max(10, N // 10)):
        inp = op.gen(rng)
        op.impl(inp)
if "--oracles" in sys.argv:
    for prop, js in oracles.J.items():
        for opname, f in js:
            rng = random.Random(f"covo/{prop}/{opname}")
            for _ in range(max(10, N // 3)):
                try:
                    f(ops.OPS[opname].gen(rng))
                except Exception:
                    pass
    try:
        oracles.exhaustive_c20()
    except Exception:
        pass
    witnesses.run()
cov.stop()
buf = io.StringIO()
cov.report(file=buf, show_missing=True, skip_empty=True)
out = os.path.join(os.path.dirname(HERE), "notes", "linecov.txt")
open(out, "w").write(buf.getvalue())
print(buf.getvalue())
