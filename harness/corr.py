"""Correspondence driver: generate N cases for an operation, run implementation and model, report disagreements."""
import os, sys, random, json, time
sys.path.insert(0, os.path.dirname(os.path.abspath(__file__)))
import coqrun


def correspond(opname, n, seed, corpus=None, jobs=None):
    import ops
    op = ops.OPS[opname]
    rng = random.Random(f"{seed}/{opname}")
    inputs = list(corpus or [])
    while len(inputs) < n + len(corpus or []):
        inputs.append(op.gen(rng))
    cases, seen, nontrivial = [], set(), 0
    expected = {}
    for k, inp in enumerate(inputs):
        exp = op.impl(inp)
        cid = f"{opname}{k}"
        expected[cid] = (inp, exp)
        cases.append((cid, op.coq(inp), exp.replace('"', "'")))
        key = repr(inp)
        if key not in seen:
            seen.add(key)
            if op.nontrivial(inp):
                nontrivial += 1
    t0 = time.time()
    shard = {"vocab": 6, "tok_roundtrip": 24, "tok_stateful": 24, "tok_stream": 24, "history": 16, "composition": 12}.get(opname, 64)
    mism = coqrun.run_cases(cases, tag=opname, jobs=jobs, shard=shard)
    dis = [{"id": cid, "input": expected[cid][0], "impl": expected[cid][1], "model": got} for cid, got in mism.items()]
    return {"op": opname, "evaluations": len(cases), "distinct": len(seen), "distinct_nontrivial": nontrivial,
            "disagreements": dis, "coq_s": round(time.time() - t0, 2), "sample": inputs[len(inputs) // 2] if inputs else None}


def exhaustive_inputs(opname):
    """small-scope complete enumerations used by the thorough tier (they validate the tie; they are not the proof)"""
    import itertools
    from canon import ON, OFF, WT, TS, KS
    if opname == "normalise":
        alpha = [ON(c, p, 100) for c in (0, 1) for p in (60, 61)] + [OFF(c, p) for c in (0, 1) for p in (60, 61)] + \
                [WT(0, 5), WT(1, 0), TS(0, 3, 4), TS(0, 4, 4), KS(0, "G")]
        return [list(t) for k in range(0, 5) for t in itertools.product(alpha, repeat=k)]
    if opname == "split":
        alpha = [ON(0, 60, 100), OFF(0, 60), ON(1, 60, 90), OFF(1, 60), WT(0, 6), WT(0, 7), KS(0, "G")]
        ls = [list(t) for k in range(0, 5) for t in itertools.product(alpha, repeat=k)]
        return [(l, caps) for l in ls for caps in ([6], [6, 6], [7, 6])]
    if opname == "pad":
        alpha = [ON(0, 60, 100), OFF(0, 60), WT(0, 6), WT(1, 0), KS(0, "G")]
        ls = [list(t) for k in range(0, 5) for t in itertools.product(alpha, repeat=k)]
        return [(l, p) for l in ls for p in (0, 6, 7, 12, 13)]
    if opname in ("quantise", "qnl", "cutoff"):
        # every multiset of up to 4 absolute note messages over 2 channels x 1 pitch x 4 ticks, in every insertion order
        alpha = [ON(c, 60, 100, t) for c in (0, 1) for t in (0, 5, 6, 13)] + [OFF(c, 60, t) for c in (0, 1) for t in (5, 6, 13, 20)]
        ls = [list(t) for k in range(0, 4) for t in itertools.product(alpha, repeat=k)]
        if opname == "quantise":
            return [(l, st, None) for l in ls for st in ([6], [4, 6])]
        if opname == "qnl":
            return [(l, vals, 24, dne, False) for l in ls for vals in ([6], [4, 8]) for dne in (False, True)]
        return [(l, 6, 4) for l in ls]
    if opname == "to_abs" or opname == "rel_abs_rel":
        alpha = [ON(0, 60, 100), OFF(0, 60), ON(1, 61, 90), WT(0, 6), WT(1, 0), TS(0, 3, 4), KS(0, "G")]
        return [list(t) for k in range(0, 5) for t in itertools.product(alpha, repeat=k)]
    if opname == "set_channel":
        alpha = [ON(0, 60, 100), OFF(1, 60), WT(0, 6), TS(2, 3, 4), KS(0, "G")]
        return [(list(t), c) for k in range(0, 5) for t in itertools.product(alpha, repeat=k) for c in (0, 3)]
    return []


if __name__ == "__main__":
    names = sys.argv[1].split(",")
    n = int(sys.argv[2]) if len(sys.argv) > 2 else 200
    seed = int(os.environ.get("VERIF_SEED", "0"))
    for nm in names:
        r = correspond(nm, n, seed)
        print(nm, "evals", r["evaluations"], "nontrivial", r["distinct_nontrivial"], "disagreements", len(r["disagreements"]), "coq_s", r["coq_s"])
        for d in r["disagreements"][:3]:
            print("   INPUT", d["input"]); print("   IMPL ", d["impl"][:600]); print("   MODEL", d["model"][:600])
