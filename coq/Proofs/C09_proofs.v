(* C09 -- bar splitting (Model/Bars.v : split_bars / sb_loop / bar_init). *)
From Coq Require Import ZArith List Bool Lia.
From Model Require Import Base Seq Bars.
From Model Require Show.
Import ListNotations.
Open Scope Z_scope.

(* ------------------------------------------------------------------ message kinds *)
Lemma is_wait_iff m : is_wait m = true <-> m_type m = WAIT.
Proof. unfold is_wait, mtype_eqb. destruct (m_type m); cbn; split; intro H; congruence. Qed.

Lemma is_wait_not_ts m : is_wait m = true -> is_ts m = false.
Proof. intro H. apply is_wait_iff in H. unfold is_ts, mtype_eqb. now rewrite H. Qed.

(* ------------------------------------------------------------------ dur_rel *)
Lemma sumZ_app a b : sumZ (a ++ b) = sumZ a + sumZ b.
Proof. induction a as [|x a IH]; cbn [sumZ app]; lia. Qed.

Lemma dur_rel_nil : dur_rel [] = 0.
Proof. reflexivity. Qed.

Lemma dur_rel_cons m l : dur_rel (m :: l) = (if is_wait m then m_time m else 0) + dur_rel l.
Proof. unfold dur_rel. cbn [filter]. destruct (is_wait m); cbn [map sumZ]; lia. Qed.

Lemma dur_rel_cons_nowait m l : is_wait m = false -> dur_rel (m :: l) = dur_rel l.
Proof. intro H. rewrite dur_rel_cons, H. lia. Qed.

Lemma dur_rel_app a b : dur_rel (a ++ b) = dur_rel a + dur_rel b.
Proof. unfold dur_rel. now rewrite filter_app, map_app, sumZ_app. Qed.

Lemma dur_rel_nowait l : forallb (fun m => negb (is_wait m)) l = true -> dur_rel l = 0.
Proof.
  induction l as [|m l IH]; intro H; [reflexivity|].
  cbn [forallb] in H. apply andb_true_iff in H as [H1 H2]. rewrite dur_rel_cons, (IH H2).
  destruct (is_wait m); [discriminate|lia].
Qed.

Lemma dur_rel_filter (f : msg -> bool) l :
  (forall m, is_wait m = true -> f m = true) -> dur_rel (filter f l) = dur_rel l.
Proof.
  intro Hf. induction l as [|m l IH]; [reflexivity|]. cbn [filter].
  destruct (f m) eqn:E.
  - now rewrite !dur_rel_cons, IH.
  - rewrite dur_rel_cons, IH. destruct (is_wait m) eqn:W; [|lia]. rewrite (Hf m W) in E. discriminate.
Qed.

(* waits carry positive / non-negative times *)
Definition wpos (m : msg) : Prop := is_wait m = true -> 0 < m_time m.
Definition wnn_b (m : msg) : bool := negb (is_wait m) || (0 <=? m_time m).
Definition waits_nonneg (l : list msg) : bool := forallb wnn_b l.

Lemma wpos_wnn m : wpos m -> wnn_b m = true.
Proof.
  unfold wpos, wnn_b. intro H. destruct (is_wait m); [|reflexivity]. cbn.
  apply Z.leb_le. specialize (H eq_refl). lia.
Qed.

Lemma Forall_wpos_nonneg l : Forall wpos l -> waits_nonneg l = true.
Proof. intro H. apply forallb_forall. intros m Hm. apply wpos_wnn. rewrite Forall_forall in H. auto. Qed.

Lemma waits_nonneg_cons m l : waits_nonneg (m :: l) = wnn_b m && waits_nonneg l.
Proof. reflexivity. Qed.

Lemma waits_nonneg_app a b : waits_nonneg (a ++ b) = waits_nonneg a && waits_nonneg b.
Proof. unfold waits_nonneg. apply forallb_app. Qed.

Lemma dur_rel_nonneg l : waits_nonneg l = true -> 0 <= dur_rel l.
Proof.
  induction l as [|m l IH]; intro H; [cbn; lia|].
  rewrite waits_nonneg_cons in H. apply andb_true_iff in H as [H1 H2]. rewrite dur_rel_cons.
  specialize (IH H2). unfold wnn_b in H1. destruct (is_wait m); [|lia].
  cbn in H1. apply Z.leb_le in H1. lia.
Qed.

(* ------------------------------------------------------------------ normalise only emits positive waits *)
Lemma Forall_app_intro {A} (P : A -> Prop) a b : Forall P a -> Forall P b -> Forall P (a ++ b).
Proof. intros. apply Forall_app. now split. Qed.

Lemma wpos_mk_wait c t f : 0 < t -> wpos (mk_wait c t f).
Proof. intros H _. exact H. Qed.

Lemma wpos_nonwait m : is_wait m = false -> wpos m.
Proof. intros H H'. congruence. Qed.

Lemma flush_out s c m : Forall wpos (n_out s) -> is_wait m = false -> Forall wpos (n_out (flush s c m)).
Proof.
  intros Hs Hm. unfold flush. cbn [n_out].
  apply Forall_app_intro; [|constructor; [now apply wpos_nonwait|constructor]].
  destruct (0 <? n_wait s) eqn:E; [|exact Hs].
  apply Z.ltb_lt in E. apply Forall_app_intro; [exact Hs|]. constructor; [now apply wpos_mk_wait|constructor].
Qed.

Lemma nstep_out s m : Forall wpos (n_out s) -> Forall wpos (n_out (nstep s m)).
Proof.
  intro Hs. unfold nstep.
  assert (Hw : forall t, m_type m = t -> t <> WAIT -> is_wait m = false).
  { intros t Ht Hn. destruct (is_wait m) eqn:E; [|reflexivity]. apply is_wait_iff in E. congruence. }
  destruct (m_type m) eqn:T.
  - apply flush_out; [exact Hs|]. eapply Hw; [reflexivity|discriminate].
  - apply flush_out; [exact Hs|]. eapply Hw; [reflexivity|discriminate].
  - destruct (okey_eqb _ _); [exact Hs|]. apply flush_out; [exact Hs|]. eapply Hw; [reflexivity|discriminate].
  - destruct (_ && _); [exact Hs|]. apply flush_out; [exact Hs|]. eapply Hw; [reflexivity|discriminate].
  - apply flush_out; [exact Hs|]. eapply Hw; [reflexivity|discriminate].
  - apply flush_out; [exact Hs|]. eapply Hw; [reflexivity|discriminate].
  - destruct (depth _ _) as [|d]; [exact Hs|]. destruct d; [|exact Hs].
    apply flush_out; [exact Hs|]. eapply Hw; [reflexivity|discriminate].
  - destruct (depth _ _) as [|d]; [|exact Hs].
    apply flush_out; [exact Hs|]. eapply Hw; [reflexivity|discriminate].
  - exact Hs.
Qed.

Lemma fold_nstep_out l s : Forall wpos (n_out s) -> Forall wpos (n_out (fold_left nstep l s)).
Proof. revert s. induction l as [|m l IH]; intros s Hs; [exact Hs|]. cbn [fold_left]. apply IH, nstep_out, Hs. Qed.

Lemma remove_last_on_Forall (P : msg -> Prop) k l : Forall P l -> Forall P (fst (remove_last_on k l)).
Proof.
  induction l as [|m l IH]; intro H; [constructor|].
  inversion H as [|? ? Hm Hl]; subst. specialize (IH Hl). cbn [remove_last_on].
  destruct (remove_last_on k l) as [r found]. cbn [fst] in IH.
  destruct found; [cbn; now constructor|].
  destruct (is_on m && k2_eqb k (m_chan m, m_note m)); cbn; [exact IH|now constructor].
Qed.

Lemma cleanup_Forall (P : msg -> Prop) o out : Forall P out -> Forall P (cleanup o out).
Proof.
  unfold cleanup. revert out. induction o as [|kd o IH]; intros out H; [exact H|].
  cbn [fold_left]. apply IH. destruct (snd kd); [exact H|]. now apply remove_last_on_Forall.
Qed.

Lemma normalise_wpos l : Forall wpos (normalise l).
Proof.
  unfold normalise. apply cleanup_Forall.
  set (s := fold_left nstep l _).
  assert (Hs : Forall wpos (n_out s)) by (apply fold_nstep_out; constructor).
  destruct (0 <? n_wait s) eqn:E; [|exact Hs].
  apply Z.ltb_lt in E. apply Forall_app_intro; [exact Hs|]. constructor; [now apply wpos_mk_wait|constructor].
Qed.

(* ------------------------------------------------------------------ pad *)
Lemma pad_len_spec l : forall cur curf p, waits_nonneg l = true ->
  let c := fst (pad_len l cur curf p) in c = cur + dur_rel l \/ (p <= c /\ c <= cur + dur_rel l).
Proof.
  induction l as [|m l IH]; intros cur curf p H; cbn zeta.
  - left. cbn. lia.
  - rewrite waits_nonneg_cons in H. apply andb_true_iff in H as [H1 H2].
    pose proof (dur_rel_nonneg l H2) as Hd.
    cbn [pad_len]. rewrite dur_rel_cons. unfold wnn_b in H1. destruct (is_wait m).
    + cbn in H1. apply Z.leb_le in H1.
      destruct (p <=? cur + m_time m) eqn:E.
      * apply Z.leb_le in E. cbn [fst]. right. lia.
      * specialize (IH (cur + m_time m) (curf || m_tf m)%bool p H2). cbn zeta in IH. lia.
    + specialize (IH cur curf p H2). cbn zeta in IH. lia.
Qed.

Lemma dur_rel_pad l p pf : waits_nonneg l = true -> dur_rel l < p -> dur_rel (pad l p pf) = p.
Proof.
  intros H Hlt. unfold pad. pose proof (pad_len_spec l 0 false p H) as S. cbn zeta in S.
  destruct (pad_len l 0 false p) as [c f]. cbn [fst] in S.
  destruct (c <? p) eqn:E; [apply Z.ltb_lt in E | apply Z.ltb_ge in E]; [|lia].
  rewrite dur_rel_app, dur_rel_cons. cbn. lia.
Qed.

(* ------------------------------------------------------------------ bar_init *)
Definition no_ts (l : list msg) : bool := forallb (fun m => negb (is_ts m)) l.

Lemma no_ts_filter l : no_ts (filter (fun m => negb (is_ts m)) l) = true.
Proof. apply forallb_forall. intros m Hm. apply filter_In in Hm. tauto. Qed.

Lemma bar_init_post r n d r' : bar_init r n d = Ok r' ->
  dur_rel r' = bar_capacity n d /\
  exists tl, r' = mk_ts 0 n d 0 false :: tl /\ no_ts tl = true.
Proof.
  unfold bar_init, bar_init_full.
  set (r1 := normalise r). set (cap := bar_capacity n d).
  pose proof (Forall_wpos_nonneg _ (normalise_wpos r)) as Hnn. fold r1 in Hnn.
  destruct (cap <? dur_rel r1) eqn:E1; [discriminate|]. apply Z.ltb_ge in E1.
  set (r2 := if dur_rel r1 <? cap then pad r1 cap false else r1).
  destruct (1 <? lenZ (filter is_ts r2)); [discriminate|].
  destruct (negb _); [discriminate|].
  intro H. injection H as <-. split.
  - rewrite dur_rel_cons_nowait by reflexivity.
    rewrite dur_rel_filter by (intros m W; now rewrite (is_wait_not_ts m W)).
    subst r2. destruct (dur_rel r1 <? cap) eqn:E2; [apply Z.ltb_lt in E2 | apply Z.ltb_ge in E2].
    + rewrite dur_rel_pad; [lia|exact Hnn|exact E2].
    + lia.
  - eexists. split; [reflexivity|]. apply no_ts_filter.
Qed.

Lemma bar_init_err r n d e : bar_init r n d = Err e -> e = BarErr.
Proof.
  unfold bar_init, bar_init_full.
  destruct (_ <? _); [intro H; now injection H|].
  destruct (1 <? _); [intro H; now injection H|].
  destruct (negb _); [intro H; now injection H|]. discriminate.
Qed.

(* ------------------------------------------------------------------ the loop, one round at a time *)
Definition blen (num den : Z) : Z := (PPQN * num * 4) / den.

Lemma bar_capacity_blen n d : bar_capacity n d = blen n d.
Proof. unfold bar_capacity, blen. f_equal. ring. Qed.

(* head-consumption rule for the time-signature queue and the key queue *)
Definition sig_num (tsq : list msg) (cur num : Z) : Z :=
  match tsq with m :: _ => if m_time m <=? cur then m_num m else num | [] => num end.
Definition sig_den (tsq : list msg) (cur den : Z) : Z :=
  match tsq with m :: _ => if m_time m <=? cur then m_den m else den | [] => den end.
Definition q_rest (q : list msg) (cur : Z) : list msg :=
  match q with m :: r => if m_time m <=? cur then r else q | [] => [] end.
Definition key_cur (ksq : list msg) (cur : Z) (key : option Key) : option Key :=
  match ksq with m :: _ => if m_time m <=? cur then m_key m else key | [] => key end.

Definition collect (num den : Z) (key : option Key) (bars : list (result (list msg))) : result (list bar) :=
  fold_right (fun b acc' => match b, acc' with
                            | Ok r, Ok l => Ok (mkbar r num den key :: l)
                            | Err e, _ => Err e
                            | _, Err e => Err e end) (Ok []) bars.
Definition extend (acc : list (list bar)) (newbars : list bar) : list (list bar) :=
  map (fun ab : list bar * bar => fst ab ++ [snd ab]) (combine acc newbars).
Definition tr_bar (x : list msg * list msg * bool) : list msg := fst (fst x).
Definition tr_rest (x : list msg * list msg * bool) : list msg := snd (fst x).
Definition tr_more (x : list msg * list msg * bool) : bool := snd x.

Lemma sb_loop_S f qnl seqs tsq ksq cur num den key acc :
  sb_loop (S f) qnl seqs tsq ksq cur num den key acc =
  let num' := sig_num tsq cur num in
  let den' := sig_den tsq cur den in
  let key' := key_cur ksq cur key in
  let len := blen num' den' in
  let rounds := map (sb_track qnl len) seqs in
  match collect num' den' key' (map (fun x => bar_init (tr_bar x) num' den') rounds) with
  | Err e => Err e
  | Ok newbars =>
      if existsb tr_more rounds
      then sb_loop f qnl (map tr_rest rounds) (q_rest tsq cur) (q_rest ksq cur) (cur + len) num' den' key'
                   (extend acc newbars)
      else Ok (extend acc newbars)
  end.
Proof.
  cbn [sb_loop]. unfold sig_num, sig_den, q_rest, key_cur.
  destruct tsq as [|m r]; destruct ksq as [|m' r'];
    try destruct (m_time m <=? cur); try destruct (m_time m' <=? cur); reflexivity.
Qed.

Lemma collect_ok num den key rs : forall nb, collect num den key rs = Ok nb ->
  length nb = length rs /\
  Forall (fun b => In (Ok (b_rel b)) rs /\ b_num b = num /\ b_den b = den /\ b_key b = key) nb.
Proof.
  induction rs as [|r rs IH]; intros nb H.
  - cbn in H. injection H as <-. split; [reflexivity|constructor].
  - cbn [collect fold_right] in H. fold (collect num den key rs) in H.
    destruct r as [x|e]; [|discriminate].
    destruct (collect num den key rs) as [l|e]; [|discriminate].
    injection H as <-. destruct (IH l eq_refl) as [L F]. split; [cbn; now rewrite L|].
    constructor; [cbn; auto|].
    eapply Forall_impl; [|exact F]. cbn. intros b (A & B). split; [now right|exact B].
Qed.

Lemma collect_err num den key rs e : collect num den key rs = Err e -> In (Err e) rs.
Proof.
  induction rs as [|r rs IH]; intro H; [discriminate|].
  cbn [collect fold_right] in H. fold (collect num den key rs) in H.
  destruct r as [x|e']; [|injection H as ->; now left].
  destruct (collect num den key rs) as [l|e']; [discriminate|]. injection H as ->. right. now apply IH.
Qed.

Lemma extend_Forall2 (P : bar -> Prop) : forall acc nb, length acc = length nb -> Forall P nb ->
  Forall2 (fun a a' => exists b, a' = a ++ [b] /\ P b) acc (extend acc nb).
Proof.
  induction acc as [|a acc IH]; intros [|b nb] L F; try discriminate; [constructor|].
  inversion F as [|? ? Pb F']; subst. cbn [extend combine map fst snd]. constructor.
  - now exists b.
  - apply IH; [now injection L|exact F'].
Qed.

Lemma extend_length acc nb : length acc = length nb -> length (extend acc nb) = length acc.
Proof. intro L. unfold extend. rewrite map_length, combine_length, L. apply Nat.min_id. Qed.

(* ------------------------------------------------------------------ schedules, defined without looking at the tracks *)
(* (numerator, denominator, start tick) of bar k, from the state at the beginning of a round *)
Fixpoint tsched (k : nat) (tsq : list msg) (cur num den : Z) : Z * Z * Z :=
  let num' := sig_num tsq cur num in
  let den' := sig_den tsq cur den in
  match k with
  | O => (num', den', cur)
  | S k' => tsched k' (q_rest tsq cur) (cur + blen num' den') num' den'
  end.
Fixpoint ksched (k : nat) (tsq ksq : list msg) (cur num den : Z) (key : option Key) : option Key :=
  let num' := sig_num tsq cur num in
  let den' := sig_den tsq cur den in
  let key' := key_cur ksq cur key in
  match k with
  | O => key'
  | S k' => ksched k' (q_rest tsq cur) (q_rest ksq cur) (cur + blen num' den') num' den' key'
  end.

Definition bar_ok (b : bar) : Prop :=
  dur_rel (b_rel b) = bar_capacity (b_num b) (b_den b) /\
  exists tl, b_rel b = mk_ts 0 (b_num b) (b_den b) 0 false :: tl /\ no_ts tl = true.

Definition ext_ok (tsq ksq : list msg) (cur num den : Z) (key : option Key) (m : nat) (a r : list bar) : Prop :=
  exists ext, r = a ++ ext /\ length ext = S m /\ Forall bar_ok ext /\
    forall j b, nth_error ext j = Some b ->
      (b_num b, b_den b) = fst (tsched j tsq cur num den) /\ b_key b = ksched j tsq ksq cur num den key.

Lemma Forall2_compose {A} (R1 R2 R3 : A -> A -> Prop) :
  (forall x y z, R1 x y -> R2 y z -> R3 x z) ->
  forall l1 l2 l3, Forall2 R1 l1 l2 -> Forall2 R2 l2 l3 -> Forall2 R3 l1 l3.
Proof.
  intros HR l1 l2 l3 H12. revert l3. induction H12 as [|x y l1 l2 Hxy H12 IH]; intros l3 H23.
  - inversion H23. constructor.
  - inversion H23 as [|? z ? l3' Hyz H23']; subst. constructor; [eapply HR; eauto|apply IH, H23'].
Qed.

Lemma Forall2_weaken {A} (R1 R2 : A -> A -> Prop) :
  (forall x y, R1 x y -> R2 x y) -> forall l1 l2, Forall2 R1 l1 l2 -> Forall2 R2 l1 l2.
Proof. intros HR l1 l2 H. induction H; constructor; auto. Qed.

Lemma Forall2_len {A B} (R : A -> B -> Prop) l1 l2 : Forall2 R l1 l2 -> length l1 = length l2.
Proof. intro H. induction H; cbn; congruence. Qed.

Lemma round_bars qnl seqs num den key nb :
  collect num den key (map (fun x => bar_init (tr_bar x) num den) (map (sb_track qnl (blen num den)) seqs)) = Ok nb ->
  length nb = length seqs /\
  Forall (fun b => bar_ok b /\ b_num b = num /\ b_den b = den /\ b_key b = key) nb.
Proof.
  intro H. apply collect_ok in H as [L F]. rewrite !map_length in L. split; [exact L|].
  eapply Forall_impl; [|exact F]. cbn. intros b (I & N & D & K). split; [|auto].
  apply in_map_iff in I as (x & I & _). apply bar_init_post in I. unfold bar_ok. now rewrite N, D.
Qed.

Lemma sb_loop_spec : forall fuel qnl seqs tsq ksq cur num den key acc res,
  sb_loop fuel qnl seqs tsq ksq cur num den key acc = Ok res ->
  length acc = length seqs ->
  exists m, Forall2 (ext_ok tsq ksq cur num den key m) acc res.
Proof.
  induction fuel as [|f IH]; intros qnl seqs tsq ksq cur num den key acc res H L; [discriminate|].
  rewrite sb_loop_S in H. cbn zeta in H.
  set (num' := sig_num tsq cur num) in *. set (den' := sig_den tsq cur den) in *.
  set (key' := key_cur ksq cur key) in *.
  destruct (collect _ _ _ _) as [nb|e] eqn:C; [|discriminate].
  apply round_bars in C as [Lnb Fnb].
  assert (E : Forall2 (fun a a' => exists b, a' = a ++ [b] /\
                (bar_ok b /\ b_num b = num' /\ b_den b = den' /\ b_key b = key')) acc (extend acc nb)).
  { apply extend_Forall2; [congruence|exact Fnb]. }
  destruct (existsb tr_more _).
  - apply IH in H; [|rewrite extend_length, !map_length; congruence].
    destruct H as [m' H]. exists (S m').
    eapply Forall2_compose; [|exact E|exact H].
    intros a a' r (b & -> & Ok_b & Nb & Db & Kb) (ext & -> & Le & Fe & Se).
    exists (b :: ext). split; [now rewrite <- app_assoc|]. split; [cbn; now rewrite Le|].
    split; [now constructor|]. intros [|j] b' Hb'.
    + cbn in Hb'. injection Hb' as <-. cbn [tsched ksched fst]. fold num' den' key'. now rewrite Nb, Db.
    + cbn [nth_error] in Hb'. cbn [tsched ksched]. fold num' den' key'. now apply Se.
  - injection H as <-. exists O.
    eapply Forall2_weaken; [|exact E]. intros a a' (b & -> & Ok_b & Nb & Db & Kb).
    exists [b]. split; [reflexivity|]. split; [reflexivity|]. split; [now constructor|].
    intros [|j] b' Hb'; [|destruct j; discriminate].
    cbn in Hb'. injection Hb' as <-. cbn [tsched ksched fst]. fold num' den' key'. now rewrite Nb, Db.
Qed.

(* ------------------------------------------------------------------ errors *)
Lemma sb_loop_errors : forall fuel qnl seqs tsq ksq cur num den key acc e,
  sb_loop fuel qnl seqs tsq ksq cur num den key acc = Err e -> e = BarErr \/ e = OutOfFuel.
Proof.
  induction fuel as [|f IH]; intros qnl seqs tsq ksq cur num den key acc e H.
  - cbn in H. injection H as <-. now right.
  - rewrite sb_loop_S in H. cbn zeta in H.
    destruct (collect _ _ _ _) as [nb|e'] eqn:C.
    + destruct (existsb tr_more _); [now apply IH in H|discriminate].
    + injection H as ->. apply collect_err in C. apply in_map_iff in C as (x & C & _).
      left. now apply bar_init_err in C.
Qed.

(* ------------------------------------------------------------------ split_bars *)
Definition init_tsq (meta : list msg) : list msg :=
  match filter is_ts meta with [] => [mk_ts 0 4 4 0 false] | _ => filter is_ts meta end.
Definition init_ksq (meta : list msg) : list msg := filter is_ks meta.
Definition maxdur (rels : list (list msg)) : Z := fold_right Z.max 0 (map dur_rel rels).

Lemma split_bars_eq rels meta qnl :
  split_bars rels meta qnl =
  sb_loop (S (S (Z.to_nat (maxdur rels)))) qnl rels (init_tsq meta) (init_ksq meta) 0 4 4 None (map (fun _ => []) rels).
Proof. reflexivity. Qed.

(* what the loop derives for bar k, as a function of the meta track only *)
Definition sig_schedule (meta : list msg) (k : nat) : Z * Z := fst (tsched k (init_tsq meta) 0 4 4).
Definition bar_start (meta : list msg) (k : nat) : Z := snd (tsched k (init_tsq meta) 0 4 4).
Definition key_schedule (meta : list msg) (k : nat) : option Key :=
  ksched k (init_tsq meta) (init_ksq meta) 0 4 4 None.

Lemma split_bars_spec rels meta qnl bars : split_bars rels meta qnl = Ok bars ->
  length bars = length rels /\
  exists m, Forall (fun t => length t = S m /\ Forall bar_ok t /\
     forall j b, nth_error t j = Some b ->
       (b_num b, b_den b) = sig_schedule meta j /\ b_key b = key_schedule meta j) bars.
Proof.
  rewrite split_bars_eq. intro H. apply sb_loop_spec in H; [|now rewrite map_length].
  destruct H as [m H]. split.
  - apply Forall2_len in H. now rewrite map_length in H.
  - exists m. remember (map (fun _ : list msg => @nil bar) rels) as acc eqn:Ea.
    assert (Hn : Forall (fun a => a = []) acc) by (subst acc; apply Forall_forall; intros a Ha;
      apply in_map_iff in Ha as (? & <- & _); reflexivity).
    clear Ea. induction H as [|a r acc bars Har H IH]; [constructor|].
    inversion Hn as [|? ? -> Hn']; subst. constructor; [|apply IH, Hn'].
    destruct Har as (ext & -> & Le & Fe & Se). cbn [app]. auto.
Qed.

Theorem C09_same_count rels meta qnl bars : split_bars rels meta qnl = Ok bars ->
  length bars = length rels /\ exists n, (1 <= n)%nat /\ forall t, In t bars -> length t = n.
Proof.
  intro H. apply split_bars_spec in H as (L & m & F). split; [exact L|].
  exists (S m). split; [lia|]. intros t Ht. rewrite Forall_forall in F. now apply F.
Qed.

Theorem C09_bar_signature rels meta qnl bars : split_bars rels meta qnl = Ok bars ->
  forall t b, In t bars -> In b t ->
    dur_rel (b_rel b) = bar_capacity (b_num b) (b_den b) /\
    exists tl, b_rel b = mk_ts 0 (b_num b) (b_den b) 0 false :: tl /\ no_ts tl = true.
Proof.
  intro H. apply split_bars_spec in H as (L & m & F). intros t b Ht Hb.
  rewrite Forall_forall in F. destruct (F t Ht) as (_ & Fb & _). rewrite Forall_forall in Fb. now apply Fb.
Qed.

Theorem C09_signature_in_force_schedule rels meta qnl bars : split_bars rels meta qnl = Ok bars ->
  forall t k b, In t bars -> nth_error t k = Some b ->
    (b_num b, b_den b) = sig_schedule meta k /\ b_key b = key_schedule meta k.
Proof.
  intro H. apply split_bars_spec in H as (L & m & F). intros t k b Ht Hb.
  rewrite Forall_forall in F. destruct (F t Ht) as (_ & _ & S). now apply S.
Qed.

Theorem C09_errors rels meta qnl e : split_bars rels meta qnl = Err e -> e = BarErr \/ e = OutOfFuel.
Proof. rewrite split_bars_eq. apply sb_loop_errors. Qed.

(* ------------------------------------------------------------------ seq_split with a single positive capacity *)
Definition no_wait (l : list msg) : bool := forallb (fun m => negb (is_wait m)) l.

Lemma no_wait_nonneg l : no_wait l = true -> waits_nonneg l = true.
Proof.
  unfold no_wait, waits_nonneg. rewrite !forallb_forall. intros H m Hm. unfold wnn_b. now rewrite (H m Hm).
Qed.

Lemma no_wait_app a b : no_wait (a ++ b) = no_wait a && no_wait b.
Proof. apply forallb_app. Qed.

Lemma no_wait_map {A} (f : A -> msg) l : (forall x, is_wait (f x) = false) -> no_wait (map f l) = true.
Proof. intro H. apply forallb_forall. intros m Hm. apply in_map_iff in Hm as (x & <- & _). now rewrite H. Qed.

Lemma type_not_wait m t : m_type m = t -> t <> WAIT -> is_wait m = false.
Proof. intros Ht Hn. destruct (is_wait m) eqn:E; [|reflexivity]. apply is_wait_iff in E. congruence. Qed.

Lemma app_nonnil {A} (a b : list A) : a <> [] -> a ++ b <> [].
Proof. destruct a; [congruence|discriminate]. Qed.

Lemma snoc_nonnil {A} (a : list A) x : a ++ [x] <> [].
Proof. destruct a; discriminate. Qed.

Definition split_post (wm cur : list msg) (rem : Z) (r : split_res) : Prop :=
  match r with
  | SEnd _ _ => dur_rel wm <= rem
  | SCut cur' _ wm' =>
      rem < dur_rel wm /\ dur_rel cur' = dur_rel cur + rem /\ dur_rel wm' = dur_rel wm - rem /\
      waits_nonneg wm' = true /\ wm' <> [] /\ (cur <> [] \/ 0 < rem -> cur' <> [])
  end.

Lemma split_post_step wm cur cur2 rem r m :
  is_wait m = false -> dur_rel cur2 = dur_rel cur -> (cur <> [] -> cur2 <> []) ->
  split_post wm cur2 rem r -> split_post (m :: wm) cur rem r.
Proof.
  intros W D N H. destruct r as [c o|c o w]; cbn [split_post] in *; rewrite dur_rel_cons_nowait by exact W.
  - exact H.
  - destruct H as (A & B & C & E & F & G). repeat split; try assumption; [lia|].
    intros [X|X]; apply G; [left; now apply N|now right].
Qed.

Lemma split_inner_spec : forall wm cur opn q rem,
  waits_nonneg wm = true -> 0 <= rem -> no_wait q = true ->
  split_post wm cur rem (split_inner wm cur opn q rem).
Proof.
  induction wm as [|m wm IH]; intros cur opn q rem Hnn Hrem Hq.
  - cbn. exact Hrem.
  - rewrite waits_nonneg_cons in Hnn. apply andb_true_iff in Hnn as [Hm Hnn].
    assert (Hkeep : forall opn', is_wait m = false ->
              split_post (m :: wm) cur rem (split_inner wm (cur ++ [m]) opn' q rem)).
    { intros opn' W. eapply split_post_step; [exact W| | |apply IH; assumption].
      - rewrite dur_rel_app, dur_rel_cons_nowait by exact W. cbn. lia.
      - intros _. apply snoc_nonnil. }
    assert (Hdefer : is_wait m = false ->
              split_post (m :: wm) cur rem (split_inner wm cur opn (q ++ [m]) rem)).
    { intros W. eapply split_post_step; [exact W|reflexivity|auto|apply IH; try assumption].
      rewrite no_wait_app, Hq. cbn. now rewrite W. }
    cbn [split_inner]. destruct (m_type m) eqn:T;
      try (assert (W : is_wait m = false) by (eapply type_not_wait; [exact T|discriminate]));
      try (destruct (0 <? rem); [now apply Hkeep|now apply Hdefer]).
    + now apply Hkeep.
    + (* WAIT *)
      assert (W : is_wait m = true) by now apply is_wait_iff.
      unfold wnn_b in Hm. rewrite W in Hm. cbn in Hm. apply Z.leb_le in Hm.
      destruct (m_time m <=? rem) eqn:E; [apply Z.leb_le in E | apply Z.leb_gt in E].
      * specialize (IH (cur ++ [m]) opn q (rem - m_time m) Hnn ltac:(lia) Hq).
        destruct (split_inner wm (cur ++ [m]) opn q (rem - m_time m)) as [c o|c o w];
          cbn [split_post] in *; rewrite dur_rel_cons, W.
        -- lia.
        -- destruct IH as (A & B & C & D & F & G).
           rewrite dur_rel_app, dur_rel_cons, W in B. cbn in B.
           repeat split; try assumption; try lia. intros _. apply G. left. apply snoc_nonnil.
      * cbn [split_post]. rewrite dur_rel_cons, W.
        pose proof (dur_rel_nonneg wm Hnn) as Hd.
        set (offs := map (fun kv : k2 * msg => mk_off (m_chan (snd kv)) (m_note (snd kv)) 0 false) opn).
        set (ons := map (fun kv : k2 * msg => mk_on (m_chan (snd kv)) (m_note (snd kv)) (m_vel (snd kv)) 0 false) opn).
        assert (Hoffs : no_wait offs = true) by (apply no_wait_map; reflexivity).
        assert (Hons : no_wait ons = true) by (apply no_wait_map; reflexivity).
        split; [lia|]. split; [|split; [|split; [|split]]].
        -- rewrite dur_rel_app, (dur_rel_nowait offs Hoffs).
           destruct (0 <? rem) eqn:R; [apply Z.ltb_lt in R | apply Z.ltb_ge in R].
           ++ rewrite dur_rel_app, dur_rel_cons. cbn. lia.
           ++ lia.
        -- rewrite !dur_rel_app, (dur_rel_nowait q Hq), (dur_rel_nowait ons Hons), dur_rel_cons. cbn. lia.
        -- rewrite !waits_nonneg_app, (no_wait_nonneg q Hq), (no_wait_nonneg ons Hons), Hnn.
           cbn. unfold wnn_b. cbn. replace (0 <=? m_time m - rem) with true; [reflexivity|].
           symmetry. apply Z.leb_le. lia.
        -- destruct q; [destruct ons|]; discriminate.
        -- intros [X|X]; apply app_nonnil.
           ++ destruct (0 <? rem); [now apply app_nonnil|exact X].
           ++ apply Z.ltb_lt in X. rewrite X. apply snoc_nonnil.
Qed.

(* one round of the loop on one track: it needs a further round exactly when it is longer than the bar, and then
   the remainder is shorter by exactly one bar length *)
Lemma sb_track_spec qnl len rel : waits_nonneg rel = true -> 0 < len ->
  tr_more (sb_track qnl len rel) = (len <? dur_rel rel) /\
  if tr_more (sb_track qnl len rel)
  then dur_rel (tr_rest (sb_track qnl len rel)) = dur_rel rel - len /\
       waits_nonneg (tr_rest (sb_track qnl len rel)) = true
  else tr_rest (sb_track qnl len rel) = [].
Proof.
  intros Hnn Hlen. pose proof (split_inner_spec rel [] [] [] len Hnn ltac:(lia) eq_refl) as S.
  unfold sb_track, seq_split. cbn [split_outer].
  destruct (split_inner rel [] [] [] len) as [c o|c o w]; cbn [split_post] in S.
  - cbn [split_outer app].
    replace (len <? dur_rel rel) with false by (symmetry; apply Z.ltb_ge; lia).
    destruct c as [|x c]; cbn; auto.
  - destruct S as (A & B & C & D & F & G). cbn [split_outer app].
    replace (len <? dur_rel rel) with true by (symmetry; apply Z.ltb_lt; lia).
    destruct c as [|x c]; [exfalso; apply G; [right; lia|reflexivity]|].
    destruct w as [|y w]; [congruence|]. cbn. split; [reflexivity|]. split; [exact C|exact D].
Qed.

(* ------------------------------------------------------------------ one round on all tracks *)
Definition all_nonneg (seqs : list (list msg)) : bool := forallb waits_nonneg seqs.
Definition all_pos (tsq : list msg) : bool := forallb (fun m => 0 <? blen (m_num m) (m_den m)) tsq.

Lemma maxdur_cons r s : maxdur (r :: s) = Z.max (dur_rel r) (maxdur s).
Proof. reflexivity. Qed.

Lemma maxdur_nonneg s : 0 <= maxdur s.
Proof. induction s as [|r s IH]; [cbn; lia|]. rewrite maxdur_cons. lia. Qed.

Lemma round_spec qnl len seqs : all_nonneg seqs = true -> 0 < len ->
  existsb tr_more (map (sb_track qnl len) seqs) = (len <? maxdur seqs) /\
  maxdur (map tr_rest (map (sb_track qnl len) seqs)) = Z.max 0 (maxdur seqs - len) /\
  all_nonneg (map tr_rest (map (sb_track qnl len) seqs)) = true.
Proof.
  intros Hnn Hlen. induction seqs as [|r s IH].
  - cbn. split; [|split; [lia|reflexivity]]. symmetry. apply Z.ltb_ge. lia.
  - cbn [all_nonneg forallb] in Hnn. apply andb_true_iff in Hnn as [Hr Hs].
    destruct (IH Hs) as (E & M & N). clear IH.
    destruct (sb_track_spec qnl len r Hr Hlen) as [Tm Tr].
    pose proof (maxdur_nonneg s) as Hs0.
    cbn [map existsb all_nonneg forallb]. rewrite !maxdur_cons, E, M. fold (all_nonneg (map tr_rest (map (sb_track qnl len) s))).
    rewrite N, Tm. rewrite Tm in Tr.
    destruct (len <? dur_rel r) eqn:A; [apply Z.ltb_lt in A; destruct Tr as [Tr1 Tr2]; rewrite Tr1, Tr2
                                       | apply Z.ltb_ge in A; rewrite Tr, dur_rel_nil];
    (destruct (len <? maxdur s) eqn:B; [apply Z.ltb_lt in B | apply Z.ltb_ge in B]);
    (destruct (len <? Z.max (dur_rel r) (maxdur s)) eqn:C; [apply Z.ltb_lt in C | apply Z.ltb_ge in C]);
    try lia; (split; [reflexivity|split; [lia|reflexivity]]).
Qed.

Lemma sig_pos tsq cur num den : all_pos tsq = true -> 0 < blen num den ->
  0 < blen (sig_num tsq cur num) (sig_den tsq cur den).
Proof.
  intros Hp H0. unfold sig_num, sig_den. destruct tsq as [|m r]; [exact H0|].
  cbn [all_pos forallb] in Hp. apply andb_true_iff in Hp as [Hm _]. apply Z.ltb_lt in Hm.
  destruct (m_time m <=? cur); assumption.
Qed.

Lemma q_rest_pos tsq cur : all_pos tsq = true -> all_pos (q_rest tsq cur) = true.
Proof.
  intros Hp. unfold q_rest. destruct tsq as [|m r]; [reflexivity|].
  destruct (m_time m <=? cur); [|exact Hp].
  cbn [all_pos forallb] in Hp. now apply andb_true_iff in Hp as [_ Hr].
Qed.

(* ------------------------------------------------------------------ the fuel suffices *)
Lemma sb_loop_fuel : forall fuel qnl seqs tsq ksq cur num den key acc,
  all_nonneg seqs = true -> all_pos tsq = true -> 0 < blen num den ->
  (Z.to_nat (maxdur seqs) < fuel)%nat ->
  sb_loop fuel qnl seqs tsq ksq cur num den key acc <> Err OutOfFuel.
Proof.
  induction fuel as [|f IH]; intros qnl seqs tsq ksq cur num den key acc Hnn Hp H0 Hf; [lia|].
  rewrite sb_loop_S. cbn zeta.
  pose proof (sig_pos tsq cur num den Hp H0) as Hlen.
  set (num' := sig_num tsq cur num) in *. set (den' := sig_den tsq cur den) in *.
  destruct (collect _ _ _ _) as [nb|e] eqn:C.
  - destruct (round_spec qnl (blen num' den') seqs Hnn Hlen) as (E & M & N). rewrite E.
    destruct (blen num' den' <? maxdur seqs) eqn:B; [apply Z.ltb_lt in B|discriminate].
    apply IH; [exact N|now apply q_rest_pos|exact Hlen|]. rewrite M. lia.
  - apply collect_err in C. apply in_map_iff in C as (x & C & _). apply bar_init_err in C. subst e. discriminate.
Qed.

Lemma init_tsq_pos meta : all_pos (filter is_ts meta) = true -> all_pos (init_tsq meta) = true.
Proof. unfold init_tsq. destruct (filter is_ts meta); [reflexivity|auto]. Qed.

Theorem C09_bar_length_positive_terminates rels meta qnl :
  all_nonneg rels = true -> all_pos (filter is_ts meta) = true ->
  split_bars rels meta qnl <> Err OutOfFuel.
Proof.
  intros Hnn Hp. rewrite split_bars_eq. apply sb_loop_fuel; [exact Hnn|now apply init_tsq_pos|reflexivity|lia].
Qed.

(* ------------------------------------------------------------------ number of rounds *)
Lemma sb_loop_cov : forall fuel qnl seqs tsq ksq cur num den key acc res,
  sb_loop fuel qnl seqs tsq ksq cur num den key acc = Ok res ->
  length acc = length seqs -> all_nonneg seqs = true -> all_pos tsq = true -> 0 < blen num den ->
  exists m, Forall2 (fun a r => length r = (length a + S m)%nat) acc res /\
    (maxdur seqs = 0 -> m = O) /\
    (0 < maxdur seqs -> snd (tsched m tsq cur num den) - cur < maxdur seqs) /\
    maxdur seqs <= snd (tsched (S m) tsq cur num den) - cur.
Proof.
  induction fuel as [|f IH]; intros qnl seqs tsq ksq cur num den key acc res H L Hnn Hp H0; [discriminate|].
  rewrite sb_loop_S in H. cbn zeta in H.
  pose proof (sig_pos tsq cur num den Hp H0) as Hlen.
  cbn [tsched].
  set (num' := sig_num tsq cur num) in *. set (den' := sig_den tsq cur den) in *.
  destruct (collect _ _ _ _) as [nb|e] eqn:C; [|discriminate].
  apply round_bars in C as [Lnb _].
  assert (E : Forall2 (fun a a' => exists b, a' = a ++ [b] /\ True) acc (extend acc nb)).
  { apply extend_Forall2; [congruence|]. apply Forall_forall. auto. }
  destruct (round_spec qnl (blen num' den') seqs Hnn Hlen) as (Ex & M & N). rewrite Ex in H.
  destruct (blen num' den' <? maxdur seqs) eqn:B; [apply Z.ltb_lt in B | apply Z.ltb_ge in B].
  - apply IH in H; [|rewrite extend_length, !map_length; congruence|exact N|now apply q_rest_pos|exact Hlen].
    destruct H as (m' & F & _ & S1 & S2). exists (S m'). rewrite M in S1, S2. split; [|split; [lia|split]].
    + eapply Forall2_compose; [|exact E|exact F]. cbn. intros a a' r (b & -> & _) ->.
      rewrite app_length. cbn. lia.
    + intros _. cbn [tsched]. fold num' den'. lia.
    + cbn [tsched]. fold num' den'. cbn [tsched] in S2. lia.
  - injection H as <-. exists O. split; [|split; [reflexivity|split]].
    + eapply Forall2_weaken; [|exact E]. cbn. intros a a' (b & -> & _). rewrite app_length. cbn. lia.
    + cbn. lia.
    + cbn [tsched snd]. lia.
Qed.

(* start ticks are the running sums of the bar lengths *)
Lemma tsched_start_S : forall k tsq cur num den,
  snd (tsched (S k) tsq cur num den) =
  snd (tsched k tsq cur num den) + blen (fst (fst (tsched k tsq cur num den))) (snd (fst (tsched k tsq cur num den))).
Proof.
  induction k as [|k IH]; intros tsq cur num den.
  - reflexivity.
  - change (tsched (S (S k)) tsq cur num den) with
      (tsched (S k) (q_rest tsq cur) (cur + blen (sig_num tsq cur num) (sig_den tsq cur den))
              (sig_num tsq cur num) (sig_den tsq cur den)).
    rewrite IH. reflexivity.
Qed.

Lemma bar_start_S meta k :
  bar_start meta (S k) = bar_start meta k + blen (fst (sig_schedule meta k)) (snd (sig_schedule meta k)).
Proof. unfold bar_start, sig_schedule. apply tsched_start_S. Qed.

Lemma bar_start_0 meta : bar_start meta O = 0.
Proof. reflexivity. Qed.

Definition bar_dur (b : bar) : Z := dur_rel (b_rel b).

Lemma bars_sum_starts meta : forall t k0,
  (forall j b, nth_error t j = Some b -> bar_ok b /\ (b_num b, b_den b) = sig_schedule meta (k0 + j)) ->
  sumZ (map bar_dur t) = bar_start meta (k0 + length t) - bar_start meta k0.
Proof.
  induction t as [|b t IH]; intros k0 H.
  - cbn. rewrite Nat.add_0_r. lia.
  - cbn [map sumZ length]. rewrite (IH (S k0)).
    + destruct (H O b eq_refl) as [[D _] Sg]. rewrite Nat.add_0_r in Sg.
      unfold bar_dur. rewrite D, bar_capacity_blen.
      replace (k0 + S (length t))%nat with (S k0 + length t)%nat by lia.
      rewrite (bar_start_S meta k0), <- Sg. cbn [fst snd]. lia.
    + intros j b' Hb'. replace (S k0 + j)%nat with (k0 + S j)%nat by lia. now apply H.
Qed.

Lemma nth_error_firstn {A} : forall k (l : list A) j x, nth_error (firstn k l) j = Some x -> nth_error l j = Some x.
Proof.
  induction k as [|k IH]; intros l j x H; [destruct j; discriminate|].
  destruct l as [|y l]; [destruct j; discriminate|]. destruct j; [exact H|]. cbn in *. now apply IH.
Qed.

Theorem C09_bar_starts rels meta qnl bars : split_bars rels meta qnl = Ok bars ->
  forall t k, In t bars -> (k <= length t)%nat -> sumZ (map bar_dur (firstn k t)) = bar_start meta k.
Proof.
  intro H. apply split_bars_spec in H as (L & m & F). intros t k Ht Hk.
  rewrite Forall_forall in F. destruct (F t Ht) as (Lt & Fb & Sg). rewrite Forall_forall in Fb.
  rewrite (bars_sum_starts meta (firstn k t) O).
  - rewrite firstn_length, Nat.min_l by exact Hk. cbn [Nat.add]. rewrite bar_start_0. lia.
  - intros j b Hb. apply nth_error_firstn in Hb. split; [apply Fb; eapply nth_error_In; eauto|now apply Sg].
Qed.

Theorem C09_coverage rels meta qnl bars : split_bars rels meta qnl = Ok bars ->
  all_nonneg rels = true -> all_pos (filter is_ts meta) = true ->
  forall t, In t bars ->
    (maxdur rels = 0 -> length t = 1%nat) /\
    (0 < maxdur rels -> sumZ (map bar_dur (removelast t)) < maxdur rels) /\
    maxdur rels <= sumZ (map bar_dur t).
Proof.
  intros H Hnn Hp t Ht. pose proof (C09_bar_starts _ _ _ _ H t) as ST.
  rewrite split_bars_eq in H. apply sb_loop_cov in H;
    [|now rewrite map_length|exact Hnn|now apply init_tsq_pos|reflexivity].
  destruct H as (m & F & C0 & C1 & C2).
  assert (Lt : length t = S m).
  { clear - F Ht. remember (map (fun _ : list msg => @nil bar) rels) as acc eqn:Ea.
    assert (Hn : Forall (fun a => a = []) acc) by (subst acc; apply Forall_forall; intros a Ha;
      apply in_map_iff in Ha as (? & <- & _); reflexivity).
    clear Ea. induction F as [|a r acc bars Har F IH]; [destruct Ht|].
    inversion Hn as [|? ? -> Hn']; subst. destruct Ht as [<-|Ht]; [exact Har|now apply IH]. }
  fold (bar_start meta m) in C1. fold (bar_start meta (S m)) in C2.
  rewrite removelast_firstn_len, Lt. cbn [pred].
  rewrite (ST m Ht) by lia. rewrite <- (firstn_all t), Lt, (ST (S m) Ht) by lia.
  split; [intro Z0; now rewrite (C0 Z0)|]. split; [intro P; specialize (C1 P)|]; lia.
Qed.

(* ------------------------------------------------------------------ aligned signature changes: the signature in force *)
(* the last message of l (in list order) whose time is <= t, default def *)
Definition in_force (def : Z * Z) (l : list msg) (t : Z) : Z * Z :=
  fold_left (fun acc m => if m_time m <=? t then (m_num m, m_den m) else acc) l def.

(* s = time of the previous signature message (a bar start), len = its bar length: the next message comes strictly
   later, a whole number of bars after it, and has a positive bar length itself *)
Fixpoint aligned_after (s len : Z) (l : list msg) : bool :=
  match l with
  | [] => true
  | m :: r => (s <? m_time m) && ((m_time m - s) mod len =? 0) && (0 <? blen (m_num m) (m_den m))
              && aligned_after (m_time m) (blen (m_num m) (m_den m)) r
  end.
Definition aligned_from (cur len : Z) (l : list msg) : bool :=
  match l with
  | [] => true
  | m :: r => (cur <=? m_time m) && ((m_time m - cur) mod len =? 0) && (0 <? blen (m_num m) (m_den m))
              && aligned_after (m_time m) (blen (m_num m) (m_den m)) r
  end.
(* the first signature message sits on the 4/4 grid that starts at tick 0 *)
Definition ts_aligned (meta : list msg) : bool := aligned_from 0 (blen 4 4) (filter is_ts meta).
Definition sig_in_force (meta : list msg) (t : Z) : Z * Z := in_force (4, 4) (filter is_ts meta) t.

Lemma in_force_cons def m r t :
  in_force def (m :: r) t = in_force (if m_time m <=? t then (m_num m, m_den m) else def) r t.
Proof. reflexivity. Qed.

Lemma in_force_later : forall l def s len t, aligned_after s len l = true -> t <= s -> in_force def l t = def.
Proof.
  induction l as [|m r IH]; intros def s len t H Ht; [reflexivity|].
  cbn [aligned_after] in H. apply andb_true_iff in H as [H H4]. apply andb_true_iff in H as [H H3].
  apply andb_true_iff in H as [H1 H2]. apply Z.ltb_lt in H1.
  rewrite in_force_cons. replace (m_time m <=? t) with false by (symmetry; apply Z.leb_gt; lia).
  eapply IH; [exact H4|lia].
Qed.

Lemma mod_step x len : 0 < len -> 0 < x -> x mod len = 0 -> len <= x /\ (x - len) mod len = 0.
Proof.
  intros Hl Hx Hm. apply Z.mod_divide in Hm; [|lia]. destruct Hm as [q ->].
  assert (Hq : 1 <= q) by (destruct (Z_le_gt_dec q 0); [nia|lia]). split; [nia|].
  replace (q * len - len) with ((q - 1) * len) by ring. apply Z.mod_mul. lia.
Qed.

Lemma aligned_after_from s len l : 0 < len -> aligned_after s len l = true -> aligned_from (s + len) len l = true.
Proof.
  intros Hl H. destruct l as [|m r]; [reflexivity|].
  cbn [aligned_after] in H. cbn [aligned_from].
  apply andb_true_iff in H as [H H4]. apply andb_true_iff in H as [H H3].
  apply andb_true_iff in H as [H1 H2]. apply Z.ltb_lt in H1. apply Z.eqb_eq in H2.
  destruct (mod_step (m_time m - s) len Hl ltac:(lia) H2) as [A B].
  rewrite H3, H4. replace (m_time m - (s + len)) with (m_time m - s - len) by ring. rewrite B.
  replace (s + len <=? m_time m) with true by (symmetry; apply Z.leb_le; lia). reflexivity.
Qed.

Lemma tsched_in_force : forall k tsq cur num den,
  0 < blen num den -> aligned_from cur (blen num den) tsq = true ->
  cur <= snd (tsched k tsq cur num den) /\
  fst (tsched k tsq cur num den) = in_force (num, den) tsq (snd (tsched k tsq cur num den)).
Proof.
  induction k as [|k IH]; intros tsq cur num den H0 Ha.
  - cbn [tsched fst snd]. split; [lia|]. destruct tsq as [|m r]; [reflexivity|].
    cbn [aligned_from] in Ha. apply andb_true_iff in Ha as [Ha H4]. apply andb_true_iff in Ha as [Ha H3].
    apply andb_true_iff in Ha as [H1 H2]. apply Z.leb_le in H1.
    cbn [sig_num sig_den]. rewrite in_force_cons.
    destruct (m_time m <=? cur); symmetry; eapply in_force_later; try exact H4; lia.
  - cbn [tsched]. destruct tsq as [|m r].
    + cbn [sig_num sig_den q_rest].
      destruct (IH [] (cur + blen num den) num den H0 eq_refl) as [A B]. split; [lia|exact B].
    + cbn [aligned_from] in Ha. apply andb_true_iff in Ha as [Ha H4]. apply andb_true_iff in Ha as [Ha H3].
      apply andb_true_iff in Ha as [H1 H2]. apply Z.leb_le in H1. apply Z.eqb_eq in H2.
      pose proof H3 as H3'. apply Z.ltb_lt in H3'.
      cbn [sig_num sig_den q_rest]. destruct (m_time m <=? cur) eqn:E; [apply Z.leb_le in E | apply Z.leb_gt in E].
      * assert (Hc : m_time m = cur) by lia. rewrite Hc in H4.
        destruct (IH r (cur + blen (m_num m) (m_den m)) (m_num m) (m_den m) H3'
                     (aligned_after_from _ _ _ H3' H4)) as [A B].
        split; [lia|]. rewrite B at 1. rewrite in_force_cons.
        replace (m_time m <=? _) with true by (symmetry; apply Z.leb_le; lia). reflexivity.
      * destruct (mod_step (m_time m - cur) (blen num den) H0 ltac:(lia) H2) as [A0 B0].
        assert (Ha' : aligned_from (cur + blen num den) (blen num den) (m :: r) = true).
        { cbn [aligned_from]. rewrite H3, H4.
          replace (m_time m - (cur + blen num den)) with (m_time m - cur - blen num den) by ring. rewrite B0.
          replace (cur + blen num den <=? m_time m) with true by (symmetry; apply Z.leb_le; lia). reflexivity. }
        destruct (IH (m :: r) (cur + blen num den) num den H0 Ha') as [A B]. split; [lia|exact B].
Qed.

Lemma sig_schedule_in_force meta k : ts_aligned meta = true ->
  sig_schedule meta k = sig_in_force meta (bar_start meta k).
Proof.
  unfold ts_aligned, sig_schedule, bar_start, sig_in_force, init_tsq. intro Ha.
  destruct (filter is_ts meta) as [|m r] eqn:F.
  - destruct (tsched_in_force k [mk_ts 0 4 4 0 false] 0 4 4 eq_refl eq_refl) as [_ B]. rewrite B.
    rewrite in_force_cons. cbn [in_force fold_left]. now destruct (_ <=? _).
  - now destruct (tsched_in_force k (m :: r) 0 4 4 eq_refl Ha) as [_ B].
Qed.

Theorem C09_signature_in_force rels meta qnl bars : split_bars rels meta qnl = Ok bars ->
  ts_aligned meta = true ->
  forall t k b, In t bars -> nth_error t k = Some b ->
    (b_num b, b_den b) = sig_in_force meta (sumZ (map bar_dur (firstn k t))).
Proof.
  intros H Ha t k b Ht Hb.
  assert (Hk : (k <= length t)%nat) by (apply Nat.lt_le_incl, nth_error_Some; congruence).
  rewrite (C09_bar_starts _ _ _ _ H t k Ht Hk), <- sig_schedule_in_force by exact Ha.
  now apply (C09_signature_in_force_schedule _ _ _ _ H t k b).
Qed.

(* ------------------------------------------------------------------ aligned key changes: the key in force *)
Definition key_force (def : option Key) (l : list msg) (t : Z) : option Key :=
  fold_left (fun acc m => if m_time m <=? t then m_key m else acc) l def.
Fixpoint increasing_after (s : Z) (l : list msg) : bool :=
  match l with [] => true | m :: r => (s <? m_time m) && increasing_after (m_time m) r end.
Definition increasing (l : list msg) : bool :=
  match l with [] => true | m :: r => increasing_after (m_time m) r end.
(* t is the start tick of one of the bars of the grid derived from the meta track *)
Definition on_grid (meta : list msg) (t : Z) : bool :=
  existsb (fun j => bar_start meta j =? t) (seq 0 (S (Z.to_nat t))).
Definition ks_aligned (meta : list msg) : bool :=
  increasing (init_ksq meta) && forallb (fun m => on_grid meta (m_time m)) (init_ksq meta).
Definition key_in_force (meta : list msg) (t : Z) : option Key := key_force None (init_ksq meta) t.

Lemma key_force_cons def m r t : key_force def (m :: r) t = key_force (if m_time m <=? t then m_key m else def) r t.
Proof. reflexivity. Qed.

Lemma increasing_after_lt : forall l s m, increasing_after s l = true -> In m l -> s < m_time m.
Proof.
  induction l as [|x l IH]; intros s m H I; [destruct I|].
  cbn [increasing_after] in H. apply andb_true_iff in H as [H1 H2]. apply Z.ltb_lt in H1.
  destruct I as [<-|I]; [exact H1|]. specialize (IH _ _ H2 I). lia.
Qed.

Lemma key_force_later : forall l def s t, increasing_after s l = true -> t <= s -> key_force def l t = def.
Proof.
  induction l as [|m r IH]; intros def s t H Ht; [reflexivity|].
  cbn [increasing_after] in H. apply andb_true_iff in H as [H1 H2]. apply Z.ltb_lt in H1.
  rewrite key_force_cons. replace (m_time m <=? t) with false by (symmetry; apply Z.leb_gt; lia).
  eapply IH; [exact H2|lia].
Qed.

Lemma increasing_tail m r : increasing (m :: r) = true -> increasing r = true.
Proof.
  cbn [increasing]. destruct r as [|m2 r2]; [reflexivity|]. cbn [increasing_after increasing].
  intro H. now apply andb_true_iff in H as [_ H].
Qed.

Lemma tsched_start_mono : forall j tsq cur num den, all_pos tsq = true -> 0 < blen num den ->
  cur <= snd (tsched j tsq cur num den) /\ (j <> O -> cur < snd (tsched j tsq cur num den)).
Proof.
  induction j as [|j IH]; intros tsq cur num den Hp H0.
  - cbn. split; [lia|congruence].
  - cbn [tsched]. pose proof (sig_pos tsq cur num den Hp H0) as Hl.
    destruct (IH (q_rest tsq cur) (cur + blen (sig_num tsq cur num) (sig_den tsq cur den))
                 (sig_num tsq cur num) (sig_den tsq cur den) (q_rest_pos _ _ Hp) Hl) as [A _].
    split; [lia|intros _; lia].
Qed.

Lemma ksched_in_force : forall k tsq ksq cur num den key,
  all_pos tsq = true -> 0 < blen num den -> increasing ksq = true ->
  (forall m, In m ksq -> exists j, snd (tsched j tsq cur num den) = m_time m) ->
  ksched k tsq ksq cur num den key = key_force key ksq (snd (tsched k tsq cur num den)).
Proof.
  induction k as [|k IH]; intros tsq ksq cur num den key Hp H0 Hi Hg.
  - cbn [ksched tsched snd]. destruct ksq as [|m r]; [reflexivity|].
    destruct (Hg m (or_introl eq_refl)) as [j Hj].
    destruct (tsched_start_mono j tsq cur num den Hp H0) as [Hge _]. rewrite Hj in Hge.
    cbn [key_cur increasing] in *. rewrite key_force_cons.
    destruct (m_time m <=? cur); symmetry; eapply key_force_later; try exact Hi; lia.
  - cbn [ksched tsched]. pose proof (sig_pos tsq cur num den Hp H0) as Hl.
    set (num' := sig_num tsq cur num) in *. set (den' := sig_den tsq cur den) in *.
    assert (Hgt : forall m, In m ksq -> cur < m_time m ->
              exists j, snd (tsched j (q_rest tsq cur) (cur + blen num' den') num' den') = m_time m).
    { intros m I Lt. destruct (Hg m I) as [[|j] Hj]; [cbn in Hj; lia|]. exists j. exact Hj. }
    destruct (tsched_start_mono k (q_rest tsq cur) (cur + blen num' den') num' den' (q_rest_pos _ _ Hp) Hl)
      as [Hk _].
    destruct ksq as [|m r].
    + cbn [key_cur q_rest]. apply IH; [now apply q_rest_pos|exact Hl|reflexivity|intros m []].
    + destruct (Hg m (or_introl eq_refl)) as [j Hj].
      destruct (tsched_start_mono j tsq cur num den Hp H0) as [Hge _]. rewrite Hj in Hge.
      cbn [key_cur q_rest]. rewrite key_force_cons.
      destruct (m_time m <=? cur) eqn:E; [apply Z.leb_le in E | apply Z.leb_gt in E].
      * replace (m_time m <=? _) with true by (symmetry; apply Z.leb_le; lia).
        apply IH; [now apply q_rest_pos|exact Hl|now apply increasing_tail in Hi|].
        intros m' I. apply Hgt; [now right|]. cbn [increasing] in Hi.
        pose proof (increasing_after_lt _ _ _ Hi I). lia.
      * rewrite <- key_force_cons.
        apply IH; [now apply q_rest_pos|exact Hl|exact Hi|].
        intros m' [<-|I]; apply Hgt; [now left|exact E|now right|]. cbn [increasing] in Hi.
        pose proof (increasing_after_lt _ _ _ Hi I). lia.
Qed.

Lemma key_schedule_in_force meta k : all_pos (filter is_ts meta) = true -> ks_aligned meta = true ->
  key_schedule meta k = key_in_force meta (bar_start meta k).
Proof.
  intros Hp Ha. unfold ks_aligned in Ha. apply andb_true_iff in Ha as [Hi Hg].
  unfold key_schedule, key_in_force, bar_start.
  apply ksched_in_force; [now apply init_tsq_pos|reflexivity|exact Hi|].
  intros m I. rewrite forallb_forall in Hg. specialize (Hg m I). unfold on_grid in Hg.
  apply existsb_exists in Hg as (j & _ & Hj). apply Z.eqb_eq in Hj. exists j. exact Hj.
Qed.

Theorem C09_key_in_force rels meta qnl bars : split_bars rels meta qnl = Ok bars ->
  all_pos (filter is_ts meta) = true -> ks_aligned meta = true ->
  forall t k b, In t bars -> nth_error t k = Some b ->
    b_key b = key_in_force meta (sumZ (map bar_dur (firstn k t))).
Proof.
  intros H Hp Ha t k b Ht Hb.
  assert (Hk : (k <= length t)%nat) by (apply Nat.lt_le_incl, nth_error_Some; congruence).
  rewrite (C09_bar_starts _ _ _ _ H t k Ht Hk), <- key_schedule_in_force by assumption.
  now apply (C09_signature_in_force_schedule _ _ _ _ H t k b).
Qed.

(* ------------------------------------------------------------------ non-vacuity and necessity of the hypotheses *)
Module C09_examples.
Import Show.

(* three tracks of unequal length (one empty), notes crossing bar lines, 3/4 -> 2/4 -> 6/8 and C -> G on bar lines *)
Definition ex_rels : list (list msg) :=
  [[on 0 60 100 0; wt 0 120; of 0 60 0; wt 0 100]; []; [wt 0 50; on 1 40 90 0; wt 1 30; of 1 40 0]].
Definition ex_meta : list msg :=
  to_abs [ts 0 3 4 0; ks 0 K_C 0; wt 0 72; ts 0 2 4 0; wt 0 48; ks 0 K_G 0; wt 0 48; ts 0 6 8 0].

Example ex_hypotheses :
  (exists bars, split_bars ex_rels ex_meta false = Ok bars /\ map (@length bar) bars = [4; 4; 4]%nat) /\
  (exists bars, split_bars ex_rels ex_meta true = Ok bars /\ map (@length bar) bars = [4; 4; 4]%nat) /\
  all_nonneg ex_rels = true /\ all_pos (filter is_ts ex_meta) = true /\
  ts_aligned ex_meta = true /\ ks_aligned ex_meta = true /\ maxdur ex_rels = 220 /\
  map (sig_schedule ex_meta) (seq 0 4) = [(3, 4); (2, 4); (2, 4); (6, 8)] /\
  map (key_schedule ex_meta) (seq 0 4) = [Some K_C; Some K_C; Some K_G; Some K_G] /\
  map (bar_start ex_meta) (seq 0 5) = [0; 72; 120; 168; 240].
Proof.
  split; [eexists; split; vm_compute; reflexivity|].
  split; [eexists; split; vm_compute; reflexivity|].
  vm_compute. repeat split; reflexivity.
Qed.

(* both kinds of error are reachable *)
Example ex_bar_error : split_bars [[ts 0 3 4 0; ts 0 2 4 0; wt 0 10]] [] false = Err BarErr.
Proof. vm_compute. reflexivity. Qed.

(* C09_bar_length_positive_terminates needs non-negative waits: with a negative wait the model's fuel (computed
   from the total duration) runs out although the Python loop would stop after four rounds *)
Example ex_negative_wait_out_of_fuel :
  all_nonneg [[wt 0 100; wt 0 100; wt 0 100; wt 0 (-300)]] = false /\
  split_bars [[wt 0 100; wt 0 100; wt 0 100; wt 0 (-300)]] [] false = Err OutOfFuel.
Proof. vm_compute. split; reflexivity. Qed.

(* C09_signature_in_force needs alignment: the loop takes at most one signature message per bar, so of two
   messages at the same tick the second only takes effect one bar later, and a change inside a bar takes effect at
   the next bar line *)
Example ex_same_tick_delayed :
  let meta := to_abs [ts 0 3 4 0; ts 0 2 4 0] in
  ts_aligned meta = false /\ sig_schedule meta 0 = (3, 4) /\ sig_in_force meta (bar_start meta 0) = (2, 4) /\
  exists b1 b2, split_bars [[wt 0 100]] meta false = Ok [[b1; b2]] /\ (b_num b1, b_den b1) = (3, 4).
Proof. vm_compute. repeat split; try reflexivity. eexists. eexists. split; reflexivity. Qed.

Example ex_mid_bar_delayed :
  let meta := to_abs [ts 0 3 4 0; wt 0 10; ts 0 2 4 0] in
  ts_aligned meta = false /\ map (sig_schedule meta) (seq 0 3) = [(3, 4); (2, 4); (2, 4)] /\
  map (bar_start meta) (seq 0 3) = [0; 72; 120].
Proof. vm_compute. repeat split; reflexivity. Qed.
End C09_examples.
