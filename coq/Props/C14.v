(* C14 -- Transposition shifts each pitch class by the interval, keeping pitches in range.
   Model: Seq.wrap / transpose_msg / transpose (RelativeSequence.transpose), Store.seq_transpose (Sequence.transpose),
   generated Gen.MusicTheory.transpose_key.  Helper predicates (Proofs/C14_proofs.v):
     in_range n        := NOTE_LOWER_BOUND <=? n && n <=? NOTE_UPPER_BOUND          (21..108)
     is_keysig m       := the message type is KEY_SIGNATURE
     notes_in_range l  := every NOTE_ON / NOTE_OFF of l has an in-range pitch
     plain_msg k m     := m with pitch + k (notes) / key transposed by k (key signatures) / m itself (others)
   Bar.transpose (modelled in Model/Comp.v, see the C14_bar theorems at the end of this file) (key signature stored on a bar) is not part of the model; for bars only the totality of
   transpose_key (C20_total, used in C14_keys) is covered. *)
From Coq Require Import ZArith List Bool.
From Model Require Import Base Seq Pairing Store.
From Proofs Require Import C20_proofs C14_proofs.
Import ListNotations.
Open Scope Z_scope.

(* the two octave loops terminate within the fuel the model gives them, for EVERY integer: the result is in the
   playable range and differs from the argument by a multiple of 12 (pitch class kept) *)
Theorem C14_wrap_range : forall n : Z,
  NOTE_LOWER_BOUND <= wrap n <= NOTE_UPPER_BOUND /\ (wrap n - n) mod 12 = 0.
Proof. exact C14_proofs.C14_wrap_range. Qed.
Print Assumptions C14_wrap_range.

(* the fuel is not a restriction: any larger fuel gives the same result, i.e. both loops have reached their exit
   condition (this is the termination argument of the two while loops) *)
Theorem C14_wrap_fuel : forall (n : Z) (f : nat), (wrap_fuel n <= f)%nat -> wrap_down f (wrap_up f n) = wrap n.
Proof. exact C14_proofs.C14_wrap_fuel. Qed.
Print Assumptions C14_wrap_fuel.

(* wrap is the identity exactly on the playable range *)
Theorem C14_wrap_id : forall n : Z, wrap n = n <-> NOTE_LOWER_BOUND <= n <= NOTE_UPPER_BOUND.
Proof. exact C14_proofs.C14_wrap_id. Qed.
Print Assumptions C14_wrap_id.

(* clause "leaves every note inside the playable range": any list, any integer interval *)
Theorem C14_range : forall (l : list msg) (k : Z) (m : msg),
  In m (fst (transpose l k)) -> is_note m = true -> NOTE_LOWER_BOUND <= m_note m <= NOTE_UPPER_BOUND.
Proof. exact C14_proofs.C14_range. Qed.
Print Assumptions C14_range.

(* clause "every resulting note is the image of an original note with its pitch class shifted by exactly the
   interval": same length, and position by position a note message only changes its pitch, to a value congruent to
   pitch + k modulo 12; a key signature only changes its key; every other message is untouched (so waits, i.e. onsets
   and durations, and velocities are untouched) *)
Theorem C14_image : forall (l : list msg) (k : Z),
  length (fst (transpose l k)) = length l /\
  forall i m, nth_error l i = Some m ->
    exists m', nth_error (fst (transpose l k)) i = Some m' /\
      (is_note m = true -> m' = set_note m (m_note m') /\ (m_note m' - (m_note m + k)) mod 12 = 0) /\
      (is_note m = false -> is_keysig m = true -> m' = set_key m (m_key m')) /\
      (is_note m = false -> is_keysig m = false -> m' = m).
Proof. exact C14_proofs.C14_image. Qed.
Print Assumptions C14_image.

(* clause "returns true exactly when some note had to be moved by octaves" *)
Theorem C14_flag : forall (l : list msg) (k : Z),
  snd (transpose l k) = existsb (fun m => is_note m && negb (in_range (m_note m + k))) l.
Proof. exact C14_proofs.C14_flag. Qed.
Print Assumptions C14_flag.

(* clause "when nothing is moved by octaves every note is shifted by exactly the interval with onsets, durations and
   velocities untouched" *)
Theorem C14_plain : forall (l : list msg) (k : Z),
  snd (transpose l k) = false -> fst (transpose l k) = map (plain_msg k) l.
Proof. exact C14_proofs.C14_plain. Qed.
Print Assumptions C14_plain.

(* what plain_msg changes: nothing but the pitch of notes (+ k) and the key of key signatures *)
Theorem C14_plain_fields : forall (k : Z) (m : msg),
  m_type (plain_msg k m) = m_type m /\ m_chan (plain_msg k m) = m_chan m /\ m_time (plain_msg k m) = m_time m /\
  m_tf (plain_msg k m) = m_tf m /\ m_vel (plain_msg k m) = m_vel m /\ m_ctrl (plain_msg k m) = m_ctrl m /\
  m_prog (plain_msg k m) = m_prog m /\ m_num (plain_msg k m) = m_num m /\ m_den (plain_msg k m) = m_den m /\
  (is_note m = true -> m_note (plain_msg k m) = m_note m + k /\ m_key (plain_msg k m) = m_key m) /\
  (is_note m = false -> m_note (plain_msg k m) = m_note m) /\
  (is_note m = false -> is_keysig m = false -> plain_msg k m = m).
Proof. exact C14_proofs.plain_msg_fields. Qed.
Print Assumptions C14_plain_fields.

(* clause "... and transposing back restores the original": flag false and all input pitches in range => the
   transposition back by -k does not wrap either and restores every message that is not a key signature exactly *)
Theorem C14_back : forall (l : list msg) (k : Z),
  snd (transpose l k) = false -> notes_in_range l = true ->
  snd (transpose (fst (transpose l k)) (- k)) = false /\
  length (fst (transpose (fst (transpose l k)) (- k))) = length l /\
  forall i m, nth_error l i = Some m -> is_keysig m = false ->
              nth_error (fst (transpose (fst (transpose l k)) (- k))) i = Some m.
Proof. exact C14_proofs.C14_back. Qed.
Print Assumptions C14_back.

(* PARTIAL for key signatures: transposing back restores a key signature only up to enharmonic spelling (same
   tonic), not literally.  Missing: literal equality, which is false (see C14_back_keys_refuted). *)
Theorem C14_back_keys_partial : forall (l : list msg) (k : Z),
  snd (transpose l k) = false -> notes_in_range l = true ->
  forall i m ky, nth_error l i = Some m -> is_keysig m = true -> m_key m = Some ky ->
    exists ky2, nth_error (fst (transpose (fst (transpose l k)) (- k))) i = Some (set_key m (Some ky2)) /\
                tonic ky2 = tonic ky.
Proof. exact C14_proofs.C14_back_keys. Qed.
Print Assumptions C14_back_keys_partial.

(* REFUTED for the literal reading "transposing back restores the original" on key signatures: D flat major, +1,
   -1 comes back as C sharp major *)
Theorem C14_back_keys_refuted : exists (l : list msg) (k : Z) (m : msg),
  snd (transpose l k) = false /\ notes_in_range l = true /\ nth_error l 0 = Some m /\
  nth_error (fst (transpose (fst (transpose l k)) (- k))) 0 <> Some m.
Proof.
  exists C14_proofs.ex_l, 1, (mk_ks 0 (Some K_D_B) 0 false). vm_compute. repeat split; congruence.
Qed.
Print Assumptions C14_back_keys_refuted.

(* clause "key signatures in the sequence are transposed by the same interval and never become undefined" *)
Theorem C14_keys : forall (l : list msg) (k : Z) (i : nat) (m : msg) (ky : Key),
  nth_error l i = Some m -> is_keysig m = true -> m_key m = Some ky ->
  exists ky', transpose_key ky k = Some ky' /\
              nth_error (fst (transpose l k)) i = Some (set_key m (Some ky')).
Proof. exact C14_proofs.C14_keys. Qed.
Print Assumptions C14_keys.

(* lift to the Sequence wrapper: the returned flag is the flag of the relative view, for every sequence whose
   relative view can be read (not both views stale), and the call never raises *)
Theorem C14_seq_flag : forall (s s1 : seq) (r : list msg) (k : Z),
  get_rel s = Ok (s1, r) -> exists s', seq_transpose s k = Ok (s', snd (transpose r k)).
Proof. exact C14_proofs.C14_seq_flag. Qed.
Print Assumptions C14_seq_flag.

(* flag false: the new relative view is exactly the transposed list, no normalisation / re-quantisation happens, the
   absolute view is marked stale *)
Theorem C14_seq : forall (s s1 : seq) (r : list msg) (k : Z),
  get_rel s = Ok (s1, r) -> snd (transpose r k) = false ->
  seq_transpose s k = Ok (mkseq (s_abs s1) (fst (transpose r k)) true false, false).
Proof. exact C14_proofs.C14_seq. Qed.
Print Assumptions C14_seq.

(* flag true: the transposed list is normalised and its note lengths re-quantised *)
Theorem C14_seq_wrapped : forall (s s1 : seq) (r : list msg) (k : Z),
  get_rel s = Ok (s1, r) -> snd (transpose r k) = true ->
  seq_transpose s k =
    Ok (mkseq (quantise_note_lengths (to_abs (normalise (fst (transpose r k)))) get_default_note_values PPQN false)
              (normalise (fst (transpose r k))) false true, true).
Proof. exact C14_proofs.C14_seq_wrapped. Qed.
Print Assumptions C14_seq_wrapped.

(* ================================================================ Bar.transpose (Model/Comp.v, Proofs/Comp_proofs.v)
   cbar_transpose b k = Bar.transpose(k): returns the new bar and the "some note was moved by octaves" flag.
   (This supersedes the remark in the header that Bar.transpose is not part of the model.) *)
From Model Require Import Comp.
From Proofs Require Import Comp_proofs.

(* clause "key signatures ... on bars are transposed by the same interval and never become undefined": the bar's key
   becomes transpose_key of it (always defined; its tonic is the old tonic + k modulo 12), a bar without key stays
   without key, the signature is kept, and the bar's sequence and the returned flag are exactly those of
   Sequence.transpose on the bar's sequence -- so C14_seq_flag / C14_seq / C14_seq_wrapped and through them every
   list-level theorem above describe the bar's notes *)
Theorem C14_bar_key : forall (b b' : cbar) (k : Z) (f : bool), cbar_transpose b k = Ok (b', f) ->
  seq_transpose (cb_seq b) k = Ok (cb_seq b', f) /\
  cb_num b' = cb_num b /\ cb_den b' = cb_den b /\
  (forall ky, cb_key b = Some ky ->
     exists ky' t, cb_key b' = Some ky' /\ transpose_key ky k = Some ky' /\
                   tonic ky = Some t /\ tonic ky' = Some ((t + k) mod 12)) /\
  (cb_key b = None -> cb_key b' = None).
Proof. exact Comp_proofs.C14_bar_key. Qed.
Print Assumptions C14_bar_key.

(* Bar.transpose never raises on a bar whose sequence can be read (not both views stale), for every integer interval;
   the flag is the flag of the relative view (C14_flag) *)
Theorem C14_bar_transpose_total : forall (b : cbar) (k : Z) (s1 : seq) (r : list msg),
  get_rel (cb_seq b) = Ok (s1, r) -> exists b', cbar_transpose b k = Ok (b', snd (transpose r k)).
Proof. exact Comp_proofs.C14_bar_transpose_total. Qed.
Print Assumptions C14_bar_transpose_total.

(* in particular on every bar returned by the Bar constructor *)
Theorem C14_bar_transpose_new : forall (s : seq) (num den : Z) (key : option Key) (b : cbar) (k : Z),
  cbar_new s num den key = Ok b ->
  exists b', cbar_transpose b k = Ok (b', snd (transpose (s_rel (cb_seq b)) k)).
Proof. exact Comp_proofs.C14_bar_transpose_new. Qed.
Print Assumptions C14_bar_transpose_new.

(* flag false: the bar's new relative view is the old one with every note shifted by exactly k (plain_msg) *)
Theorem C14_bar_plain : forall (b b' : cbar) (k : Z) (s1 : seq) (r : list msg),
  get_rel (cb_seq b) = Ok (s1, r) -> cbar_transpose b k = Ok (b', false) ->
  cb_seq b' = mkseq (s_abs s1) (map (plain_msg k) r) true false.
Proof. exact Comp_proofs.C14_bar_plain. Qed.
Print Assumptions C14_bar_plain.

(* inside a composition all of whose bars / tracks were made by the constructors (comp_built, e.g. the result of
   Composition.from_sequences or of a copy: C16_comp_copy): transposing bar bi of track ti never raises and puts the
   transposed bar at (ti, bi); C16_comp_frame says nothing else changes *)
Theorem C14_comp_bar_transpose : forall (c : comp) (ti bi : nat) (t : ctrack) (b : cbar) (k : Z),
  comp_built c -> nth_error c ti = Some t -> nth_error (ct_bars t) bi = Some b ->
  exists b' c', cbar_transpose b k = Ok (b', snd (transpose (s_rel (cb_seq b)) k)) /\
    comp_on_bar c ti bi (fun x => do '(x', _) <- cbar_transpose x k; Ok x') = Ok c' /\
    exists t', nth_error c' ti = Some t' /\ nth_error (ct_bars t') bi = Some b'.
Proof. exact Comp_proofs.C14_comp_bar_transpose. Qed.
Print Assumptions C14_comp_bar_transpose.
