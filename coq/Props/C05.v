(* C05 -- Quantise puts every event on the grid and keeps every note well-formed.
   Statements about Model.Pairing.quantise (absolute list in stored order, list of step sizes).
   Auxiliary definitions: pos_steps, maxZ, nonnote, qnt, qmove, sorted_time, quantise_core (Proofs/C05_proofs.v);
   kproj (note messages of one (channel, pitch) key), kst / kstep / krun (run of one key), wf_key, wf_abs,
   kst_closed (Proofs/C05_wf.v). *)
From Coq Require Import ZArith List Bool Lia Permutation.
From Model Require Import Base Seq Pairing.
From Proofs Require Import C05_closest C05_proofs C05_wf C05_sweep C05_sort C05_final C05_survive.
Import ListNotations.
Open Scope Z_scope.

(* quantise never fails when at least one step size is given *)
Theorem C05_ok : forall l steps, steps <> [] -> exists out, quantise l steps = Ok out.
Proof. exact C05_proofs.C05_ok. Qed.
Print Assumptions C05_ok.

(* clause "every remaining event lies on a tick divisible by at least one step size": for ANY input list and any
   non-empty step list (no positivity, no well-formedness needed) *)
Theorem C05_grid : forall l steps out, steps <> [] -> quantise l steps = Ok out ->
  Forall (fun m => existsb (fun s => m_time m mod s =? 0) steps = true) out.
Proof. exact C05_proofs.C05_grid. Qed.
Print Assumptions C05_grid.

(* clause "Non-note events are all kept": the non-note messages of the output are, as a multiset, exactly the
   non-note messages of the input, each with only its time changed (to the closest grid position qnt of its own
   time; qmove steps m = set_time m (qnt steps m) (m_tf m)).  Any input, any non-empty step list. *)
Theorem C05_keep_other : forall l steps out, steps <> [] -> quantise l steps = Ok out ->
  Permutation (filter nonnote out) (map (qmove steps) (filter nonnote l)).
Proof. exact C05_proofs.C05_keep_other. Qed.
Print Assumptions C05_keep_other.

(* clause "has moved by at most the largest step size": every output message is an input message with only its time
   changed, by at most max steps, or a NOTE_OFF inserted at the (quantised) time of a NOTE_ON that re-triggers a
   sounding key (see C05_no_insert: impossible on well-formed input).  Needs positive steps and an input sorted by
   time: the proof goes through the loop result (before the zero-length sweep), where on an unsorted input a
   note-off can be moved arbitrarily far ([on@100; off@0] gives off@100; that pair is then swept as zero-length). *)
Theorem C05_move : forall l steps out, steps <> [] -> pos_steps steps = true -> sorted_time l = true ->
  quantise l steps = Ok out ->
  Forall (fun x => exists m t', In m l /\ Z.abs (t' - m_time m) <= maxZ steps /\
            (x = set_time m t' (m_tf m) \/
             (m_type m = NOTE_ON /\ x = mk_off (m_chan m) (m_note m) t' (m_tf m)))) out.
Proof. exact C05_proofs.C05_move. Qed.
Print Assumptions C05_move.

(* on a well-formed input (wf_abs: sorted by time; per (channel, pitch) key the note messages alternate on/off starting
   with an on, every on is closed, each off strictly later than its on, each on not before the previous off of its
   key) nothing is inserted: every output message is an input message with only its time changed, by at most
   max steps *)
Theorem C05_no_insert : forall l steps out, steps <> [] -> pos_steps steps = true -> wf_abs l = true ->
  quantise l steps = Ok out ->
  Forall (fun x => exists m t', In m l /\ Z.abs (t' - m_time m) <= maxZ steps /\ x = set_time m t' (m_tf m)) out.
Proof. exact C05_wf.C05_no_insert. Qed.
Print Assumptions C05_no_insert.

(* clause "note-ons and note-offs still pair one-to-one per channel and pitch with positive duration, and no two notes
   of the same channel and pitch overlap, including when the same pitch sounds on several channels": the output of a
   well-formed input is well-formed, with the same predicate wf_abs (keys are (channel, pitch) pairs, so equal pitches
   on different channels are independent). *)
Theorem C05_wf : forall l steps out, steps <> [] -> wf_abs l = true ->
  quantise l steps = Ok out -> wf_abs out = true.
Proof. exact C05_final.C05_wf. Qed.
Print Assumptions C05_wf.

(* the loop result before the zero-length sweep and the final sort: per key a non-strict alternation (off >= on,
   next on >= previous off) in which every on is closed *)
Theorem C05_wf_loop : forall l steps k, wf_abs l = true ->
  exists st, krun false KNone (kproj k (q_out (quantise_core l steps))) = Some st /\ kst_closed st.
Proof. exact C05_final.C05_wf_loop. Qed.
Print Assumptions C05_wf_loop.

(* clause "a note at least two largest steps away from every other note of its channel and pitch is dropped only when
   quantisation leaves no grid position for its end after its quantised start; otherwise it survives with its pitch,
   channel and velocity": in a well-formed list  pre ++ on :: mid ++ off :: post  where (on, off) is a note (no note
   message of its key in mid) and every earlier note message of its key lies at least 2 * max steps before its onset
   (later notes do not matter), if some grid position of the off time lies after the quantised start qnt steps on,
   then the output holds the note-on moved to qnt steps on and the note-off moved to a strictly later time, both
   otherwise unchanged (set_time / qmove only change the time). *)
Theorem C05_survive : forall pre on mid off post steps out,
  steps <> [] -> pos_steps steps = true ->
  wf_abs (pre ++ on :: mid ++ off :: post) = true ->
  m_type on = NOTE_ON -> m_type off = NOTE_OFF -> qkey off = qkey on ->
  kproj (qkey on) mid = [] ->
  forallb (fun x => m_time x + 2 * maxZ steps <=? m_time on) (kproj (qkey on) pre) = true ->
  existsb (fun p => qnt steps on <? p) (positions (m_time off) steps) = true ->
  quantise (pre ++ on :: mid ++ off :: post) steps = Ok out ->
  In (qmove steps on) out /\
  exists t', qnt steps on < t' /\ In (set_time off t' (m_tf off)) out.
Proof. exact C05_survive.C05_survive. Qed.
Print Assumptions C05_survive.
