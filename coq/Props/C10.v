(* C10 -- A Bar always lasts exactly its time signature, or its construction fails.
   bar_init rel num den (Model/Bars.v) is the value-level effect of Bar.__init__ on the relative message list of its
   sequence: Ok r = the constructor returns and the bar's sequence holds r; Err BarErr = BarException.
   Vocabulary (Proofs/C18_proofs.v, Proofs/C10_proofs.v):
     dur_rel l        sum of the wait times of a relative list = its duration in ticks
     bar_capacity     num * PPQN * 4 / den  (ticks of one bar)
     waits_nonneg l   every WAIT message has time >= 0 (boolean)
     ticks l 0        the non-wait messages of l, in order, each with its accumulated tick
     sig_of m         (numerator, denominator) of a message
     dedup_ts c l     l without the messages that repeat the signature in force (c, then the last one kept) *)
From Coq Require Import ZArith List Bool.
From Model Require Import Base Seq Pairing Bars.
From Proofs Require Import C18_proofs C10_proofs C10_copy.
Import ListNotations.
Open Scope Z_scope.

(* clause "either raises a bar error or yields a bar": no other outcome, for every input *)
Theorem C10_total : forall (rel : list msg) (num den : Z),
  (exists r, bar_init rel num den = Ok r) \/ bar_init rel num den = Err BarErr.
Proof. exact C10_proofs.C10_total. Qed.
Print Assumptions C10_total.

(* clause "lasts exactly numerator x 4 / denominator quarter notes" (in ticks); no hypothesis on the input needed *)
Theorem C10_duration : forall (rel : list msg) (num den : Z) (r : list msg),
  bar_init rel num den = Ok r -> dur_rel r = bar_capacity num den.
Proof. exact C10_proofs.C10_duration. Qed.
Print Assumptions C10_duration.

(* clause "starts with exactly one time-signature event equal to the bar's signature and contains no other" *)
Theorem C10_signature : forall (rel : list msg) (num den : Z) (r : list msg),
  bar_init rel num den = Ok r ->
  exists r', r = mk_ts 0 num den 0 false :: r' /\ forallb (fun m => negb (is_ts m)) r' = true.
Proof. exact C10_proofs.C10_signature. Qed.
Print Assumptions C10_signature.

(* clause "a sequence longer than the capacity is rejected" *)
Theorem C10_reject_long : forall (rel : list msg) (num den : Z), waits_nonneg rel = true ->
  bar_capacity num den < dur_rel rel -> bar_init rel num den = Err BarErr.
Proof. exact C10_proofs.C10_reject_long. Qed.
Print Assumptions C10_reject_long.

(* the same without the hypothesis on waits, on the duration of the normalised list (what the constructor measures) *)
Theorem C10_reject_long_norm : forall (rel : list msg) (num den : Z),
  bar_capacity num den < dur_rel (normalise rel) -> bar_init rel num den = Err BarErr.
Proof. exact C10_proofs.C10_reject_long_norm. Qed.
Print Assumptions C10_reject_long_norm.

(* clause "carrying a conflicting or second signature is rejected", on the normalised list the constructor looks at:
   two or more signature messages, or one whose (numerator, denominator) is not the bar's *)
Theorem C10_reject_sig : forall (rel : list msg) (num den : Z),
  1 < lenZ (filter is_ts (normalise rel)) \/
  existsb (fun m => is_ts m && negb ((m_num m =? num) && (m_den m =? den))) (normalise rel) = true ->
  bar_init rel num den = Err BarErr.
Proof. exact C10_proofs.C10_reject_sig_norm. Qed.
Print Assumptions C10_reject_sig.

(* the same on the input list: any signature message in the input that differs from the bar's signature (and is not
   the degenerate signature None/None, which normalise treats as "already in force") causes rejection *)
Theorem C10_reject_sig_conflict : forall (rel : list msg) (num den : Z),
  existsb (fun m => is_ts m && negb ((m_num m =? num) && (m_den m =? den))
                            && negb ((m_num m =? NONE) && (m_den m =? NONE))) rel = true ->
  bar_init rel num den = Err BarErr.
Proof. exact C10_proofs.C10_reject_sig_conflict_b. Qed.
Print Assumptions C10_reject_sig_conflict.

(* what normalise keeps of the input's signature messages, and: two kept ones are rejected.  (A second signature
   message that merely repeats the one in force is dropped by normalise, not rejected.) *)
Theorem C10_normalise_ts : forall rel : list msg,
  filter is_ts (normalise rel) = dedup_ts (NONE, NONE) (filter is_ts rel).
Proof. exact C10_proofs.normalise_ts. Qed.
Print Assumptions C10_normalise_ts.
Theorem C10_reject_sig_second : forall (rel : list msg) (num den : Z),
  1 < lenZ (dedup_ts (NONE, NONE) (filter is_ts rel)) -> bar_init rel num den = Err BarErr.
Proof. exact C10_proofs.C10_reject_sig_second. Qed.
Print Assumptions C10_reject_sig_second.

(* clause "copying a bar yields an equal bar": Bar.copy re-runs the constructor on (a copy of) the bar's own list.
   That second run succeeds, and the new list has the same non-wait messages at the same accumulated ticks and the same
   duration.  (The lists themselves can differ: the second normalise merges adjacent waits, see C10_copy_ex.) *)
Theorem C10_copy : forall (rel : list msg) (num den : Z) (r : list msg),
  bar_init rel num den = Ok r ->
  exists r2, bar_init r num den = Ok r2 /\ ticks r2 0 = ticks r 0 /\ dur_rel r2 = dur_rel r.
Proof. exact C10_copy.C10_copy. Qed.
Print Assumptions C10_copy.

(* ================================================================ the Bar OBJECT (Model/Comp.v, Proofs/Comp_proofs.v)
   cbar_new s num den key = Bar(sequence, numerator, denominator, key) on the Sequence wrapper object s;
   cbar_copy b = Bar.copy().  cb_seq / cb_num / cb_den / cb_key are the bar's attributes. *)
From Model Require Import Store Comp.
From Proofs Require Import Comp_proofs.

(* object level "either raises or yields a bar": the only failures are the bar error and the sequence error of a
   sequence with both views stale *)
Theorem C10_bar_total : forall (s : seq) (num den : Z) (key : option Key),
  (exists b, cbar_new s num den key = Ok b) \/ cbar_new s num den key = Err BarErr \/
  (cbar_new s num den key = Err SeqErr /\ s_abs_stale s = true /\ s_rel_stale s = true).
Proof. exact Comp_proofs.C10_bar_total. Qed.
Print Assumptions C10_bar_total.

(* a constructed bar: its sequence has a fresh relative view (absolute view stale) that lasts exactly the capacity,
   starts with the bar's time signature and contains no other; the attributes are the constructor's arguments *)
Theorem C10_bar_object : forall (s : seq) (num den : Z) (key : option Key) (b : cbar),
  cbar_new s num den key = Ok b ->
  s_rel_stale (cb_seq b) = false /\ s_abs_stale (cb_seq b) = true /\
  dur_rel (s_rel (cb_seq b)) = bar_capacity num den /\
  (exists tl, s_rel (cb_seq b) = mk_ts 0 num den 0 false :: tl /\ forallb (fun m => negb (is_ts m)) tl = true) /\
  cb_num b = num /\ cb_den b = den /\ cb_key b = key.
Proof. exact Comp_proofs.C10_bar_object. Qed.
Print Assumptions C10_bar_object.

(* clause "copying a bar yields an equal bar", object level: Bar.copy of a constructed bar never raises and gives a
   bar with the same signature and key whose (fresh) relative view has the same timed events and the same duration *)
Theorem C10_bar_copy : forall (s : seq) (num den : Z) (key : option Key) (b : cbar),
  cbar_new s num den key = Ok b ->
  exists b', cbar_copy b = Ok b' /\ cb_num b' = num /\ cb_den b' = den /\ cb_key b' = key /\
             s_rel_stale (cb_seq b') = false /\ s_abs_stale (cb_seq b') = true /\
             ticks (s_rel (cb_seq b')) 0 = ticks (s_rel (cb_seq b)) 0 /\
             dur_rel (s_rel (cb_seq b')) = dur_rel (s_rel (cb_seq b)).
Proof. exact Comp_proofs.C10_bar_copy. Qed.
Print Assumptions C10_bar_copy.
