(* C17 -- equals: reflexive, symmetric, monotone in the channel / velocity flags, characterised as equality of the
   projected interleaved pairing lists, independent of the stored order (it sorts first). *)
From Coq Require Import ZArith List Bool Lia.
From Model Require Import Base Seq Pairing.
Import ListNotations.
Open Scope Z_scope.

(* ---------------------------------------------------------------- boolean equalities are equalities *)
Lemma mtype_eqb_eq (a b : mtype) : mtype_eqb a b = true <-> a = b.
Proof. destruct a, b; cbn; split; congruence. Qed.
Lemma mtype_eqb_refl (a : mtype) : mtype_eqb a a = true.
Proof. now apply mtype_eqb_eq. Qed.
Lemma key_eqb_eq (a b : Key) : key_eqb a b = true <-> a = b.
Proof. destruct a, b; cbn; split; congruence. Qed.
Lemma okey_eqb_eq (a b : option Key) : okey_eqb a b = true <-> a = b.
Proof.
  destruct a as [x|], b as [y|]; cbn [okey_eqb]; try (split; congruence).
  rewrite key_eqb_eq. split; congruence.
Qed.

(* ---------------------------------------------------------------- what one comparison looks at *)
(* the attributes of an interleaved entry (channel, pairing) that pair_equal compares; attributes that are not
   compared for the entry's type (or are ignored by a flag) are replaced by a constant *)
Definition proj_t : Set := (Z * mtype * Z * Z * Z * Z * Z * Z * option Key)%type.
Definition proj (ich ivel : bool) (e : Z * pairing) : proj_t :=
  let m := p_first (snd e) in
  (if ich then 0 else fst e,                                                         (* channel *)
   m_type m,                                                                         (* kind of event *)
   m_time m,                                                                         (* onset / signature tick *)
   match m_type m with NOTE_ON => m_note m | _ => 0 end,                             (* pitch *)
   match m_type m with NOTE_ON => p_off_time (snd e) - m_time m | _ => 0 end,        (* duration *)
   match m_type m with NOTE_ON => if ivel then 0 else m_vel m | _ => 0 end,          (* velocity *)
   match m_type m with TIME_SIGNATURE => m_num m | _ => 0 end,
   match m_type m with TIME_SIGNATURE => m_den m | _ => 0 end,
   match m_type m with KEY_SIGNATURE => m_key m | _ => None end).

Lemma pair_equal_spec (ich ivel : bool) (a b : Z * pairing) :
  pair_equal ich ivel a b = true <-> proj ich ivel a = proj ich ivel b.
Proof.
  unfold pair_equal, proj. cbv zeta.
  generalize (p_off_time (snd a)) (p_off_time (snd b)) (p_first (snd a)) (p_first (snd b)) (fst a) (fst b).
  intros oa ob ma mb ca cb. split.
  - intros H. apply andb_prop in H as [H H4]. apply andb_prop in H as [H H3]. apply andb_prop in H as [H1 H2].
    apply mtype_eqb_eq in H2. apply Z.eqb_eq in H3. rewrite <- H2 in *. rewrite <- H3 in *.
    assert (Hc : (if ich then 0 else ca) = (if ich then 0 else cb)).
    { destruct ich; [reflexivity|]. cbn [orb] in H1. now apply Z.eqb_eq in H1. }
    rewrite Hc.
    destruct (m_type ma); try reflexivity.
    + apply okey_eqb_eq in H4. now rewrite H4.
    + apply andb_prop in H4 as [N D]. apply Z.eqb_eq in N, D. now rewrite N, D.
    + apply andb_prop in H4 as [H4 V]. apply andb_prop in H4 as [N D]. apply Z.eqb_eq in N, D.
      rewrite N. replace (ob - m_time ma) with (oa - m_time ma) by exact D.
      destruct ivel; [reflexivity|]. cbn [orb] in V. apply Z.eqb_eq in V. now rewrite V.
  - intros H. injection H as E1 E2 E3 E4 E5 E6 E7 E8 E9.
    rewrite <- E2 in *. rewrite <- E3 in *.
    assert (Hc : (ich || (ca =? cb)) = true).
    { destruct ich; [reflexivity|]. cbn [orb]. now apply Z.eqb_eq. }
    rewrite Hc, mtype_eqb_refl, Z.eqb_refl. cbn [andb].
    destruct (m_type ma); try reflexivity.
    + now apply okey_eqb_eq.
    + rewrite E7, E8, !Z.eqb_refl. reflexivity.
    + rewrite E4, E5, !Z.eqb_refl. cbn [andb].
      destruct ivel; [reflexivity|]. cbn [orb]. now apply Z.eqb_eq.
Qed.

Lemma pair_equal_refl ich ivel a : pair_equal ich ivel a a = true.
Proof. now apply pair_equal_spec. Qed.

Lemma pair_equal_sym ich ivel a b : pair_equal ich ivel a b = pair_equal ich ivel b a.
Proof.
  apply eq_true_iff_eq. rewrite !pair_equal_spec. split; congruence.
Qed.

(* ---------------------------------------------------------------- all2 *)
Lemma all2_refl {A} (f : A -> A -> bool) (l : list A) : (forall x, f x x = true) -> all2 f l l = true.
Proof. intros Hf. induction l as [|x l IH]; [reflexivity|]. cbn [all2]. now rewrite Hf, IH. Qed.

Lemma all2_sym {A} (f : A -> A -> bool) : (forall x y, f x y = f y x) -> forall a b, all2 f a b = all2 f b a.
Proof.
  intros Hf a. induction a as [|x a IH]; intros [|y b]; try reflexivity.
  cbn [all2]. now rewrite Hf, IH.
Qed.

Lemma all2_mono {A} (f g : A -> A -> bool) : (forall x y, f x y = true -> g x y = true) ->
  forall a b, all2 f a b = true -> all2 g a b = true.
Proof.
  intros Hfg a. induction a as [|x a IH]; intros [|y b]; cbn [all2]; try congruence.
  intros H. apply andb_prop in H as [H1 H2]. now rewrite (Hfg _ _ H1), (IH _ H2).
Qed.

Lemma all2_spec {A B} (f : A -> A -> bool) (p : A -> B) :
  (forall x y, f x y = true <-> p x = p y) -> forall a b, all2 f a b = true <-> map p a = map p b.
Proof.
  intros Hf a. induction a as [|x a IH]; intros [|y b]; cbn [all2 map]; try (split; congruence).
  rewrite andb_true_iff, Hf, IH. split.
  - intros [-> ->]. reflexivity.
  - intros H. injection H as H1 H2. auto.
Qed.

Lemma all2_length {A} (f : A -> A -> bool) : forall a b, all2 f a b = true -> length a = length b.
Proof.
  intros a. induction a as [|x a IH]; intros [|y b]; cbn [all2 length]; try congruence.
  intros H. apply andb_prop in H as [_ H]. f_equal. auto.
Qed.

Lemma all2_nth {A} (f : A -> A -> bool) : forall a b i x y,
  all2 f a b = true -> nth_error a i = Some x -> nth_error b i = Some y -> f x y = true.
Proof.
  intros a. induction a as [|x0 a IH]; intros [|y0 b] [|i] x y H Ha Hb; cbn in *; try congruence.
  - apply andb_prop in H as [H _]. congruence.
  - apply andb_prop in H as [_ H]. eauto.
Qed.

Lemma all2_pair_spec ich ivel x y :
  all2 (pair_equal ich ivel) x y = true <-> map (proj ich ivel) x = map (proj ich ivel) y.
Proof. apply all2_spec. apply pair_equal_spec. Qed.

(* ---------------------------------------------------------------- interleaved can only raise IndexError *)
Lemma interleaved_err ty std imp l e : interleaved ty std imp l = Err e -> e = IndexErr.
Proof.
  unfold interleaved. destruct (pairings_sorted ty std imp l) as [|p ps]; [discriminate|].
  destruct (concat (map snd (p :: ps))); congruence.
Qed.

(* the interleaved view equals() looks at *)
Definition view (a : list msg) (its iks : bool) : result (list (Z * pairing)) :=
  interleaved (eq_types its iks) PPQN true (sort_abs a).

Lemma equals_unfold a b ich its iks ivel :
  equals a b ich its iks ivel =
  match view a its iks, view b its iks with
  | Ok ia, Ok ib => Ok (all2 (pair_equal ich ivel) ia ib)
  | Ok _, Err e => Err e
  | Err e, _ => Err e
  end.
Proof. unfold equals, view. cbv zeta. destruct (interleaved _ _ _ (sort_abs a)); cbn [rbind]; [|reflexivity].
  destruct (interleaved _ _ _ (sort_abs b)); reflexivity. Qed.

(* ---------------------------------------------------------------- C17_refl *)
Lemma C17_refl a ich its iks ivel ia :
  view a its iks = Ok ia -> equals a a ich its iks ivel = Ok true.
Proof.
  intros H. rewrite equals_unfold, H. f_equal. apply all2_refl. intros x. apply pair_equal_refl.
Qed.

(* full description of equals a a: true unless the interleaving raises *)
Lemma C17_refl_total a ich its iks ivel :
  equals a a ich its iks ivel = match view a its iks with Ok _ => Ok true | Err _ => Err IndexErr end.
Proof.
  destruct (view a its iks) as [ia|e] eqn:E.
  - eapply C17_refl; eauto.
  - rewrite equals_unfold, E. f_equal. eapply interleaved_err. exact E.
Qed.

(* ---------------------------------------------------------------- C17_sym *)
Lemma C17_sym a b ich its iks ivel : equals a b ich its iks ivel = equals b a ich its iks ivel.
Proof.
  rewrite !equals_unfold.
  destruct (view a its iks) as [ia|ea] eqn:Ea, (view b its iks) as [ib|eb] eqn:Eb; try reflexivity.
  - f_equal. apply all2_sym. intros x y. apply pair_equal_sym.
  - apply interleaved_err in Ea, Eb. congruence.
Qed.

(* ---------------------------------------------------------------- C17_flags_monotone *)
Lemma pair_equal_mono_ch ivel x y : pair_equal false ivel x y = true -> pair_equal true ivel x y = true.
Proof.
  unfold pair_equal. cbv zeta. intros H.
  apply andb_prop in H as [H H4]. apply andb_prop in H as [H H3]. apply andb_prop in H as [H1 H2].
  rewrite H2, H3, H4. reflexivity.
Qed.
Lemma pair_equal_mono_vel ich x y : pair_equal ich false x y = true -> pair_equal ich true x y = true.
Proof.
  unfold pair_equal. cbv zeta. intros H.
  apply andb_prop in H as [H H4]. rewrite H. cbn [andb].
  destruct (m_type (p_first (snd x))); try exact H4.
  apply andb_prop in H4 as [H4 _]. rewrite H4. reflexivity.
Qed.

Lemma equals_true_inv a b ich its iks ivel :
  equals a b ich its iks ivel = Ok true <->
  exists ia ib, view a its iks = Ok ia /\ view b its iks = Ok ib /\ all2 (pair_equal ich ivel) ia ib = true.
Proof.
  rewrite equals_unfold. split.
  - destruct (view a its iks) as [ia|]; [|discriminate]. destruct (view b its iks) as [ib|]; [|discriminate].
    intros H. injection H as H. eauto.
  - intros (ia & ib & -> & -> & ->). reflexivity.
Qed.

Lemma C17_flags_monotone_channel a b its iks ivel :
  equals a b false its iks ivel = Ok true -> equals a b true its iks ivel = Ok true.
Proof.
  rewrite !equals_true_inv. intros (ia & ib & H1 & H2 & H3). exists ia, ib. repeat split; auto.
  revert H3. apply all2_mono. apply pair_equal_mono_ch.
Qed.
Lemma C17_flags_monotone_velocity a b ich its iks :
  equals a b ich its iks false = Ok true -> equals a b ich its iks true = Ok true.
Proof.
  rewrite !equals_true_inv. intros (ia & ib & H1 & H2 & H3). exists ia, ib. repeat split; auto.
  revert H3. apply all2_mono. apply pair_equal_mono_vel.
Qed.
(* the flags never change whether equals raises *)
Lemma C17_flags_err a b ich ivel ich' ivel' its iks e :
  equals a b ich its iks ivel = Err e <-> equals a b ich' its iks ivel' = Err e.
Proof.
  rewrite !equals_unfold.
  destruct (view a its iks); [|tauto]. destruct (view b its iks); [|tauto]. split; discriminate.
Qed.

(* ---------------------------------------------------------------- C17_characterise *)
Lemma C17_characterise a b ich its iks ivel :
  equals a b ich its iks ivel = Ok true <->
  exists ia ib, view a its iks = Ok ia /\ view b its iks = Ok ib /\
                map (proj ich ivel) ia = map (proj ich ivel) ib.
Proof.
  rewrite equals_true_inv. split; intros (ia & ib & H1 & H2 & H3); exists ia, ib; repeat split; auto;
    now apply all2_pair_spec.
Qed.

Lemma C17_characterise_false a b ich its iks ivel :
  equals a b ich its iks ivel = Ok false <->
  exists ia ib, view a its iks = Ok ia /\ view b its iks = Ok ib /\
                map (proj ich ivel) ia <> map (proj ich ivel) ib.
Proof.
  rewrite equals_unfold. split.
  - destruct (view a its iks) as [ia|]; [|discriminate]. destruct (view b its iks) as [ib|]; [|discriminate].
    intros H. injection H as H. exists ia, ib. repeat split; auto.
    intros E. apply all2_pair_spec in E. congruence.
  - intros (ia & ib & -> & -> & H). f_equal. apply not_true_is_false. intros E. apply H. now apply all2_pair_spec.
Qed.

(* ---------------------------------------------------------------- C17_sensitive *)
(* two entries at the same position with different projections make equals false *)
Lemma C17_sensitive_proj a b ich its iks ivel ia ib i x y :
  view a its iks = Ok ia -> view b its iks = Ok ib ->
  nth_error ia i = Some x -> nth_error ib i = Some y ->
  proj ich ivel x <> proj ich ivel y ->
  equals a b ich its iks ivel = Ok false.
Proof.
  intros Ha Hb Hx Hy Hd. apply C17_characterise_false. exists ia, ib. repeat split; auto.
  intros E. apply Hd.
  pose proof (map_nth_error (proj ich ivel) _ _ Hx) as Px.
  pose proof (map_nth_error (proj ich ivel) _ _ Hy) as Py. congruence.
Qed.

Lemma C17_sensitive_length a b ich its iks ivel ia ib :
  view a its iks = Ok ia -> view b its iks = Ok ib -> length ia <> length ib ->
  equals a b ich its iks ivel = Ok false.
Proof.
  intros Ha Hb Hd. apply C17_characterise_false. exists ia, ib. repeat split; auto.
  intros E. apply Hd. rewrite <- (map_length (proj ich ivel) ia), E. apply map_length.
Qed.

(* boolean predicate: the two entries differ in an attribute that is compared *)
Definition differ (ich ivel : bool) (x y : Z * pairing) : bool :=
  let mx := p_first (snd x) in let my := p_first (snd y) in
  negb (Z.eqb (m_time mx) (m_time my)) ||                                            (* onset / signature tick *)
  negb (mtype_eqb (m_type mx) (m_type my)) ||                                        (* kind of event *)
  (negb ich && negb (Z.eqb (fst x) (fst y))) ||                                      (* channel, unless ignored *)
  (is_on mx && (negb (Z.eqb (m_note mx) (m_note my)) ||                              (* pitch *)
                negb (Z.eqb (p_off_time (snd x) - m_time mx) (p_off_time (snd y) - m_time my)) ||   (* duration *)
                (negb ivel && negb (Z.eqb (m_vel mx) (m_vel my))))) ||               (* velocity, unless ignored *)
  (mtype_eqb (m_type mx) TIME_SIGNATURE && (negb (Z.eqb (m_num mx) (m_num my)) || negb (Z.eqb (m_den mx) (m_den my)))) ||
  (mtype_eqb (m_type mx) KEY_SIGNATURE && negb (okey_eqb (m_key mx) (m_key my))).

Lemma differ_spec ich ivel x y : differ ich ivel x y = negb (pair_equal ich ivel x y).
Proof.
  unfold differ, pair_equal, is_on. cbv zeta.
  generalize (p_off_time (snd x)) (p_off_time (snd y)) (p_first (snd x)) (p_first (snd y)) (fst x) (fst y).
  intros ox oy mx my cx cy.
  destruct (m_time mx =? m_time my); [|now destruct ich, (cx =? cy), (mtype_eqb (m_type mx) (m_type my))].
  destruct (mtype_eqb (m_type mx) (m_type my)); [|now destruct ich, (cx =? cy)].
  destruct (m_type mx); cbn [mtype_eqb mtype_rank Z.eqb negb orb andb Pos.eqb];
    repeat match goal with |- context [?u =? ?v] => destruct (u =? v) end;
    try destruct (okey_eqb (m_key mx) (m_key my)); destruct ich, ivel; reflexivity.
Qed.

Lemma C17_sensitive a b ich its iks ivel ia ib i x y :
  view a its iks = Ok ia -> view b its iks = Ok ib ->
  nth_error ia i = Some x -> nth_error ib i = Some y ->
  differ ich ivel x y = true ->
  equals a b ich its iks ivel = Ok false.
Proof.
  intros Ha Hb Hx Hy Hd. eapply C17_sensitive_proj; eauto.
  intros E. apply pair_equal_spec in E. rewrite differ_spec, E in Hd. discriminate.
Qed.

(* ---------------------------------------------------------------- C17_sort_invariant *)
Fixpoint sortedb (l : list msg) : bool :=
  match l with
  | [] => true
  | x :: l' => match l' with [] => true | y :: _ => key_le x y end && sortedb l'
  end.

Lemma key_le_total x y : key_le x y = false -> key_le y x = true.
Proof.
  unfold key_le.
  destruct (m_time x <? m_time y) eqn:T1; [discriminate|]. destruct (m_time y <? m_time x) eqn:T2; [reflexivity|].
  destruct (m_chan x <? m_chan y) eqn:C1; [discriminate|]. destruct (m_chan y <? m_chan x) eqn:C2; [reflexivity|].
  destruct (mtype_rank (m_type x) <? mtype_rank (m_type y)) eqn:R1; [discriminate|].
  destruct (mtype_rank (m_type y) <? mtype_rank (m_type x)) eqn:R2; [reflexivity|].
  intros H. apply Z.leb_gt in H. apply Z.leb_le. lia.
Qed.

Lemma ins_sorted_sorted x l : sortedb l = true -> sortedb (ins_sorted x l) = true.
Proof.
  induction l as [|y l IH]; intros H; [reflexivity|].
  cbn [ins_sorted]. destruct (key_le x y) eqn:E.
  - change (key_le x y && sortedb (y :: l) = true). now rewrite E, H.
  - cbn [sortedb] in H. apply andb_prop in H as [H1 H2]. specialize (IH H2).
    cbn [sortedb]. rewrite IH, andb_true_r.
    destruct l as [|z l]; cbn [ins_sorted].
    + now apply key_le_total.
    + destruct (key_le x z); [now apply key_le_total|exact H1].
Qed.

Lemma sort_abs_sorted l : sortedb (sort_abs l) = true.
Proof. induction l as [|x l IH]; [reflexivity|]. cbn [sort_abs]. now apply ins_sorted_sorted. Qed.

Lemma sort_abs_of_sorted l : sortedb l = true -> sort_abs l = l.
Proof.
  induction l as [|x l IH]; intros H; [reflexivity|].
  cbn [sortedb] in H. apply andb_prop in H as [H1 H2]. cbn [sort_abs]. rewrite (IH H2).
  destruct l as [|y l]; [reflexivity|]. cbn [ins_sorted]. now rewrite H1.
Qed.

Lemma sort_abs_idem l : sort_abs (sort_abs l) = sort_abs l.
Proof. apply sort_abs_of_sorted, sort_abs_sorted. Qed.

Lemma C17_sort_invariant a b ich its iks ivel :
  equals (sort_abs a) b ich its iks ivel = equals a b ich its iks ivel.
Proof. unfold equals. now rewrite sort_abs_idem. Qed.

Lemma C17_sort_invariant_r a b ich its iks ivel :
  equals a (sort_abs b) ich its iks ivel = equals a b ich its iks ivel.
Proof. unfold equals. now rewrite sort_abs_idem. Qed.

(* any two stored orders with the same sorted list compare like each other against everything *)
Lemma C17_same_sorted a a' b ich its iks ivel :
  sort_abs a = sort_abs a' -> equals a b ich its iks ivel = equals a' b ich its iks ivel.
Proof. intros H. unfold equals. now rewrite H. Qed.

(* ---------------------------------------------------------------- the signature flags are NOT monotone *)
(* ignore_time_signatures can turn True into IndexError: a time signature and an orphan note-off *)
Definition ex_ts_orphan : list msg := [mk_ts 0 3 4 0 false; mk_off 0 60 5 false].
Lemma C17_its_error_witness :
  equals ex_ts_orphan ex_ts_orphan false false false false = Ok true /\
  equals ex_ts_orphan ex_ts_orphan false true false false = Err IndexErr.
Proof. vm_compute. auto. Qed.
(* ... and (with ignore_channel) can turn True into False: the channel that holds the time signature decides the
   order in which simultaneous notes of different channels are interleaved *)
Definition ex_tie_a : list msg :=
  [mk_ts 0 3 4 0 false; mk_on 0 60 90 5 false; mk_off 0 60 24 false; mk_on 1 64 90 5 false; mk_off 1 64 24 false].
Definition ex_tie_b : list msg :=
  [mk_ts 1 3 4 0 false; mk_on 0 64 90 5 false; mk_off 0 64 24 false; mk_on 1 60 90 5 false; mk_off 1 60 24 false].
Lemma C17_its_false_witness :
  equals ex_tie_a ex_tie_b true false false false = Ok true /\
  equals ex_tie_a ex_tie_b true true false false = Ok false.
Proof. vm_compute. auto. Qed.

(* ---------------------------------------------------------------- non-vacuity *)
Definition ex_a : list msg :=
  [mk_on 0 60 90 0 false; mk_off 0 60 24 false; mk_on 1 64 80 0 false; mk_off 1 64 12 false;
   mk_ts 0 3 4 0 false; mk_ks 0 (Some K_D) 0 false].
Definition ex_a_vel : list msg :=       (* velocity of the first note changed *)
  [mk_on 0 60 70 0 false; mk_off 0 60 24 false; mk_on 1 64 80 0 false; mk_off 1 64 12 false;
   mk_ts 0 3 4 0 false; mk_ks 0 (Some K_D) 0 false].
Definition ex_c0 : list msg := [mk_on 0 60 90 0 false; mk_off 0 60 24 false; mk_ts 0 3 4 0 false].
Definition ex_c3 : list msg := [mk_on 3 60 90 0 false; mk_off 3 60 24 false; mk_ts 3 3 4 0 false].

Example C17_ex_view : exists ia, view ex_a false false = Ok ia /\ length ia = 4%nat.
Proof. eexists. vm_compute. split; reflexivity. Qed.
Example C17_ex_order : equals ex_a (rev ex_a) false false false false = Ok true /\ sort_abs ex_a <> ex_a.
Proof. vm_compute. split; [reflexivity|discriminate]. Qed.
Example C17_ex_velocity :
  equals ex_a ex_a_vel false false false false = Ok false /\ equals ex_a ex_a_vel false false false true = Ok true.
Proof. vm_compute. auto. Qed.
Example C17_ex_channel :
  equals ex_c0 ex_c3 false false false false = Ok false /\ equals ex_c0 ex_c3 true false false false = Ok true.
Proof. vm_compute. auto. Qed.
Example C17_ex_mono_hyp : equals ex_a ex_a false false false false = Ok true.
Proof. vm_compute. reflexivity. Qed.
Example C17_ex_sensitive : exists ia ib x y,
  view ex_a false false = Ok ia /\ view ex_a_vel false false = Ok ib /\
  nth_error ia 2 = Some x /\ nth_error ib 2 = Some y /\ differ false false x y = true /\ differ false true x y = false.
Proof. do 4 eexists. vm_compute. repeat split; reflexivity. Qed.
