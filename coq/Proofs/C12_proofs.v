(* C12 -- Saving to MIDI and loading back returns the same music.
   Lemmas and proofs; the property theorems are re-exported in Props/C12.v. *)
From Coq Require Import ZArith List Bool Lia Permutation Sorted.
From Model Require Import Base Seq Pairing Util Bars Store Midi Show ShowX.
From Proofs Require Import C13_proofs.
Open Scope Z_scope.

(* ================================================================ rounding at the library resolution *)
Lemma C12_rnd_id : forall t, round_half_even (t * PPQN) PPQN = t.
Proof.
  intros t. unfold round_half_even.
  assert (Hp : PPQN <> 0) by (unfold PPQN; lia).
  rewrite Z.div_mul, Z.mod_mul by exact Hp. reflexivity.
Qed.

(* ================================================================ saving one track: to_events *)
(* the non-wait messages of a relative list, each with the sum of the waits before it *)
Fixpoint stamped (r : list msg) (cur : Z) : list (msg * Z) :=
  match r with
  | [] => []
  | m :: r' => if is_wait m then stamped r' (cur + m_time m) else (m, cur) :: stamped r' cur
  end.

(* the events of a track, each with the sum of the delta times up to and including its own *)
Fixpoint abs_ticks (evs : list mev) (cum : Z) : list (mev * Z) :=
  match evs with [] => [] | e :: evs' => (e, cum + e_dt e) :: abs_ticks evs' (cum + e_dt e) end.

(* message types that RelativeSequence.to_midi_track writes *)
Definition written (m : msg) : bool :=
  match m_type m with
  | NOTE_ON | NOTE_OFF | TIME_SIGNATURE | KEY_SIGNATURE | CONTROL_CHANGE => true
  | _ => false
  end.

(* relative lists: only WAIT messages carry a time (Python None is modelled as 0) *)
Definition rel_wf (r : list msg) : bool := forallb (fun m => is_wait m || Z.eqb (m_time m) 0) r.

Definition ev_matches (e : mev) (m : msg) : Prop :=
  match m_type m with
  | NOTE_ON => e_kind e = MOn /\ e_chan e = 0 /\ e_a e = m_note m /\
               e_b e = (if Z.eqb (m_vel m) (-1) then 127 else m_vel m)
  | NOTE_OFF => e_kind e = MOff /\ e_chan e = 0 /\ e_a e = m_note m /\ e_b e = 0
  | TIME_SIGNATURE => e_kind e = MTs /\ e_chan e = -1 /\ e_a e = m_num m /\ e_b e = m_den m
  | KEY_SIGNATURE => e_kind e = MKs /\ e_chan e = -1 /\
                     e_key e = match m_key m with Some k => key_value k | None => EmptyString end
  | CONTROL_CHANGE => e_kind e = MCc /\ e_chan e = 0 /\ e_a e = m_ctrl m /\ e_b e = m_vel m
  | _ => False
  end.

Lemma to_events_aux_telescope : forall r buf cum,
  rel_wf r = true ->
  Forall2 (fun et mt => snd et = snd mt /\ ev_matches (fst et) (fst mt))
          (abs_ticks (to_events_aux r buf) cum)
          (filter (fun mt => written (fst mt)) (stamped r (cum + buf))).
Proof.
  induction r as [|m r IH]; intros buf cum Hwf; [constructor|].
  cbn [rel_wf forallb] in Hwf. apply andb_true_iff in Hwf. destruct Hwf as [Hm Hwf]. fold (rel_wf r) in Hwf.
  cbn [to_events_aux stamped]. unfold is_wait, mtype_eqb in *.
  destruct (m_type m) eqn:Et; cbn [mtype_rank Z.eqb Pos.eqb] in *; cbn [orb] in Hm;
    try (apply Z.eqb_eq in Hm; rewrite Hm, Z.add_0_r);
    cbn [filter fst written]; unfold written at 1; rewrite ?Et; cbn [abs_ticks e_dt];
    try (apply IH; exact Hwf).
  (* written kinds *)
  all: try (constructor;
            [ split; [cbn [snd]; lia | unfold ev_matches; cbn [fst]; rewrite Et; cbn; repeat split; reflexivity]
            | replace (cum + buf) with (cum + buf + 0) at 2 by lia; apply IH; exact Hwf ]).
  (* WAIT *)
  replace (cum + buf + m_time m) with (cum + (buf + m_time m)) by lia. apply IH; exact Hwf.
Qed.

Theorem C12_events_telescope : forall r,
  rel_wf r = true ->
  Forall2 (fun et mt => snd et = snd mt /\ ev_matches (fst et) (fst mt))
          (abs_ticks (to_events r) 0)
          (filter (fun mt => written (fst mt)) (stamped r 0)).
Proof. intros r H. apply (to_events_aux_telescope r 0 0 H). Qed.

(* `stamped` is the model's own relative-to-absolute stamping (to_abs_aux), without the float tag *)
Lemma stamped_to_abs_aux : forall r cur f cap,
  map snd (stamped r cur) = map m_time (fst (fst (fst (to_abs_aux r cur f cap)))) /\
  map (fun mt => strip_time (fst mt)) (stamped r cur) = map strip_time (fst (fst (fst (to_abs_aux r cur f cap)))).
Proof.
  induction r as [|m r IH]; intros cur f cap; [split; reflexivity|].
  cbn [stamped to_abs_aux]. destruct (is_wait m).
  - apply IH.
  - specialize (IH cur f true). destruct (to_abs_aux r cur f true) as [[[l c] f'] k]. cbn [fst snd map] in *.
    destruct IH as [IH1 IH2]. rewrite IH1, IH2. split; reflexivity.
Qed.

(* ================================================================ save then load, one track *)
(* what loading makes of a written message m that was at tick t *)
Definition loaded_as (tm : target * msg) (m : msg) (t : Z) : Prop :=
  match m_type m with
  | NOTE_ON => tm = (TOwn, mk_on 0 (m_note m) (m_vel m) t false)
  | NOTE_OFF => tm = (TOwn, mk_off 0 (m_note m) t false)
  | TIME_SIGNATURE => tm = (TMeta, mk_ts 0 (m_num m) (m_den m) t false)
  | KEY_SIGNATURE => tm = (TMeta, mk_ks 0 (m_key m) t false)
  | CONTROL_CHANGE => tm = (TMeta, mk_cc 0 (m_ctrl m) (m_vel m) t false)
  | _ => False
  end.

(* hypotheses of the round trip: only waits carry a time, note-ons have a positive velocity, key signatures a key *)
Definition rt_ok (r : list msg) : bool :=
  forallb (fun m => match m_type m with
                    | WAIT => true
                    | NOTE_ON => Z.eqb (m_time m) 0 && (0 <? m_vel m)
                    | KEY_SIGNATURE => Z.eqb (m_time m) 0 && match m_key m with Some _ => true | None => false end
                    | _ => Z.eqb (m_time m) 0
                    end) r.

Lemma C12_key_roundtrip : forall k, dict_get String.eqb (key_value k) KeyKeyMapping = Some k.
Proof. destruct k; vm_compute; reflexivity. Qed.

Definition load_msg (mt : msg * Z) : target * msg :=
  let m := fst mt in let t := snd mt in
  match m_type m with
  | NOTE_ON => (TOwn, mk_on 0 (m_note m) (m_vel m) t false)
  | NOTE_OFF => (TOwn, mk_off 0 (m_note m) t false)
  | TIME_SIGNATURE => (TMeta, mk_ts 0 (m_num m) (m_den m) t false)
  | KEY_SIGNATURE => (TMeta, mk_ks 0 (m_key m) t false)
  | _ => (TMeta, mk_cc 0 (m_ctrl m) (m_vel m) t false)
  end.

Lemma load_msg_unfold : forall m t, load_msg (m, t) =
  match m_type m with
  | NOTE_ON => (TOwn, mk_on 0 (m_note m) (m_vel m) t false)
  | NOTE_OFF => (TOwn, mk_off 0 (m_note m) t false)
  | TIME_SIGNATURE => (TMeta, mk_ts 0 (m_num m) (m_den m) t false)
  | KEY_SIGNATURE => (TMeta, mk_ks 0 (m_key m) t false)
  | _ => (TMeta, mk_cc 0 (m_ctrl m) (m_vel m) t false)
  end.
Proof. reflexivity. Qed.

Lemma track_out_to_events : forall r buf cum,
  rt_ok r = true ->
  keys_ok (to_events_aux r buf) = true /\
  track_out round_half_even PPQN (to_events_aux r buf) cum true
  = map load_msg (filter (fun mt => written (fst mt)) (stamped r (cum + buf))).
Proof.
  induction r as [|m r IH]; intros buf cum Hok; [split; reflexivity|].
  cbn [rt_ok forallb] in Hok. apply andb_true_iff in Hok. destruct Hok as [Hm Hok]. fold (rt_ok r) in Hok.
  cbn [to_events_aux stamped]. unfold is_wait, mtype_eqb.
  destruct (m_type m) eqn:Et; cbn [mtype_rank Z.eqb Pos.eqb];
    try (apply andb_true_iff in Hm; destruct Hm as [Hm Hx]);
    try (apply Z.eqb_eq in Hm; rewrite Hm, Z.add_0_r);
    cbn [filter fst];
    first [ assert (Hw : written m = true) by (unfold written; rewrite Et; reflexivity)
          | assert (Hw : written m = false) by (unfold written; rewrite Et; reflexivity) ]; rewrite ?Hw.
  - (* INTERNAL *) apply IH; exact Hok.
  - (* SEQUENCE_CONTROL *) apply IH; exact Hok.
  - (* KEY_SIGNATURE *)
    destruct (m_key m) as [k|] eqn:Ek; [|discriminate].
    destruct (IH 0 (cum + buf) Hok) as [IH1 IH2]. rewrite Z.add_0_r in IH2.
    cbn [keys_ok forallb e_kind e_key track_out map e_dt]. fold (keys_ok (to_events_aux r 0)).
    unfold dict_mem, ev_out. cbn [e_kind e_key]. rewrite C12_key_roundtrip, IH1, IH2, C12_rnd_id.
    split; [reflexivity|]. rewrite load_msg_unfold, Et, Ek. reflexivity.
  - (* TIME_SIGNATURE *)
    destruct (IH 0 (cum + buf) Hok) as [IH1 IH2]. rewrite Z.add_0_r in IH2.
    cbn [keys_ok forallb e_kind e_key track_out map e_dt]. fold (keys_ok (to_events_aux r 0)).
    unfold ev_out. cbn [e_kind]. rewrite IH1, IH2, C12_rnd_id.
    split; [reflexivity|]. rewrite load_msg_unfold, Et. reflexivity.
  - (* CONTROL_CHANGE *)
    destruct (IH 0 (cum + buf) Hok) as [IH1 IH2]. rewrite Z.add_0_r in IH2.
    cbn [keys_ok forallb e_kind e_key track_out map e_dt]. fold (keys_ok (to_events_aux r 0)).
    unfold ev_out. cbn [e_kind]. rewrite IH1, IH2, C12_rnd_id.
    split; [reflexivity|]. rewrite load_msg_unfold, Et. reflexivity.
  - (* PROGRAM_CHANGE *) apply IH; exact Hok.
  - (* NOTE_OFF *)
    destruct (IH 0 (cum + buf) Hok) as [IH1 IH2]. rewrite Z.add_0_r in IH2.
    cbn [keys_ok forallb e_kind e_key track_out map e_dt]. fold (keys_ok (to_events_aux r 0)).
    unfold ev_out. cbn [e_kind]. rewrite IH1, IH2, C12_rnd_id.
    split; [reflexivity|]. rewrite load_msg_unfold, Et. reflexivity.
  - (* NOTE_ON *)
    destruct (IH 0 (cum + buf) Hok) as [IH1 IH2]. rewrite Z.add_0_r in IH2.
    cbn [keys_ok forallb e_kind e_key track_out map e_dt]. fold (keys_ok (to_events_aux r 0)).
    unfold ev_out. cbn [e_kind e_b]. rewrite IH1, IH2, C12_rnd_id.
    apply Z.ltb_lt in Hx.
    assert (Hv : Z.eqb (m_vel m) NONE = false) by (apply Z.eqb_neq; unfold NONE; lia).
    rewrite Hv. assert (Hv' : 0 <? m_vel m = true) by (apply Z.ltb_lt; lia). rewrite Hv'.
    split; [reflexivity|]. rewrite load_msg_unfold, Et. reflexivity.
  - (* WAIT *)
    replace (cum + buf + m_time m) with (cum + (buf + m_time m)) by lia. apply IH; exact Hok.
Qed.

Lemma conv_track_to_events : forall r, rt_ok r = true ->
  conv_track round_half_even PPQN (to_events r) 0 true
  = Ok (map load_msg (filter (fun mt => written (fst mt)) (stamped r 0))).
Proof.
  intros r H. rewrite conv_track_char. unfold to_events.
  destruct (track_out_to_events r 0 0 H) as [H1 H2]. rewrite H1, H2. reflexivity.
Qed.

Theorem C12_track_roundtrip : forall r,
  rt_ok r = true ->
  exists ms, conv_track round_half_even PPQN (to_events r) 0 true = Ok ms /\
             Forall2 (fun tm mt => loaded_as tm (fst mt) (snd mt)) ms
                     (filter (fun mt => written (fst mt)) (stamped r 0)).
Proof.
  intros r H. eexists. split; [apply conv_track_to_events; exact H|].
  induction (stamped r 0) as [|mt l IH]; [constructor|].
  cbn [filter]. destruct (written (fst mt)) eqn:Ew; [|exact IH].
  cbn [map]. constructor; [|exact IH].
  unfold loaded_as, load_msg, written in *. cbn zeta. destruct (m_type (fst mt)); try discriminate; reflexivity.
Qed.

Lemma rt_ok_rel_wf : forall r, rt_ok r = true -> rel_wf r = true.
Proof.
  induction r as [|m r IH]; intros H; [reflexivity|].
  cbn [rt_ok forallb] in H. apply andb_true_iff in H. destruct H as [Hm H]. fold (rt_ok r) in H.
  cbn [rel_wf forallb]. fold (rel_wf r). rewrite (IH H), andb_true_r.
  unfold is_wait, mtype_eqb. destruct (m_type m); cbn; try exact Hm;
    apply andb_true_iff in Hm; destruct Hm as [Hm _]; exact Hm.
Qed.

(* ================================================================ save_load: count *)
Lemma rangeZ_aux_length : forall n lo, length (rangeZ_aux n lo) = n.
Proof. induction n as [|n IH]; intros lo; cbn; [reflexivity|]. rewrite IH. reflexivity. Qed.

Theorem C12_count : forall rels seqs, save_load rels = Ok seqs -> length seqs = length rels.
Proof.
  intros rels seqs H. unfold save_load, convert_exec in H. apply C13_convert_shape in H.
  rewrite H, map_length. apply rangeZ_aux_length.
Qed.

(* ================================================================ save_load: the lists before normalisation *)
Definition sl_groups (n : nat) : list (list Z) := map (fun i => [i]) (rangeZ_aux n 0).

Lemma locate_singletons : forall n lo g0 j,
  locate j (map (fun i => [i]) (rangeZ_aux n lo)) g0
  = if (lo <=? j) && (j <? lo + Z.of_nat n) then Some ((g0 + Z.to_nat (j - lo))%nat, O) else None.
Proof.
  induction n as [|n IH]; intros lo g0 j.
  - cbn [rangeZ_aux map locate].
    destruct (lo <=? j) eqn:E1; [apply Z.leb_le in E1|reflexivity].
    destruct (j <? lo + Z.of_nat 0) eqn:E2; [apply Z.ltb_lt in E2; lia|reflexivity].
  - cbn [rangeZ_aux map locate find_pos].
    destruct (Z.eqb j lo) eqn:Ej; [apply Z.eqb_eq in Ej | apply Z.eqb_neq in Ej].
    + subst j. rewrite Z.leb_refl. cbn [andb].
      destruct (lo <? lo + Z.of_nat (S n)) eqn:E2; [|apply Z.ltb_ge in E2; lia].
      rewrite Z.sub_diag. cbn. rewrite Nat.add_0_r. reflexivity.
    + rewrite IH.
      destruct (lo + 1 <=? j) eqn:E1; [apply Z.leb_le in E1 | apply Z.leb_gt in E1].
      * destruct (lo <=? j) eqn:E1'; [|apply Z.leb_gt in E1'; lia]. cbn [andb].
        destruct (j <? lo + 1 + Z.of_nat n) eqn:E2; [apply Z.ltb_lt in E2 | apply Z.ltb_ge in E2].
        -- destruct (j <? lo + Z.of_nat (S n)) eqn:E3; [|apply Z.ltb_ge in E3; lia].
           do 2 f_equal. lia.
        -- destruct (j <? lo + Z.of_nat (S n)) eqn:E3; [apply Z.ltb_lt in E3; lia|reflexivity].
      * cbn [andb]. destruct (lo <=? j) eqn:E1'; [apply Z.leb_le in E1'; lia|reflexivity].
Qed.

Lemma flat_map_mapi_single {B} (h : Z * list mev -> list B) (X : list mev -> list B) (tgt : Z) :
  (forall j evs, h (j, evs) = if Z.eqb j tgt then X evs else []) ->
  forall rs i0,
    flat_map h (mapi_aux (fun i t => (i, t)) i0 rs)
    = if i0 <=? tgt then match nth_error rs (Z.to_nat (tgt - i0)) with Some evs => X evs | None => [] end else [].
Proof.
  intros Hh. induction rs as [|x rs IH]; intros i0.
  - cbn. destruct (i0 <=? tgt); [|reflexivity]. destruct (Z.to_nat (tgt - i0)); reflexivity.
  - cbn [mapi_aux flat_map]. rewrite Hh, IH.
    destruct (Z.eqb i0 tgt) eqn:E; [apply Z.eqb_eq in E | apply Z.eqb_neq in E].
    + subst i0. rewrite Z.leb_refl, Z.sub_diag. cbn [Z.to_nat nth_error].
      destruct (tgt + 1 <=? tgt) eqn:E2; [apply Z.leb_le in E2; lia|]. apply app_nil_r.
    + cbn [app]. destruct (i0 <=? tgt) eqn:E1; [apply Z.leb_le in E1 | apply Z.leb_gt in E1].
      * destruct (i0 + 1 <=? tgt) eqn:E2; [|apply Z.leb_gt in E2; lia].
        replace (Z.to_nat (tgt - i0)) with (S (Z.to_nat (tgt - (i0 + 1)))) by lia. reflexivity.
      * destruct (i0 + 1 <=? tgt) eqn:E2; [apply Z.leb_le in E2; lia|reflexivity].
Qed.

Lemma flat_map_mapi_all {A B} (h : Z * A -> list B) (h' : A -> list B) : forall rs i0,
  (forall j x, i0 <= j < i0 + Z.of_nat (length rs) -> h (j, x) = h' x) ->
  flat_map h (mapi_aux (fun i t => (i, t)) i0 rs) = flat_map h' rs.
Proof.
  induction rs as [|x rs IH]; intros i0 H; [reflexivity|].
  cbn [mapi_aux flat_map]. rewrite H by (cbn [length]; lia). f_equal.
  apply IH. intros j y Hj. apply H. cbn [length]. lia.
Qed.

(* note and signature messages as the loader produces them for a saved sequence *)
Definition loaded_notes (r : list msg) : list msg :=
  map (fun mt : msg * Z => let m := fst mt in let t := snd mt in
                           if is_on m then mk_on 0 (m_note m) (m_vel m) t false else mk_off 0 (m_note m) t false)
      (filter (fun mt => is_note (fst mt)) (stamped r 0)).
Definition loaded_meta (r : list msg) : list msg :=
  map (fun mt : msg * Z => let m := fst mt in let t := snd mt in
                           match m_type m with
                           | TIME_SIGNATURE => mk_ts 0 (m_num m) (m_den m) t false
                           | KEY_SIGNATURE => mk_ks 0 (m_key m) t false
                           | _ => mk_cc 0 (m_ctrl m) (m_vel m) t false
                           end)
      (filter (fun mt => match m_type (fst mt) with TIME_SIGNATURE | KEY_SIGNATURE | CONTROL_CHANGE => true | _ => false end)
              (stamped r 0)).

Lemma own_of_loaded : forall l,
  own_of (map load_msg (filter (fun mt => written (fst mt)) l))
  = map (fun mt : msg * Z => let m := fst mt in let t := snd mt in
                             if is_on m then mk_on 0 (m_note m) (m_vel m) t false else mk_off 0 (m_note m) t false)
        (filter (fun mt => is_note (fst mt)) l).
Proof.
  induction l as [|[m t] l IH]; [reflexivity|].
  cbn [filter fst].
  destruct (m_type m) eqn:Et;
    (first [ assert (Hw : written m = true) by (unfold written; rewrite Et; reflexivity)
           | assert (Hw : written m = false) by (unfold written; rewrite Et; reflexivity) ]);
    (first [ assert (Hn : is_note m = true) by (unfold is_note, is_on, is_off, mtype_eqb; rewrite Et; reflexivity)
           | assert (Hn : is_note m = false) by (unfold is_note, is_on, is_off, mtype_eqb; rewrite Et; reflexivity) ]);
    rewrite Hw, Hn; try exact IH;
    cbn [map]; rewrite load_msg_unfold, Et; unfold own_of in *; cbn [filter is_own fst snd map]; try exact IH.
  - f_equal; [|exact IH]. unfold is_on, mtype_eqb. rewrite Et. reflexivity.
  - f_equal; [|exact IH]. unfold is_on, mtype_eqb. rewrite Et. reflexivity.
Qed.

Lemma meta_of_loaded : forall l,
  meta_of (map load_msg (filter (fun mt => written (fst mt)) l))
  = map (fun mt : msg * Z => let m := fst mt in let t := snd mt in
                             match m_type m with
                             | TIME_SIGNATURE => mk_ts 0 (m_num m) (m_den m) t false
                             | KEY_SIGNATURE => mk_ks 0 (m_key m) t false
                             | _ => mk_cc 0 (m_ctrl m) (m_vel m) t false
                             end)
        (filter (fun mt => match m_type (fst mt) with TIME_SIGNATURE | KEY_SIGNATURE | CONTROL_CHANGE => true | _ => false end) l).
Proof.
  induction l as [|[m t] l IH]; [reflexivity|].
  cbn [filter fst].
  destruct (m_type m) eqn:Et;
    (first [ assert (Hw : written m = true) by (unfold written; rewrite Et; reflexivity)
           | assert (Hw : written m = false) by (unfold written; rewrite Et; reflexivity) ]);
    rewrite Hw; try exact IH;
    cbn [map]; rewrite load_msg_unfold, Et; unfold meta_of in *; cbn [filter is_own fst snd map negb]; try exact IH;
    rewrite Et; f_equal; exact IH.
Qed.

Lemma nth_error_ext_eq {A} : forall (l l' : list A), (forall i, nth_error l i = nth_error l' i) -> l = l'.
Proof.
  induction l as [|x l IH]; intros [|y l'] H.
  - reflexivity.
  - specialize (H O). discriminate.
  - specialize (H O). discriminate.
  - pose proof (H O) as H0. cbn in H0. inversion H0; subst. f_equal. apply IH. intros i. apply (H (S i)).
Qed.

Lemma sl_keys_ok : forall rels, forallb rt_ok rels = true ->
  all_keys_ok (sl_groups (length rels)) (rangeZ_aux (length rels) 0) (mapi (fun i t => (i, t)) (map to_events rels)) = true.
Proof.
  intros rels H. unfold all_keys_ok. apply forallb_forall. intros [i evs] Hin.
  apply mapi_in in Hin. destruct Hin as (n & -> & Hn). cbn [fst snd].
  rewrite nth_error_map in Hn. destruct (nth_error rels n) as [r|] eqn:Er; [|discriminate].
  cbn in Hn. inversion Hn; subst evs.
  rewrite forallb_forall in H. specialize (H r (nth_error_In _ _ Er)).
  destruct (track_out_to_events r 0 0 H) as [Hk _]. unfold to_events. rewrite Hk. apply orb_true_r.
Qed.

Lemma sl_own1 : forall rnd tpb n i, (i < n)%nat -> forall j evs,
  own1 rnd tpb (sl_groups n) i 0 (j, evs)
  = if Z.eqb j (Z.of_nat i) then own_of (track_out rnd tpb evs 0 true) else [].
Proof.
  intros rnd tpb n i Hi j evs. unfold own1, sl_groups. cbn [fst snd]. rewrite locate_singletons.
  destruct (Z.eqb j (Z.of_nat i)) eqn:Ej; [apply Z.eqb_eq in Ej | apply Z.eqb_neq in Ej].
  - subst j. destruct (0 <=? Z.of_nat i) eqn:E1; [|apply Z.leb_gt in E1; lia].
    destruct (Z.of_nat i <? 0 + Z.of_nat n) eqn:E2; [|apply Z.ltb_ge in E2; lia]. cbn [andb].
    rewrite Z.sub_0_r, Nat2Z.id, Nat.add_0_l, !Nat.eqb_refl. reflexivity.
  - destruct ((0 <=? j) && (j <? 0 + Z.of_nat n)) eqn:E; [|reflexivity].
    apply andb_true_iff in E. destruct E as [E1 E2]. apply Z.leb_le in E1.
    destruct (Nat.eqb i (0 + Z.to_nat (j - 0))) eqn:E3; [|reflexivity].
    apply Nat.eqb_eq in E3. lia.
Qed.

Lemma sl_meta1 : forall rnd tpb n j evs, 0 <= j < Z.of_nat n ->
  meta1 rnd tpb (sl_groups n) (rangeZ_aux n 0) (j, evs) = meta_of (track_out rnd tpb evs 0 true).
Proof.
  intros rnd tpb n j evs Hj. unfold meta1, sl_groups. cbn [fst snd]. rewrite locate_singletons.
  destruct (0 <=? j) eqn:E1; [|apply Z.leb_gt in E1; lia].
  destruct (j <? 0 + Z.of_nat n) eqn:E2; [|apply Z.ltb_ge in E2; lia]. reflexivity.
Qed.

(* the state of the loader after reading back what was saved *)
Theorem C12_loaded_lists : forall rels,
  forallb rt_ok rels = true ->
  exists st,
    conv_all round_half_even PPQN (map to_events rels) (sl_groups (length rels)) (rangeZ_aux (length rels) 0) = Ok st /\
    cs_seqs st = map (fun r => [ins_all (loaded_notes r) []]) rels /\
    cs_meta st = ins_all (flat_map loaded_meta rels) [].
Proof.
  intros rels Hok.
  set (n := length rels). set (groups := sl_groups n). set (metas := rangeZ_aux n 0).
  set (its := mapi (fun i t => (i, t)) (map to_events rels)).
  pose proof (conv_all_char round_half_even PPQN groups metas (map to_events rels)) as Hc. cbn zeta in Hc.
  fold its in Hc. unfold groups, metas, n in Hc. unfold its in Hc. rewrite (sl_keys_ok rels Hok) in Hc.
  fold n in Hc. fold groups in Hc. fold metas in Hc. fold its in Hc.
  eexists. split; [exact Hc|].
  destruct (C13_routing_state round_half_even PPQN groups metas (map to_events rels) _ Hc) as (Hm & Hlen & Hcell).
  fold its in Hm, Hcell.
  set (st := fold_left (pstep round_half_even PPQN groups metas) its (init_state groups)) in *.
  assert (Htrack : forall r, In r rels ->
            track_out round_half_even PPQN (to_events r) 0 true
            = map load_msg (filter (fun mt => written (fst mt)) (stamped r 0))).
  { intros r Hr. rewrite forallb_forall in Hok. destruct (track_out_to_events r 0 0 (Hok r Hr)) as [_ H2]. exact H2. }
  assert (Hglen : length groups = n).
  { unfold groups, sl_groups. rewrite map_length. apply rangeZ_aux_length. }
  split.
  - apply nth_error_ext_eq. intros i. rewrite nth_error_map.
    destruct (nth_error rels i) as [r|] eqn:Er; cbn [option_map].
    + assert (Hi : (i < n)%nat) by (apply nth_error_Some; congruence).
      assert (Hg : nth_error groups i = Some [Z.of_nat i]).
      { unfold groups, sl_groups. rewrite nth_error_map.
        assert (Hr : forall k lo, (i < k)%nat -> nth_error (rangeZ_aux k lo) i = Some (lo + Z.of_nat i)).
        { clear. revert i. induction i as [|i IHi]; intros [|k] lo Hk; try lia; cbn [rangeZ_aux nth_error].
          - f_equal. lia.
          - rewrite IHi by lia. f_equal. lia. }
        rewrite (Hr n 0 Hi). reflexivity. }
      specialize (Hcell i O [Z.of_nat i] Hg ltac:(cbn; lia)).
      unfold own_msgs, its, mapi in Hcell.
      rewrite (flat_map_mapi_single _ (fun evs => own_of (track_out round_half_even PPQN evs 0 true)) (Z.of_nat i)
                 (sl_own1 round_half_even PPQN n i Hi)) in Hcell.
      rewrite (proj2 (Z.leb_le 0 (Z.of_nat i)) ltac:(lia)) in Hcell. rewrite Z.sub_0_r, Nat2Z.id, nth_error_map, Er in Hcell. cbn [option_map] in Hcell.
      rewrite (Htrack r (nth_error_In _ _ Er)), own_of_loaded in Hcell. fold (loaded_notes r) in Hcell.
      unfold cell in Hcell. destruct (nth_error (cs_seqs st) i) as [row|] eqn:Erow; [|discriminate].
      assert (Hrl : length row = 1%nat).
      { assert (Hx : nth_error (map (@length _) (cs_seqs st)) i = Some (length row)) by (rewrite nth_error_map, Erow; reflexivity).
        rewrite Hlen, nth_error_map, Hg in Hx. cbn in Hx. congruence. }
      destruct row as [|l0 [|? ?]]; cbn in Hrl; try lia. cbn in Hcell. inversion Hcell. reflexivity.
    + apply nth_error_None. apply nth_error_None in Er.
      rewrite <- (map_length (@length _) (cs_seqs st)), Hlen, map_length, Hglen. exact Er.
  - rewrite Hm. f_equal. unfold meta_msgs, its, mapi.
    rewrite (flat_map_mapi_all _ (fun evs => meta_of (track_out round_half_even PPQN evs 0 true))).
    2:{ intros j x Hj. rewrite map_length in Hj. apply sl_meta1. fold n in Hj. lia. }
    rewrite flat_map_concat_map, map_map, <- flat_map_concat_map.
    clear - Htrack. induction rels as [|r rels IH]; [reflexivity|].
    cbn [flat_map]. rewrite IH by (intros r' Hr'; apply Htrack; right; exact Hr').
    f_equal. rewrite (Htrack r (or_introl eq_refl)), meta_of_loaded. reflexivity.
Qed.

Local Open Scope list_scope.
(* ---- with non-negative waits the ticks are non-decreasing, so inserting one after the other appends *)
Definition nonneg_waits (r : list msg) : bool := forallb (fun m => negb (is_wait m) || (0 <=? m_time m)) r.

Lemma insort_last : forall x l, (forall y, In y l -> m_time y <= m_time x) -> insort x l = l ++ [x].
Proof.
  intros x. induction l as [|y l IH]; intros H; [reflexivity|].
  cbn [insort app]. destruct (m_time x <? m_time y) eqn:E; [apply Z.ltb_lt in E | apply Z.ltb_ge in E].
  - specialize (H y (or_introl eq_refl)). lia.
  - f_equal. apply IH. intros z Hz. apply H. right. exact Hz.
Qed.

Lemma ins_all_stamped : forall (F : msg * Z -> msg) (q : msg * Z -> bool),
  (forall mt, m_time (F mt) = snd mt) ->
  forall r c l, nonneg_waits r = true -> (forall y, In y l -> m_time y <= c) ->
    ins_all (map F (filter q (stamped r c))) l = l ++ map F (filter q (stamped r c)).
Proof.
  intros F q HF. induction r as [|m r IH]; intros c l Hnn Hl.
  - cbn. rewrite app_nil_r. reflexivity.
  - cbn [nonneg_waits forallb] in Hnn. apply andb_true_iff in Hnn. destruct Hnn as [Hm Hnn]. fold (nonneg_waits r) in Hnn.
    cbn [stamped]. destruct (is_wait m) eqn:Ew.
    + cbn in Hm. apply Z.leb_le in Hm. apply IH; [exact Hnn|]. intros y Hy. specialize (Hl y Hy). lia.
    + cbn [filter]. destruct (q (m, c)).
      * cbn [map]. unfold ins_all. cbn [fold_left]. fold (ins_all (map F (filter q (stamped r c))) (insort (F (m, c)) l)).
        rewrite insort_last by (intros y Hy; rewrite HF; cbn; apply Hl; exact Hy).
        rewrite IH; [rewrite <- app_assoc; reflexivity|exact Hnn|].
        intros y Hy. apply in_app_or in Hy. destruct Hy as [Hy|[<-|[]]]; [apply Hl; exact Hy|].
        rewrite HF. cbn. lia.
      * apply IH; assumption.
Qed.

Lemma ins_all_loaded_notes : forall r, nonneg_waits r = true -> ins_all (loaded_notes r) [] = loaded_notes r.
Proof.
  intros r H. unfold loaded_notes. rewrite ins_all_stamped; [reflexivity| |exact H|intros y []].
  intros [m t]. cbn. destruct (is_on m); reflexivity.
Qed.

(* ---- what the per-group merge makes of a group with one track holding the absolute list l *)
Definition loaded_seq (l : list msg) : seq :=
  let nr := normalise (to_rel l) in
  let a := sort_abs (to_abs nr ++ []) in
  mkseq a (normalise (to_rel a)) true false.

Lemma merge_group_single : forall l, merge_group [l] = Ok (loaded_seq l).
Proof. intros l. reflexivity. Qed.

Lemma mapM_map_ok {A B C} (f : B -> result C) (g : A -> B) (h : A -> C) :
  (forall x, f (g x) = Ok (h x)) -> forall l, mapM f (map g l) = Ok (map h l).
Proof.
  intros H. induction l as [|x l IH]; [reflexivity|]. cbn [map mapM]. rewrite H, IH. reflexivity.
Qed.

Theorem C12_notes_partial : forall rels,
  forallb rt_ok rels = true -> forallb nonneg_waits rels = true ->
  exists st,
    conv_all round_half_even PPQN (map to_events rels) (sl_groups (length rels)) (rangeZ_aux (length rels) 0) = Ok st /\
    cs_seqs st = map (fun r => [loaded_notes r]) rels /\
    Permutation (cs_meta st) (flat_map loaded_meta rels) /\
    forall seqs, save_load rels = Ok seqs ->
      forall i r, (0 < i)%nat -> nth_error rels i = Some r -> nth_error seqs i = Some (loaded_seq (loaded_notes r)).
Proof.
  intros rels Hok Hnn. destruct (C12_loaded_lists rels Hok) as (st & Hc & Hs & Hm).
  assert (Hs' : cs_seqs st = map (fun r => [loaded_notes r]) rels).
  { rewrite Hs. apply map_ext_in. intros r Hr. rewrite forallb_forall in Hnn.
    rewrite (ins_all_loaded_notes r (Hnn r Hr)). reflexivity. }
  exists st. split; [exact Hc|]. split; [exact Hs'|]. split.
  { rewrite Hm. apply (ins_all_perm _ []). }
  intros seqs Hsl i r Hi Hr. unfold save_load, convert_exec in Hsl. rewrite convert_unfold in Hsl.
  fold (sl_groups (length rels)) in Hsl. rewrite Hc in Hsl. cbn [rbind] in Hsl. rewrite Hs' in Hsl.
  rewrite (mapM_map_ok merge_group (fun r => [loaded_notes r]) (fun r => loaded_seq (loaded_notes r))
             (fun r => merge_group_single (loaded_notes r))) in Hsl.
  cbn [rbind] in Hsl. unfold finish in Hsl.
  match type of Hsl with (if ?c then _ else _) = _ => destruct c end; [discriminate|].
  match type of Hsl with match ?x with _ => _ end = _ => destruct x as [mt|] end; [|discriminate].
  destruct (seq_merge mt [seq_of_abs (cs_meta st)]) as [[mt1 ?]|]; [|discriminate]. cbn [rbind] in Hsl.
  destruct (get_abs mt1) as [[mt2 a]|]; [|discriminate]. cbn [rbind] in Hsl.
  match type of Hsl with rbind ?x _ = _ => destruct x as [mt3|] end; [|discriminate]. cbn [rbind] in Hsl.
  assert (Hseqs : seqs = set_nth (Z.to_nat 0) (fun _ => mt3) (map (fun r => loaded_seq (loaded_notes r)) rels))
    by (inversion Hsl; reflexivity).
  rewrite Hseqs, nth_error_set_nth.
  destruct (Nat.eqb i (Z.to_nat 0)) eqn:E; [apply Nat.eqb_eq in E; cbn in E; lia|].
  rewrite nth_error_map, Hr. reflexivity.
Qed.

(* ---- when does save_load succeed *)
Theorem C12_save_load_ok : forall rels,
  rels <> [] -> forallb rt_ok rels = true -> exists seqs, save_load rels = Ok seqs /\ length seqs = length rels.
Proof.
  intros rels Hne Hok. unfold save_load, convert_exec.
  destruct (C13_convert_ok round_half_even PPQN (map to_events rels) (sl_groups (length rels))
              (rangeZ_aux (length rels) 0) 0) as (seqs & Hs).
  - apply (sl_keys_ok rels Hok).
  - unfold sl_groups. generalize (rangeZ_aux (length rels) 0). intros l. induction l; [reflexivity|exact IHl].
  - unfold lenZ, sl_groups. rewrite map_length, rangeZ_aux_length. destruct rels; [contradiction|]. cbn [length]. lia.
  - exists seqs. split; [exact Hs|]. apply C12_count. exact Hs.
Qed.

(* ================================================================ non-vacuity examples *)
Definition ex_r1 : list msg :=
  [wt 0 5; on 0 60 64 0; pc 0 3 0; wt 0 12; ts 0 3 4 0; of 0 60 0; wt 0 7; it 0 0; wt 0 2; ks 0 K_F_S 0;
   cc 0 7 100 0; on 0 62 90 0; wt 0 3; of 0 62 0].
Definition ex_r2 : list msg := [on 0 50 10 0; wt 0 24; of 0 50 0].

Example C12_ex_hyps : rel_wf ex_r1 = true /\ rt_ok ex_r1 = true /\ nonneg_waits ex_r1 = true /\
                      forallb rt_ok [ex_r1; ex_r2] = true /\ forallb nonneg_waits [ex_r1; ex_r2] = true.
Proof. repeat split; vm_compute; reflexivity. Qed.

Example C12_ex_events : map snd (abs_ticks (to_events ex_r1) 0) = [5; 17; 17; 26; 26; 26; 29].
Proof. vm_compute. reflexivity. Qed.

Example C12_ex_save_load : exists seqs, save_load [ex_r1; ex_r2] = Ok seqs /\ length seqs = 2%nat.
Proof. eexists. split; vm_compute; reflexivity. Qed.

(* outside the hypotheses: a NOTE_ON with velocity 0 is read back as a NOTE_OFF, a key signature without key is
   written as the empty key name and cannot be read back, and an empty list of sequences cannot be loaded with the
   default meta index 0 *)
Example C12_ex_vel0 : conv_track round_half_even PPQN (to_events [on 0 60 0 0]) 0 true = Ok [(TOwn, mk_off 0 60 0 false)].
Proof. vm_compute. reflexivity. Qed.
Example C12_ex_nokey : save_load [[mk_ks 0 None 0 false]] = Err KeyErr.
Proof. vm_compute. reflexivity. Qed.
Example C12_ex_empty : save_load [] = Err ValueErr.
Proof. vm_compute. reflexivity. Qed.
