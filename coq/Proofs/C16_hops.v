(* C16_hops.v -- frame theorems of property C16 for the compound-operation layer of Model/ScaleDown.v
   (store_scale_down, hseq, hstep, run_h). *)
From Coq Require Import ZArith List Bool Lia Permutation.
From Model Require Import Base Seq Pairing Util Bars Store ScaleDown.
From Proofs Require Import C16_proofs.
Import ListNotations.
Open Scope Z_scope.

(* ---------------------------------------------------------------- index sets of a compound operation *)
Definition optl (m : option nat) : list nat := match m with Some j => [j] | None => [] end.

(* every object index named by the compound operation *)
Definition names_h (h : hop) : list nat :=
  match h with
  | HOp o | HFail o _ => names o
  | HRaise _ => []
  | HSeq os => flat_map names os
  | HScaleDown i _ meta then_ => i :: optl meta ++ flat_map names then_
  end.
(* the objects whose stored value may differ afterwards: scale(1/k, meta) writes i and reads both views of meta *)
Definition may_change_h (h : hop) : list nat :=
  match h with
  | HOp o | HFail o _ => may_change o
  | HRaise _ => []
  | HSeq os => flat_map may_change os
  | HScaleDown i _ meta then_ => i :: optl meta ++ flat_map may_change then_
  end.
(* the objects whose events the compound operation is meant to change *)
Definition writes_h (h : hop) : list nat :=
  match h with
  | HOp o | HFail o _ => writes o
  | HRaise _ => []
  | HSeq os => flat_map writes os
  | HScaleDown i _ _ then_ => i :: flat_map writes then_
  end.

Lemma memn_app j l l' : memn j (l ++ l') = memn j l || memn j l'.
Proof. unfold memn. apply existsb_app. Qed.

Lemma In_flat_map_incl (f g : op -> list nat) (os : list op) x :
  (forall o y, In y (f o) -> In y (g o)) -> In x (flat_map f os) -> In x (flat_map g os).
Proof. intros H Hx. apply in_flat_map in Hx. destruct Hx as [o [Ho Hx]]. apply in_flat_map. exists o. auto. Qed.

Lemma may_change_h_names h x : In x (may_change_h h) -> In x (names_h h).
Proof.
  destruct h as [o|os|i k meta then_|o e|e]; cbn [may_change_h names_h].
  - apply may_change_names.
  - apply In_flat_map_incl. exact may_change_names.
  - cbn [In]. rewrite !in_app_iff. intros [H|[H|H]]; auto. right. right.
    eapply In_flat_map_incl; [exact may_change_names|exact H].
  - apply may_change_names.
  - intros [].
Qed.
Lemma writes_h_may_change h x : In x (writes_h h) -> In x (may_change_h h).
Proof.
  destruct h as [o|os|i k meta then_|o e|e]; cbn [may_change_h writes_h].
  - apply writes_may_change.
  - apply In_flat_map_incl. exact writes_may_change.
  - cbn [In]. rewrite !in_app_iff. intros [H|H]; auto. right. right.
    eapply In_flat_map_incl; [exact writes_may_change|exact H].
  - apply writes_may_change.
  - intros [].
Qed.

(* ---------------------------------------------------------------- frame relation: monotonicity *)
Lemma fr_mono st st' (C W C' W' : nat -> bool) :
  (forall j, C' j = false -> C j = false) -> (forall j, W' j = false -> W j = false) ->
  fr st st' C W -> fr st st' C' W'.
Proof.
  intros Hc Hw H j s Hj. destruct (H j s Hj) as [s' [Hs' [K1 K2]]]. exists s'. split; [exact Hs'|]. split; auto.
Qed.

(* ---------------------------------------------------------------- scale(1/k, meta) on the store *)
(* object i is written on success; on failure (the call returns an error) every object is at most regenerated; objects
   other than i and the meta object are never touched *)
Lemma store_scale_down_fr_out st i k meta :
  fr st (fst (store_scale_down st i k meta))
     (fun j => memn j (i :: optl meta))
     (fun j => match snd (store_scale_down st i k meta) with OErr _ => false | _ => memn j [i] end).
Proof.
  unfold store_scale_down, lift.
  match goal with |- context [match ?r with Ok x => x | Err e => _ end] => destruct r as [[st' xo]|e] eqn:E end;
    [|apply fr_refl]. cbn [fst snd].
  bind1 E st0 E0.
  assert (Hi : memn i (i :: optl meta) = true) by apply memn_hd.
  assert (F0 : forall W, fr st st0 (fun j => memn j (i :: optl meta)) W).
  { intro W. destruct meta as [j|].
    - bind1 E0 y Ey. destruct y as [sa xa]. bind1 E0 z Ez. destruct z as [sb xb]. inversion E0; subst.
      assert (Hj : forall x, In x [j] -> memn x (i :: optl (Some j)) = true).
      { intros x [<-|[]]. apply memn_tl, memn_hd. }
      eapply fr_trans; [eapply read_abss_fr; [exact Hj|exact Ey]|eapply read_rels_fr; [exact Hj|exact Ez]].
    - inversion E0; subst. apply fr_refl. }
  bind1 E s Es. bind1 E y Ey. destruct y as [s1 r].
  assert (F1 : forall W, fr st (setn st0 i s1) (fun j => memn j (i :: optl meta)) W).
  { intro W. eapply fr_trans; [apply F0|].
    eapply fr_setn_regen; [apply getn_Some; exact Es|eapply regen_one, R_rel; exact Ey|exact Hi]. }
  bind1 E z Ez. destruct z as [mrel mabs].
  destruct (scale_down r mrel mabs k) as [r'|e]; inversion E; subst.
  - eapply fr_trans; [apply F1|]. apply fr_setn_write; [exact Hi|apply memn_hd].
  - apply F1.
Qed.

Lemma store_scale_down_fr st i k meta :
  fr st (fst (store_scale_down st i k meta)) (fun j => memn j (i :: optl meta)) (fun j => memn j [i]).
Proof.
  eapply fr_mono; [| |apply store_scale_down_fr_out]; [auto|].
  intros j H. cbv beta. destruct (snd _); auto.
Qed.

(* ---------------------------------------------------------------- compound operations *)
Lemma hseq_fr os : forall st last,
  fr st (fst (hseq st os last)) (fun j => memn j (flat_map may_change os)) (fun j => memn j (flat_map writes os)).
Proof.
  induction os as [|o os IH]; intros st last; [apply fr_refl|].
  cbn [hseq flat_map]. pose proof (step_fr st o) as F1. destruct (step st o) as [st1 x]. cbn [fst] in F1.
  assert (F1' : fr st st1 (fun j => memn j (may_change o ++ flat_map may_change os))
                          (fun j => memn j (writes o ++ flat_map writes os))).
  { eapply fr_mono; [| |exact F1]; intros j H; rewrite memn_app in H; apply orb_false_iff in H; tauto. }
  assert (F2 : forall l, fr st1 (fst (hseq st1 os l)) (fun j => memn j (may_change o ++ flat_map may_change os))
                          (fun j => memn j (writes o ++ flat_map writes os))).
  { intro l. eapply fr_mono; [| |apply IH]; intros j H; rewrite memn_app in H; apply orb_false_iff in H; tauto. }
  destruct x; try (eapply fr_trans; [exact F1'|apply F2]); exact F1'.
Qed.

Lemma hstep_fr st h :
  fr st (fst (hstep st h)) (fun j => memn j (may_change_h h)) (fun j => memn j (writes_h h)).
Proof.
  destruct h as [o|os|i k meta then_|o e|e]; cbn [hstep may_change_h writes_h].
  - apply step_fr.
  - apply hseq_fr.
  - pose proof (store_scale_down_fr st i k meta) as F1.
    destruct (store_scale_down st i k meta) as [st1 x]. cbn [fst] in F1.
    assert (F1' : fr st st1 (fun j => memn j (i :: optl meta ++ flat_map may_change then_))
                            (fun j => memn j (i :: flat_map writes then_))).
    { eapply fr_mono; [| |exact F1]; intros j H.
      - change (i :: optl meta ++ flat_map may_change then_) with ((i :: optl meta) ++ flat_map may_change then_) in H.
        rewrite memn_app in H. apply orb_false_iff in H. tauto.
      - change (i :: flat_map writes then_) with ([i] ++ flat_map writes then_) in H.
        rewrite memn_app in H. apply orb_false_iff in H. tauto. }
    assert (F2 : forall l, fr st1 (fst (hseq st1 then_ l)) (fun j => memn j (i :: optl meta ++ flat_map may_change then_))
                            (fun j => memn j (i :: flat_map writes then_))).
    { intro l. eapply fr_mono; [| |apply hseq_fr]; intros j H.
      - change (i :: optl meta ++ flat_map may_change then_) with ((i :: optl meta) ++ flat_map may_change then_) in H.
        rewrite memn_app in H. apply orb_false_iff in H. tauto.
      - change (i :: flat_map writes then_) with ([i] ++ flat_map writes then_) in H.
        rewrite memn_app in H. apply orb_false_iff in H. tauto. }
    destruct x; try (eapply fr_trans; [exact F1'|apply F2]); exact F1'.
  - pose proof (step_fr st o) as F1. destruct (step st o) as [st1 x]. exact F1.
  - apply fr_refl.
Qed.

(* ---------------------------------------------------------------- exported theorems *)
Theorem C16_hframe : forall st h j s, nth_error st j = Some s ->
  exists s', nth_error (fst (hstep st h)) j = Some s' /\
             (memn j (may_change_h h) = false -> s' = s) /\
             (memn j (writes_h h) = false -> regen s s').
Proof. intros st h j s H. exact (hstep_fr st h j s H). Qed.

Theorem C16_hframe_names : forall st h j s, nth_error st j = Some s -> memn j (names_h h) = false ->
  nth_error (fst (hstep st h)) j = Some s.
Proof.
  intros st h j s H Hn. destruct (C16_hframe st h j s H) as [s' [Hs' [Hc _]]]. rewrite Hs'. f_equal. apply Hc.
  eapply memn_false_incl; [|exact Hn]. apply may_change_h_names.
Qed.

Theorem C16_hlength : forall st h, (length st <= length (fst (hstep st h)))%nat.
Proof. intros st h. eapply fr_length. apply hstep_fr. Qed.

(* scale(1/k, meta) itself: objects other than the receiver i and the meta object are literally unchanged; the meta
   object (when it is not the receiver) and, when the call fails, every object are at most regenerated, so they keep
   their events; the store keeps its length *)
Theorem C16_scale_down_frame : forall st i k meta j s, nth_error st j = Some s ->
  exists s', nth_error (fst (store_scale_down st i k meta)) j = Some s' /\
             (j <> i -> meta <> Some j -> s' = s) /\
             (j <> i -> regen s s' /\ same_events s s') /\
             (forall e, snd (store_scale_down st i k meta) = OErr e -> regen s s' /\ same_events s s').
Proof.
  intros st i k meta j s H. destruct (store_scale_down_fr_out st i k meta j s H) as [s' [Hs' [Hc Hw]]].
  exists s'. split; [exact Hs'|]. split; [|split].
  - intros Hji Hm. apply Hc. rewrite memn_cons. apply Nat.eqb_neq in Hji. rewrite Hji. cbn [orb].
    destruct meta as [j'|]; [|reflexivity]. cbn [optl]. rewrite memn_cons. cbn [memn existsb]. rewrite orb_false_r.
    apply Nat.eqb_neq. congruence.
  - intro Hji. assert (R : regen s s').
    { apply Hw. destruct (snd _); try reflexivity; rewrite memn_cons; apply Nat.eqb_neq in Hji; rewrite Hji; reflexivity. }
    split; [exact R|now apply C16_regen_content].
  - intros e He. rewrite He in Hw. specialize (Hw eq_refl). split; [exact Hw|now apply C16_regen_content].
Qed.

Theorem C16_scale_down_length : forall st i k meta, length (fst (store_scale_down st i k meta)) = length st.
Proof.
  intros st i k meta. unfold store_scale_down, lift.
  match goal with |- context [match ?r with Ok x => x | Err e => _ end] => destruct r as [[st' xo]|e] eqn:E end;
    [|reflexivity]. cbn [fst].
  bind1 E st0 E0.
  assert (L0 : length st0 = length st).
  { destruct meta as [j|]; [|inversion E0; reflexivity].
    bind1 E0 y Ey. destruct y as [sa xa]. bind1 E0 z Ez. destruct z as [sb xb]. inversion E0; subst.
    cbn [read_abss read_rels] in Ey, Ez.
    bind1 Ey s Es. bind1 Ey w Ew. destruct w as [s' a]. inversion Ey; subst.
    bind1 Ez t Et. bind1 Ez w Ew'. destruct w as [t' r]. inversion Ez; subst.
    now rewrite !setn_length. }
  bind1 E s Es. bind1 E y Ey. destruct y as [s1 r]. bind1 E z Ez. destruct z as [mrel mabs].
  destruct (scale_down r mrel mabs k); inversion E; subst; rewrite ?setn_length; exact L0.
Qed.

(* ---------------------------------------------------------------- histories of compound operations *)
Lemma run_h_cons st h hs : fst (run_h st (h :: hs)) = fst (run_h (fst (hstep st h)) hs).
Proof. cbn [run_h]. destruct (hstep st h) as [st1 x]. cbn [fst]. destruct (run_h st1 hs). reflexivity. Qed.

Definition leaves_h (j : nat) (hs : list hop) : bool := forallb (fun h => negb (memn j (may_change_h h))) hs.
Definition no_write_h (j : nat) (hs : list hop) : bool := forallb (fun h => negb (memn j (writes_h h))) hs.

Theorem C16_run_h_frame : forall hs st j s, nth_error st j = Some s -> leaves_h j hs = true ->
  nth_error (fst (run_h st hs)) j = Some s.
Proof.
  induction hs as [|h hs IH]; intros st j s H Hl; [exact H|].
  unfold leaves_h in Hl. cbn [forallb] in Hl. apply andb_true_iff in Hl. destruct Hl as [Ho Hops].
  rewrite run_h_cons. apply IH; [|exact Hops].
  destruct (C16_hframe st h j s H) as [s' [Hs' [Hc _]]]. rewrite Hs'. f_equal. apply Hc.
  destruct (memn j (may_change_h h)); [discriminate|reflexivity].
Qed.

Theorem C16_run_h_reads : forall hs st j s, nth_error st j = Some s -> no_write_h j hs = true ->
  exists s', nth_error (fst (run_h st hs)) j = Some s' /\ regen s s' /\ same_events s s'.
Proof.
  induction hs as [|h hs IH]; intros st j s H Hl.
  - exists s. split; [exact H|]. split; [apply regen_refl|apply same_events_refl].
  - unfold no_write_h in Hl. cbn [forallb] in Hl. apply andb_true_iff in Hl. destruct Hl as [Ho Hops].
    rewrite run_h_cons. destruct (C16_hframe st h j s H) as [s1 [Hs1 [_ Hw]]].
    destruct (IH _ _ _ Hs1 Hops) as [s2 [Hs2 [Hr _]]]. exists s2. split; [exact Hs2|].
    assert (R : regen s s2).
    { eapply regen_trans; [|exact Hr]. apply Hw. destruct (memn j (writes_h h)); [discriminate|reflexivity]. }
    split; [exact R|now apply C16_regen_content].
Qed.

Theorem C16_run_h_length : forall hs st, (length st <= length (fst (run_h st hs)))%nat.
Proof.
  induction hs as [|h hs IH]; intro st; [apply le_n|]. rewrite run_h_cons.
  eapply Nat.le_trans; [apply C16_hlength|apply IH].
Qed.

(* ---------------------------------------------------------------- non-vacuity *)
Definition exh_bars_rel : list msg :=
  [mk_ts 0 4 4 0 false; mk_on 0 60 100 0 false; mk_wait 0 96 false; mk_off 0 60 0 false;
   mk_on 0 62 100 0 false; mk_wait 0 96 false; mk_off 0 62 0 false].
Definition exh_store : store :=
  fst (run [] [ONewRel exh_bars_rel; ONewRel exh_bars_rel; ONewRel [mk_on 1 50 90 0 false; mk_wait 0 30 false; mk_off 1 50 0 false]]).
Definition exh_hop : hop := HScaleDown 0 2 (Some 1%nat) [OQuantNorm 0 [12; 8] [24; 12; 6]; OReadAbs 0].

(* the hop succeeds, names objects 0 and 1 only, really changes object 0, literally changes the meta object 1 (its
   absolute view is regenerated) and leaves object 2 alone *)
Example C16_hframe_nonvacuous :
  let st' := fst (hstep exh_store exh_hop) in
  memn 2 (names_h exh_hop) = false /\ memn 1 (writes_h exh_hop) = false /\ memn 1 (may_change_h exh_hop) = true /\
  (match snd (hstep exh_store exh_hop) with OErr _ => false | _ => true end) = true /\
  nth_error st' 2 = nth_error exh_store 2 /\
  nth_error st' 1 <> nth_error exh_store 1 /\
  nth_error st' 0 <> nth_error exh_store 0 /\
  map (fun s => dur_rel (s_rel s)) st' = [72; 192; 30] /\ length st' = 3%nat.
Proof. vm_compute. repeat split; try reflexivity; discriminate. Qed.

(* scale(1/k) that fails (a wait of 96 ticks is not a multiple of 5) after having refreshed views *)
Example C16_scale_down_fail_nonvacuous :
  snd (store_scale_down exh_store 0 5 (Some 2%nat)) = OErr OutOfModel /\
  nth_error (fst (store_scale_down exh_store 0 5 (Some 2%nat))) 2 <> nth_error exh_store 2 /\
  nth_error (fst (store_scale_down exh_store 0 5 (Some 2%nat))) 1 = nth_error exh_store 1 /\
  map (fun s => (s_abs_stale s, s_rel_stale s)) (fst (store_scale_down exh_store 0 5 (Some 2%nat))) =
    [(true, false); (true, false); (false, false)].
Proof. vm_compute. repeat split; try reflexivity; discriminate. Qed.

Definition exh_hops : list hop :=
  [exh_hop; HSeq [OScale 0 2; ONormalise 0]; HFail (OReadRel 1) ValueErr; HRaise ValueErr; HScaleDown 0 5 (Some 1%nat) [ONew];
   HOp (OCopy 1); HScaleDown 3 2 None []].
Example C16_run_h_nonvacuous :
  leaves_h 2 exh_hops = true /\ no_write_h 1 exh_hops = true /\ leaves_h 1 exh_hops = false /\
  length (fst (run_h exh_store exh_hops)) = 4%nat /\
  map (fun x => match x with OErr e => Some e | _ => None end) (snd (run_h exh_store exh_hops)) =
    [None; None; Some ValueErr; Some ValueErr; Some OutOfModel; None; None].
Proof. vm_compute. repeat split; reflexivity. Qed.
