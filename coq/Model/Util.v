(* Util.v -- scoda/misc/util.py: duration generators, velocity bins.  Float arithmetic of the Python code is modelled
   by exact rational arithmetic; all intermediate values of the Python code are small dyadic rationals or are
   truncated immediately, so the two agree (checked by the correspondence check on the default settings and on
   sampled arguments). *)
From Model Require Export Base.

(* get_note_durations(upper_bound_multiplier, lower_bound_divisor, base) *)
Fixpoint nd_upper (fuel : nat) (ub pow base : Z) : list Z :=
  match fuel with
  | O => []
  | S f => if pow <=? ub then (ub * base) / pow :: nd_upper f ub (pow * 2) base else []
  end.
Fixpoint nd_lower (fuel : nat) (j lb base : Z) : list Z :=
  match fuel with
  | O => []
  | S f => if j <=? lb then base / j :: nd_lower f (j * 2) lb base else []
  end.
Definition log2_fuel (z : Z) : nat := S (Z.to_nat (Z.log2 (Z.max z 1))).
Definition get_note_durations (ub lb base : Z) : list Z :=
  nd_upper (log2_fuel ub) ub 1 base ++ nd_lower (log2_fuel lb) 2 lb base.

Definition get_tuplet_durations (ds : list Z) (rn rd : Z) : list Z := map (fun d => (d * rd) / rn) ds.

(* candidate = d * (1 + (1 - 1/2^(it+1))) = d * (2^(it+2) - 1) / 2^(it+1), kept when integral *)
Fixpoint dotted_aux (n : nat) (it : Z) (ds : list Z) : list Z :=
  match n with
  | O => []
  | S n' =>
      let den := 2 ^ (it + 1) in
      let num := 2 ^ (it + 2) - 1 in
      flat_map (fun d => if (d * num) mod den =? 0 then [(d * num) / den] else []) ds ++ dotted_aux n' (it + 1) ds
  end.
Definition get_dotted_note_durations (ds : list Z) (iters : Z) : list Z := dotted_aux (Z.to_nat iters) 0 ds.

Definition get_default_step_sizes (ubs lbs : Z) : list Z :=
  let q := get_note_durations (2 ^ ubs) (4 * 2 ^ lbs) PPQN in
  q ++ get_tuplet_durations q 3 2.

Definition get_default_note_values : list Z :=
  let normal := get_note_durations NOTE_VALUE_UPPER_BOUND NOTE_VALUE_LOWER_BOUND PPQN in
  let trip := flat_map (fun t : Z * Z => get_tuplet_durations normal (fst t) (snd t)) VALID_TUPLETS in
  normal ++ trip ++ get_dotted_note_durations normal DOTTED_ITERATIONS.

(* round(velocity_max / n): round-half-even of the rational vmax/n *)
Definition round_half_even (a b : Z) : Z :=          (* b > 0 *)
  let q := a / b in let r := a mod b in
  if 2 * r <? b then q else if b <? 2 * r then q + 1 else if Z.even q then q else q + 1.

(* tokeniser (fixed code): int(min(vmax, (i+1)*bs + bs/2)) for i in range(n) *)
Fixpoint vbins_aux (k : nat) (i : Z) (bs vmax : Z) : list Z :=
  match k with
  | O => []
  | S k' => Z.min vmax ((i + 1) * bs + bs / 2) :: vbins_aux k' (i + 1) bs vmax
  end.
Definition velocity_bins (n : Z) : list Z :=
  vbins_aux (Z.to_nat n) 0 (round_half_even VELOCITY_MAX n) VELOCITY_MAX.

(* np.digitize(v, bins, right=True) for monotonically increasing bins: number of bins strictly below v *)
Definition bin_velocity (v : Z) (bins : list Z) : Z := lenZ (filter (fun b => b <? v) bins).
