(* C06 -- Note-length quantisation yields only allowed durations and never moves onsets.
   Statements about Model.Pairing.quantise_note_lengths and its parts (qnl_valid, qnl_channel), and about
   Model.Base.find_minimal_distance / closest.  Auxiliary definitions (nodupb, fits, qnl_emit, with_next, ...) are in
   Proofs/C06_proofs.v. *)
From Coq Require Import ZArith List Bool Lia Permutation.
From Model Require Import Base Seq Pairing.
From Proofs Require Import C05_closest C05_proofs C05_wf C06_proofs C06_main.
Import ListNotations.
Open Scope Z_scope.

(* find_minimal_distance returns the FIRST index of an element at minimal distance; closest is that element: it is a
   member of the list and minimises |x - e| over the list (clause "an allowed duration closest to its original") *)
Theorem C06_closest_spec : forall e l, l <> [] ->
  exists n, find_minimal_distance e l = Z.of_nat n /\ (n < length l)%nat /\
    closest e l = nth n l 0 /\ In (closest e l) l /\
    (forall x, In x l -> Z.abs (closest e l - e) <= Z.abs (x - e)) /\
    (forall k, (k < n)%nat -> Z.abs (closest e l - e) < Z.abs (nth k l 0 - e)).
Proof. exact C06_proofs.C06_closest_spec. Qed.
Print Assumptions C06_closest_spec.

(* the valid durations of a pairing, for a duplicate-free value list: exactly the allowed values that end no later
   than the onset of the next note of the same pitch in the channel and, with do_not_extend, are not longer than the
   current duration (clause "among those that fit before the next note"; "with extension disabled no note gets longer") *)
Theorem C06_valid_spec : forall values dne p next v, nodupb values = true ->
  (In v (qnl_valid values dne p next) <->
   In v values /\
   match next with None => True | Some nx => p_on_time p + v <= p_on_time nx end /\
   (dne = false \/ v <= p_off_time p - p_on_time p)).
Proof. exact C06_proofs.C06_valid_spec. Qed.
Print Assumptions C06_valid_spec.

(* one channel: the output is the concatenation, in pairing order, of what each pairing emits; a closed pairing
   (on, off) is dropped iff no duration is valid; otherwise it emits the unchanged note-on followed by the note-off
   with only its time changed to onset + d, where d is an allowed value, valid, closest to the current duration among
   the valid ones, and (do_not_extend) not longer than the current duration *)
Theorem C06_channel_durations : forall values dne ps, nodupb values = true ->
  qnl_channel values dne ps = flat_map (fun pn => qnl_emit values dne (fst pn) (snd pn)) (with_next ps) /\
  forall p next i off, snd p = Some (i, off) ->
    let cur := m_time off - m_time (p_first p) in
    let valid := qnl_valid values dne p next in
    (valid = [] -> qnl_emit values dne p next = []) /\
    (valid <> [] -> exists d,
       In d values /\ In d valid /\ (forall x, In x valid -> Z.abs (d - cur) <= Z.abs (x - cur)) /\
       qnl_emit values dne p next = [p_first p; set_time off (m_time (p_first p) + d) (m_tf off)] /\
       (dne = true -> d <= cur)).
Proof. exact C06_proofs.C06_channel_durations. Qed.
Print Assumptions C06_channel_durations.

(* clause "every non-note event is untouched": for ANY input, the non-note messages (nonnote m = negb (is_note m)) of
   the output are, as a multiset, exactly the non-note messages of the (sorted) input -- same records, same times *)
Theorem C06_nonnote : forall l values std dne,
  Permutation (filter nonnote (quantise_note_lengths l values std dne)) (filter nonnote (sort_abs l)).
Proof. exact C06_proofs.C06_nonnote. Qed.
Print Assumptions C06_nonnote.

(* the whole function on a well-formed list (wf_abs, see C05: sorted by time; per (channel, pitch) key the notes
   alternate on/off, off strictly after on, next on not before the previous off), duplicate-free positive values:
   (1) the output is well-formed again (notes of the same channel and pitch pair up and do not overlap, positive
       durations), and
   (2) per (channel, pitch) key k the note messages of the output (kproj k) are exactly the reference per-key quantiser
       qnl_key applied to the key's input notes [on1; off1; on2; off2; ...]:  each (on, off) is either dropped -- iff no
       allowed value v satisfies  onset + v <= onset of the next note of the key  and (do_not_extend) v <= current
       duration -- or emitted as the unchanged note-on followed by the note-off with only its time changed to
       onset + closest current-duration among those values.
   Covers: onsets/pitch/channel/velocity unchanged, closest fitting duration, removal only when nothing fits,
   no overlap, no extension with do_not_extend. *)
Theorem C06_main : forall l values std dne,
  wf_abs l = true -> nodupb values = true -> pos_steps values = true ->
  wf_abs (quantise_note_lengths l values std dne) = true /\
  forall k, kproj k (quantise_note_lengths l values std dne) = qnl_key values dne (kproj k l).
Proof. exact C06_main.C06_main. Qed.
Print Assumptions C06_main.

(* clause "every remaining note has a duration from that list": per key, the consecutive (on, off) pairs of the output
   have off - on in values *)
Theorem C06_main_durations : forall l values std dne k,
  wf_abs l = true -> nodupb values = true -> pos_steps values = true ->
  Forall (fun d => In d values) (pair_durs (kproj k (quantise_note_lengths l values std dne))).
Proof. exact C06_main.C06_main_durations. Qed.
Print Assumptions C06_main_durations.

(* clause "its onset, pitch, channel and velocity are unchanged": every note-on of the output is a note-on record of
   the input, every note-off of the output is a note-off of the input with only its time changed *)
Theorem C06_main_members : forall l values std dne m,
  wf_abs l = true -> nodupb values = true -> pos_steps values = true ->
  In m (quantise_note_lengths l values std dne) -> is_note m = true ->
  (is_on m = true /\ In m l) \/
  (is_on m = false /\ exists off, In off l /\ m = set_time off (m_time m) (m_tf off)).
Proof. exact C06_main.C06_main_members. Qed.
Print Assumptions C06_main_members.
