(* C15_sound.v -- the sounding-set clause of C15 through to_rel / normalise / to_abs, i.e. for the sequence that
   Sequence.merge really leaves behind (builds on Sound_glue.v and C15_proofs.v).
   Hypotheses on every input (absolute list):
     nnt  : times are non-negative;
     sbal : (Sound_glue) for every key (channel,pitch) and tick t,  #on(time < t) - #off(time <= t) >= 0  and
            #on = #off: every NOTE_OFF closes a note of its key that started at a STRICTLY earlier tick and every note
            is closed.  No sortedness is required and the inputs may OVERLAP each other (and themselves) on a key.
   Excluded: zero-length notes (NOTE_ON and NOTE_OFF of one key on one tick with nothing of that key open),
   orphan NOTE_OFFs, unclosed NOTE_ONs.  See C15_sound_zero_length_refuted for why. *)
From Coq Require Import ZArith List Bool Lia Permutation.
From Model Require Import Base Seq Pairing Store.
From Proofs Require Import C04_sort C04_proofs C07_proofs C17_proofs C15_proofs Sound_glue.
Import ListNotations.
Open Scope Z_scope.

Lemma nnt_concat ls : forallb nnt ls = true -> nnt (concat ls) = true.
Proof.
  induction ls as [|l ls IH]; [reflexivity|]. cbn [forallb concat]. intros H. apply andb_true_iff in H as [H1 H2].
  unfold nnt in *. now rewrite forallb_app, H1, IH.
Qed.

Lemma sumZ_nonneg l : (forall x, In x l -> 0 <= x) -> 0 <= sumZ l.
Proof.
  induction l as [|x l IH]; intros H; cbn [sumZ]; [lia|].
  assert (0 <= x) by (apply H; now left). assert (0 <= sumZ l) by (apply IH; intros; apply H; now right). lia.
Qed.
Lemma sumZ_zero l : (forall x, In x l -> x = 0) -> sumZ l = 0.
Proof.
  induction l as [|x l IH]; intros H; cbn [sumZ]; [lia|].
  assert (x = 0) by (apply H; now left). assert (sumZ l = 0) by (apply IH; intros; apply H; now right). lia.
Qed.

Lemma sbal_concat ls : forallb sbal ls = true -> sbal (concat ls) = true.
Proof.
  intros H. rewrite forallb_forall in H. apply sbal_intro. intros k. split.
  - intros t. unfold sdepth. rewrite asum_concat. apply sumZ_nonneg. intros x Hx.
    apply in_map_iff in Hx as (l & <- & Hl). apply (sbal_spec l (H l Hl) k).
  - rewrite <- asum_c1, asum_concat. apply sumZ_zero. intros x Hx.
    apply in_map_iff in Hx as (l & <- & Hl). rewrite asum_c1. apply (sbal_spec l (H l Hl) k).
Qed.

(* the merged absolute list inherits the hypotheses, and is time-sorted *)
Lemma merge_wf (a : list msg) (others : list (list msg)) :
  forallb nnt (a :: others) = true -> forallb sbal (a :: others) = true ->
  tsorted (merge_abs a others) = true /\ nnt (merge_abs a others) = true /\ sbal (merge_abs a others) = true.
Proof.
  intros N S. destruct (C15_perm a others) as [P _]. apply Permutation_sym in P.
  change (a ++ concat others) with (concat (a :: others)) in P.
  split; [apply sort_abs_tsorted|]. split.
  - apply (nnt_perm _ _ P). now apply nnt_concat.
  - apply (sbal_perm _ _ P). now apply sbal_concat.
Qed.

(* sbal lists never close a note more often than they opened it *)
Lemma sbal_depth_nonneg l : sbal l = true -> forall k t, 0 <= depth_at k t l.
Proof.
  intros S k t. rewrite <- adepth_depth_at. pose proof (sdepth_le_adepth k t l) as Le.
  destruct (sbal_spec l S k) as [H _]. specialize (H t). lia.
Qed.

Lemma sound_union (a : list msg) (others : list (list msg)) (k : k2) (t : Z) :
  forallb sbal (a :: others) = true ->
  C15_proofs.sounding k t (merge_abs a others) = existsb (C15_proofs.sounding k t) (a :: others).
Proof.
  intros S. rewrite forallb_forall in S. apply eq_true_iff_eq. unfold C15_proofs.sounding at 1. rewrite Z.ltb_lt.
  rewrite C15_sound_prop by (intros l Hl; apply sbal_depth_nonneg; now apply S).
  rewrite existsb_exists. unfold C15_proofs.sounding.
  split; intros (l & Hl & Hp); exists l; split; auto; now apply Z.ltb_lt.
Qed.

(* ---------------------------------------------------------------- C15_sound *)
(* the absolute view of the merged, normalised sequence sounds exactly where some input sounds; it is time-sorted,
   strictly alternating per key (overlapping notes fused into one), and satisfies the hypotheses again *)
Theorem C15_sound (a : list msg) (others : list (list msg)) :
  forallb nnt (a :: others) = true -> forallb sbal (a :: others) = true ->
  let v := to_abs (normalise (to_rel (merge_abs a others))) in
  (forall k t, C15_proofs.sounding k t v = existsb (C15_proofs.sounding k t) (a :: others)) /\
  tsorted v = true /\ nnt v = true /\ swf v = true /\ sbal v = true /\ nover v = true.
Proof.
  intros N S v. destruct (merge_wf a others N S) as (TS & NT & SB).
  destruct (glue_round_wf (merge_abs a others) TS NT SB) as (H1 & H2 & H3 & H4 & H5 & H6).
  split; [|repeat split; assumption].
  intros k t. unfold v. rewrite H6. now apply sound_union.
Qed.

(* the same for the relative view (the one Sequence.merge leaves fresh), with C07's list-order sounding *)
Theorem C15_sound_rel (a : list msg) (others : list (list msg)) :
  forallb nnt (a :: others) = true -> forallb sbal (a :: others) = true ->
  let r := normalise (to_rel (merge_abs a others)) in
  (forall k t, C07_proofs.sounding k t 0 0 r = existsb (C15_proofs.sounding k t) (a :: others)) /\
  (forall k, alt k false r = true) /\ nonneg_waits r = true.
Proof.
  intros N S r. destruct (merge_wf a others N S) as (TS & NT & SB).
  destruct (glue_normalise (merge_abs a others) TS NT (sbal_balanced _ TS SB)) as (H1 & H2 & H3).
  split; [|split; assumption]. intros k t. unfold r. rewrite H3. now apply sound_union.
Qed.

(* lifted to the Sequence wrapper *)
Theorem C15_sound_seq (s s1 : seq) (others os : list seq) (a : list msg) (as_ : list (list msg)) :
  get_abs s = Ok (s1, a) -> refresh_abs_all others = Ok (os, as_) ->
  forallb nnt (a :: as_) = true -> forallb sbal (a :: as_) = true ->
  exists m m' v, seq_merge s others = Ok (m, os) /\ get_abs m = Ok (m', v) /\
    (forall k t, C15_proofs.sounding k t v = existsb (C15_proofs.sounding k t) (a :: as_)) /\
    tsorted v = true /\ swf v = true.
Proof.
  intros G R N S. rewrite (seq_merge_spec s s1 others os a as_ G R).
  destruct (C15_sound a as_ N S) as (H1 & H2 & _ & H4 & _).
  eexists. eexists. eexists. split; [reflexivity|]. split; [reflexivity|]. cbn [s_rel]. auto.
Qed.

(* a strictly alternating time-sorted list (swf) satisfies sbal *)
Lemma swf_inputs_ok ls : forallb tsorted ls = true -> forallb swf ls = true -> forallb sbal ls = true.
Proof.
  rewrite !forallb_forall. intros T W l Hl. now apply (swf_sbal_nover l (T l Hl) (W l Hl)).
Qed.

(* ---------------------------------------------------------------- non-vacuity and the excluded case *)
Definition e_on c n v t := mk_on c n v t false.
Definition e_of c n t := mk_off c n t false.
(* overlapping on key (0,60); abutting on key (0,62); different channel; different lengths; an empty input *)
Definition in1 : list msg := [e_on 0 60 64 0; e_of 0 60 6; e_on 0 62 64 0; e_of 0 62 5; mk_ts 0 3 4 0 false].
Definition in2 : list msg := [e_on 0 60 70 3; e_of 0 60 10; e_on 0 62 70 5; e_of 0 62 9; e_on 1 60 70 1; e_of 1 60 20].
Definition in3 : list msg := [].
Definition e_ticks : list Z := [-1;0;1;2;3;4;5;6;7;8;9;10;11;12].

Example C15_sound_nonvacuous :
  forallb nnt [in1; in2; in3] = true /\ forallb sbal [in1; in2; in3] = true /\
  map (fun m => (m_type m, m_chan m, m_note m, m_time m)) (filter is_note (to_abs (normalise (to_rel (merge_abs in1 [in2; in3])))))
  = [(NOTE_ON, 0, 60, 0); (NOTE_ON, 0, 62, 0); (NOTE_ON, 1, 60, 1); (NOTE_OFF, 0, 62, 5); (NOTE_ON, 0, 62, 5);
     (NOTE_OFF, 0, 62, 9); (NOTE_OFF, 0, 60, 10); (NOTE_OFF, 1, 60, 20)] /\
  map (fun t => C15_proofs.sounding (0, 60) t (to_abs (normalise (to_rel (merge_abs in1 [in2; in3]))))) e_ticks
  = [false; true; true; true; true; true; true; true; true; true; true; false; false; false].
Proof. vm_compute. repeat split; reflexivity. Qed.

(* REFUTED without "no zero-length note": both inputs are time-sorted, balanced in list order and never have negative
   depth (the hypothesis of C15_sound_partial), the first consists of one zero-length note; after Sequence.merge the
   REAL note of the second input (ticks 5..10) is gone.  Mechanism: the sort puts NOTE_OFF before NOTE_ON on one tick
   (off5 on5 on5 off10); normalise drops the first off as an orphan, counts depth 2, is left with an unclosed note at
   the end and removes its NOTE_ON. *)
Definition z1 : list msg := [e_on 0 60 64 5; e_of 0 60 5].
Definition z2 : list msg := [e_on 0 60 70 5; e_of 0 60 10].
Example C15_sound_zero_length_refuted :
  forallb tsorted [z1; z2] = true /\ forallb nnt [z1; z2] = true /\ forallb balanced [z1; z2] = true /\
  forallb wf_depth [z1; z2] = true /\ forallb sbal [z1; z2] = false /\
  existsb (C15_proofs.sounding (0, 60) 7) [z1; z2] = true /\
  C15_proofs.sounding (0, 60) 7 (to_abs (normalise (to_rel (merge_abs z1 [z2])))) = false /\
  filter is_note (normalise (to_rel (merge_abs z1 [z2]))) = [].
Proof. vm_compute. repeat split; reflexivity. Qed.
