(* C08 -- Splitting a sequence conserves duration, sound and events with exact capacities.
   `seq_split l caps` (Model/Seq.v) is RelativeSequence.split on the relative message list `l` with the capacity
   list `caps`; `dur_rel` is the duration of a relative list (sum of its WAIT times).  "Laid end to end" is the
   concatenation `concat (seq_split l caps)` read as one relative list (by C08_exact every piece but the last lasts
   exactly its capacity, so piece i starts at tick caps[0] + ... + caps[i-1]).

   Definitions used below (all in Proofs/C08_proofs.v):
     evs t l        the (tick, message) list of the messages of l that are neither WAIT nor NOTE_ON/NOTE_OFF, in list
                    order, the clock starting at t
     tail_ok l      no such event comes after the last WAIT of positive time of l
     on_boundary d caps   d = caps[0] + ... + caps[i] for some i
     ev_safe l caps = tail_ok l || negb (on_boundary (dur_rel l) caps)
     paired l       per (channel, pitch): NOTE_ON / NOTE_OFF alternate in list order, first a NOTE_ON, last a NOTE_OFF
     paired_pos l   the same and, in addition, a WAIT of positive time lies between every NOTE_ON and its NOTE_OFF
                    (no zero-length notes)
     sound k t 0 None l = Some v   iff key k = (channel, pitch) is sounding at tick t (inside a WAIT interval
                    [start, start + time) during which k is open), v = velocity of the NOTE_ON that opened it
   The clause "the source sequence is not changed by the call" is not a statement about this value-level model
   (seq_split is a pure function of l). *)
From Coq Require Import ZArith List Bool Lia.
From Model Require Import Base Seq.
From Proofs Require Import C08_proofs.
Import ListNotations.
Open Scope Z_scope.

(* Clause "at most one piece more than there are capacities".  No hypothesis at all. *)
Theorem C08_count : forall (l : list msg) (caps : list Z),
  (length (seq_split l caps) <= length caps + 1)%nat.
Proof. exact C08_proofs.C08_count. Qed.
Print Assumptions C08_count.

(* Clause "every piece except the last lasts exactly its capacity": piece i, when it is not the last piece, has
   duration caps[i].  (When the input runs out early there are fewer pieces than capacities; still every piece but
   the last one is exact.)  Needs positive capacities only; nothing is assumed about `l`. *)
Theorem C08_exact : forall (l : list msg) (caps : list Z),
  forallb (fun c => 0 <? c) caps = true ->
  forall i : nat, (S i < length (seq_split l caps))%nat ->
  dur_rel (nth i (seq_split l caps) []) = nth i caps 0.
Proof. exact C08_proofs.C08_exact. Qed.
Print Assumptions C08_exact.

(* Clause "the piece durations sum to the original duration".  Holds already for non-negative capacities. *)
Theorem C08_total : forall (l : list msg) (caps : list Z),
  forallb (fun c => 0 <=? c) caps = true ->
  sumZ (map dur_rel (seq_split l caps)) = dur_rel l.
Proof. exact C08_proofs.C08_total. Qed.
Print Assumptions C08_total.

(* Clause "no piece ends with a note still sounding": for an input whose notes are paired and last a positive time,
   every piece is again paired (even paired_pos).  NOT proved for zero-length notes: see C08_no_open_end_refuted. *)
Theorem C08_no_open_end : forall (l : list msg) (caps : list Z),
  forallb (fun m => negb (is_wait m) || (0 <=? m_time m)) l = true ->
  forallb (fun c => 0 <? c) caps = true ->
  paired_pos l = true ->
  forall p, In p (seq_split l caps) -> paired_pos p = true /\ paired p = true.
Proof. exact C08_proofs.C08_no_open_end. Qed.
Print Assumptions C08_no_open_end.

(* The same clause is FALSE for a paired input with a zero-length note exactly on a boundary: its NOTE_OFF is kept in
   the old piece, its NOTE_ON is deferred to the next piece, where it is never closed. *)
Theorem C08_no_open_end_refuted : exists (l : list msg) (caps : list Z),
  forallb (fun m => negb (is_wait m) || (0 <=? m_time m)) l = true /\
  forallb (fun c => 0 <? c) caps = true /\ paired l = true /\
  seq_split l caps = [[mk_wait 0 24 false; mk_off 0 60 0 false]; [mk_on 0 60 100 0 false; mk_wait 0 24 false]] /\
  forallb paired (seq_split l caps) = false.
Proof. exact C08_proofs.C08_no_open_end_refuted. Qed.
Print Assumptions C08_no_open_end_refuted.

(* Clause "every non-note event at its original tick": the pieces laid end to end carry exactly the same
   (tick, event) list, in the same order, PROVIDED the input does not have an event after its last positive WAIT
   while its duration ends exactly on a capacity boundary (ev_safe).  That excluded case is the known defect D5,
   see C08_events_refuted. *)
Theorem C08_events : forall (l : list msg) (caps : list Z),
  forallb (fun m => negb (is_wait m) || (0 <=? m_time m)) l = true ->
  forallb (fun c => 0 <=? c) caps = true ->
  ev_safe l caps = true ->
  evs 0 (concat (seq_split l caps)) = evs 0 l.
Proof. exact C08_proofs.C08_events. Qed.
Print Assumptions C08_events.

(* The clause is FALSE without ev_safe: the key signature at tick 24 of
   [on 60; wait 24; off 60; key_signature G] split by [24] is dropped (the event list of the result is empty). *)
Theorem C08_events_refuted : exists (l : list msg) (caps : list Z),
  forallb (fun m => negb (is_wait m) || (0 <=? m_time m)) l = true /\
  forallb (fun c => 0 <? c) caps = true /\ paired_pos l = true /\
  evs 0 (concat (seq_split l caps)) = [] /\ evs 0 l = [(24, mk_ks 0 (Some K_G) 0 false)].
Proof. exact C08_proofs.C08_events_refuted. Qed.
Print Assumptions C08_events_refuted.

(* Clause "the pieces reproduce exactly the original set of sounding (channel, pitch, tick) triples, notes crossing
   a boundary cut there and re-struck with the same velocity": for every key and every tick, the key sounds in the
   pieces laid end to end iff it sounds in the original, and with the same velocity.  Same hypotheses as
   C08_no_open_end; false for zero-length notes on a boundary, see C08_sound_refuted. *)
Theorem C08_sound : forall (l : list msg) (caps : list Z),
  forallb (fun m => negb (is_wait m) || (0 <=? m_time m)) l = true ->
  forallb (fun c => 0 <? c) caps = true ->
  paired_pos l = true ->
  forall (k : k2) (t : Z), sound k t 0 None (concat (seq_split l caps)) = sound k t 0 None l.
Proof. exact C08_proofs.C08_sound. Qed.
Print Assumptions C08_sound.

(* [wait 24; on 60 vel 100; off 60; wait 24] split by [24]: nothing sounds at tick 30 in the original, pitch 60 does in
   the result. *)
Theorem C08_sound_refuted : exists (l : list msg) (caps : list Z) (k : k2) (t : Z),
  forallb (fun m => negb (is_wait m) || (0 <=? m_time m)) l = true /\
  forallb (fun c => 0 <? c) caps = true /\ paired l = true /\
  sound k t 0 None l = None /\ sound k t 0 None (concat (seq_split l caps)) = Some 100.
Proof. exact C08_proofs.C08_sound_refuted. Qed.
Print Assumptions C08_sound_refuted.
