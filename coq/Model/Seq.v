(* Seq.v -- value-level model of AbsoluteSequence / RelativeSequence basic operations.
   scoda/sequences/absolute_sequence.py, relative_sequence.py, misc/util.py (binary_insort). *)
From Model Require Export Base.

(* ---------------------------------------------------------------- AbsoluteSequence.sort *)
(* key = (time, channel, message_type rank, note); Python's sort is stable *)
Definition key_le (a b : msg) : bool :=
  if m_time a <? m_time b then true else if m_time b <? m_time a then false else
  if m_chan a <? m_chan b then true else if m_chan b <? m_chan a then false else
  if mtype_rank (m_type a) <? mtype_rank (m_type b) then true
  else if mtype_rank (m_type b) <? mtype_rank (m_type a) then false else
  m_note a <=? m_note b.

Fixpoint ins_sorted (x : msg) (l : list msg) : list msg :=
  match l with [] => [x] | y :: l' => if key_le x y then x :: y :: l' else y :: ins_sorted x l' end.
Fixpoint sort_abs (l : list msg) : list msg :=
  match l with [] => [] | x :: l' => ins_sorted x (sort_abs l') end.

(* util.binary_insort on a time-sorted list: after the last element whose time is <= the new one *)
Fixpoint insort (x : msg) (l : list msg) : list msg :=
  match l with [] => [x] | y :: l' => if m_time x <? m_time y then x :: y :: l' else y :: insort x l' end.

(* ---------------------------------------------------------------- RelativeSequence.to_absolute_sequence *)
Definition first_chan (l : list msg) : Z := match l with [] => 0 | m :: _ => m_chan m end.

(* returns the stamped non-wait messages, the final clock, its tag, and cap_message_exists *)
Fixpoint to_abs_aux (l : list msg) (cur : Z) (curf : bool) (cap : bool) : list msg * Z * bool * bool :=
  match l with
  | [] => ([], cur, curf, cap)
  | m :: l' =>
      if is_wait m then to_abs_aux l' (cur + m_time m) (curf || m_tf m) false
      else let '(r, c, f, k) := to_abs_aux l' cur curf true in (set_time m cur curf :: r, c, f, k)
  end.
Definition to_abs (l : list msg) : list msg :=
  let '(r, c, _, cap) := to_abs_aux l 0 false true in
  let s := sort_abs r in
  if cap then s else insort (mk_internal (first_chan l) c) s.

(* ---------------------------------------------------------------- AbsoluteSequence.to_relative_sequence *)
Definition strip_time (m : msg) : msg := set_time m 0 false.
Fixpoint to_rel_aux (l : list msg) (cur : Z) (curf : bool) : list msg :=
  match l with
  | [] => []
  | m :: l' =>
      let w := if cur <? m_time m then [mk_wait (m_chan m) (m_time m - cur) (m_tf m || curf)] else [] in
      let cur' := if cur <? m_time m then m_time m else cur in
      let curf' := if cur <? m_time m then m_tf m else curf in
      let e := if mtype_eqb (m_type m) INTERNAL then [] else [strip_time m] in
      w ++ e ++ to_rel_aux l' cur' curf'
  end.
Definition to_rel (l : list msg) : list msg := to_rel_aux l 0 false.

(* ---------------------------------------------------------------- RelativeSequence.normalise_relative *)
(* state of the loop; the output is kept in order (appended) *)
Record nstate : Set := mkn {
  n_open : list (k2 * nat);          (* (channel, pitch) -> length of its note_list *)
  n_out : list msg;
  n_wait : Z; n_waitf : bool;
  n_ts : Z * Z;                      (* current numerator / denominator, (-1,-1) = None *)
  n_key : option Key }.              (* current_key; None = Python None (initially, or a key message without key) *)

Definition depth (k : k2) (o : list (k2 * nat)) : nat := match dget k2_eqb k o with Some n => n | None => O end.

Definition flush (s : nstate) (c : Z) (m : msg) : nstate :=
  let out := if 0 <? n_wait s then n_out s ++ [mk_wait c (n_wait s) (n_waitf s)] else n_out s in
  let w := if 0 <? n_wait s then 0 else n_wait s in
  let wf := if 0 <? n_wait s then false else n_waitf s in
  mkn (n_open s) (out ++ [m]) w wf (n_ts s) (n_key s).

Definition nstep (s : nstate) (m : msg) : nstate :=
  let k := (m_chan m, m_note m) in
  match m_type m with
  | WAIT => mkn (n_open s) (n_out s) (n_wait s + m_time m) (n_waitf s || m_tf m) (n_ts s) (n_key s)
  | NOTE_ON =>
      let d := depth k (n_open s) in
      let s' := mkn (dset k2_eqb k (S d) (n_open s)) (n_out s) (n_wait s) (n_waitf s) (n_ts s) (n_key s) in
      match d with O => flush s' (m_chan m) m | _ => s' end
  | NOTE_OFF =>
      match depth k (n_open s) with
      | O => s                                             (* never opened: dropped *)
      | S d =>
          let s' := mkn (dset k2_eqb k d (n_open s)) (n_out s) (n_wait s) (n_waitf s) (n_ts s) (n_key s) in
          match d with O => flush s' (m_chan m) m | _ => s' end
      end
  | TIME_SIGNATURE =>
      if Z.eqb (m_num m) (fst (n_ts s)) && Z.eqb (m_den m) (snd (n_ts s)) then s
      else flush (mkn (n_open s) (n_out s) (n_wait s) (n_waitf s) (m_num m, m_den m) (n_key s)) (m_chan m) m
  | KEY_SIGNATURE =>
      if okey_eqb (m_key m) (n_key s) then s
      else flush (mkn (n_open s) (n_out s) (n_wait s) (n_waitf s) (n_ts s) (m_key m)) (m_chan m) m
  | _ => flush s (m_chan m) m
  end.

(* remove the last NOTE_ON of (channel, pitch) k from the output: the one that is still open *)
Fixpoint remove_last_on (k : k2) (l : list msg) : list msg * bool :=
  match l with
  | [] => ([], false)
  | m :: l' =>
      let '(r, found) := remove_last_on k l' in
      if found then (m :: r, true)
      else if is_on m && k2_eqb k (m_chan m, m_note m) then (r, true) else (m :: r, false)
  end.

Definition cleanup (o : list (k2 * nat)) (out : list msg) : list msg :=
  fold_left (fun acc kd => match snd kd with O => acc | S _ => fst (remove_last_on (fst kd) acc) end) o out.

Definition normalise (l : list msg) : list msg :=
  let s := fold_left nstep l (mkn [] [] 0 false (NONE, NONE) None) in
  let out := if 0 <? n_wait s then n_out s ++ [mk_wait (first_chan l) (n_wait s) (n_waitf s)] else n_out s in
  cleanup (n_open s) out.

(* ---------------------------------------------------------------- pad / set_channel / concatenate / scale *)
Definition dur_rel (l : list msg) : Z := sumZ (map m_time (filter is_wait l)).
Definition tf_rel (l : list msg) : bool := existsb m_tf (filter is_wait l).

(* current_length as computed by pad(): stops as soon as it reaches the padding length *)
Fixpoint pad_len (l : list msg) (cur : Z) (curf : bool) (p : Z) : Z * bool :=
  match l with
  | [] => (cur, curf)
  | m :: l' => if is_wait m then
                 let c := cur + m_time m in
                 if p <=? c then (c, curf || m_tf m) else pad_len l' c (curf || m_tf m) p
               else pad_len l' cur curf p
  end.
Definition pad (l : list msg) (p : Z) (pf : bool) : list msg :=
  let '(c, f) := pad_len l 0 false p in
  if c <? p then l ++ [mk_wait (first_chan l) (p - c) (pf || f)] else l.

Definition set_channel (l : list msg) (c : Z) : list msg := map (fun m => set_chan m c) l.

(* RelativeSequence.scale for factor >= 1 (integer typed); factor < 1 is not modelled *)
Definition scale (l : list msg) (k : Z) : list msg :=
  if k =? 1 then l else map (fun m => if is_wait m then set_time m (m_time m * k) (m_tf m) else m) l.

(* ---------------------------------------------------------------- transpose *)
(* the two while loops; fuel = a bound on the number of octave steps *)
Fixpoint wrap_up (fuel : nat) (n : Z) : Z :=
  match fuel with O => n | S f => if n <? NOTE_LOWER_BOUND then wrap_up f (n + 12) else n end.
Fixpoint wrap_down (fuel : nat) (n : Z) : Z :=
  match fuel with O => n | S f => if NOTE_UPPER_BOUND <? n then wrap_down f (n - 12) else n end.
Definition wrap_fuel (n : Z) : nat := Z.to_nat (Z.abs n / 12 + 12).
Definition wrap (n : Z) : Z := wrap_down (wrap_fuel n) (wrap_up (wrap_fuel n) n).

Definition transpose_msg (k : Z) (m : msg) : msg * bool :=
  if is_note m then
    let n := m_note m + k in (set_note m (wrap n), negb (Z.eqb (wrap n) n))
  else if mtype_eqb (m_type m) KEY_SIGNATURE then
    (set_key m (match m_key m with Some ky => transpose_key ky k | None => None end), false)
  else (m, false).
Definition transpose (l : list msg) (k : Z) : list msg * bool :=
  let r := map (transpose_msg k) l in (map fst r, existsb snd r).

(* ---------------------------------------------------------------- split (fixed code: copies, (channel,pitch) keys) *)
Inductive split_res : Set :=
| SEnd (cur : list msg) (opn : list (k2 * msg))
| SCut (cur : list msg) (opn : list (k2 * msg)) (wm : list msg).

Fixpoint split_inner (wm cur : list msg) (opn : list (k2 * msg)) (q : list msg) (rem : Z) : split_res :=
  match wm with
  | [] => SEnd cur opn
  | m :: wm' =>
      match m_type m with
      | NOTE_ON => if 0 <? rem then split_inner wm' (cur ++ [m]) (dset k2_eqb (m_chan m, m_note m) m opn) q rem
                   else split_inner wm' cur opn (q ++ [m]) rem
      | NOTE_OFF => split_inner wm' (cur ++ [m]) (ddel k2_eqb (m_chan m, m_note m) opn) q rem
      | WAIT =>
          if m_time m <=? rem then split_inner wm' (cur ++ [m]) opn q (rem - m_time m)
          else
            let cur1 := if 0 <? rem then cur ++ [mk_wait (m_chan m) rem false] else cur in
            let offs := map (fun kv => mk_off (m_chan (snd kv)) (m_note (snd kv)) 0 false) opn in
            let ons := map (fun kv => mk_on (m_chan (snd kv)) (m_note (snd kv)) (m_vel (snd kv)) 0 false) opn in
            SCut (cur1 ++ offs) opn (q ++ ons ++ [mk_wait (m_chan m) (m_time m - rem) (m_tf m)] ++ wm')
      | _ => if 0 <? rem then split_inner wm' (cur ++ [m]) opn q rem else split_inner wm' cur opn (q ++ [m]) rem
      end
  end.

Fixpoint split_outer (caps : list Z) (wm cur : list msg) (opn : list (k2 * msg)) (acc : list (list msg))
  : list (list msg) * list msg * list msg :=
  match caps with
  | [] => (acc, wm, cur)
  | c :: caps' =>
      match split_inner wm cur opn [] c with
      | SEnd cur' opn' => split_outer caps' [] [] opn' (match cur' with [] => acc | _ => acc ++ [cur'] end)
      | SCut cur' opn' wm' => split_outer caps' wm' [] opn' (match cur' with [] => acc | _ => acc ++ [cur'] end)
      end
  end.

(* tag of the remaining-capacity wait: capacity is an int argument and the subtracted waits may be floats; the
   Python value `remaining_capacity` is int unless a float wait was subtracted.  The generator only feeds integer
   waits to split when comparing tags; the model uses `false`. *)
Definition seq_split (l : list msg) (caps : list Z) : list (list msg) :=
  let '(acc, wm, cur) := split_outer caps l [] [] [] in
  let cur' := cur ++ wm in
  match cur' with [] => acc | _ => acc ++ [cur'] end.

(* ---------------------------------------------------------------- merge (absolute) *)
Definition merge_abs (self : list msg) (others : list (list msg)) : list msg := sort_abs (self ++ concat others).
