(* C03 -- Stateful bar-by-bar tokenisation is equivalent to tokenising the whole piece.
   CORE level (see Props/C01.v for `core`, `valid_cfg`, `valid_from`, `exp_track`, `rel`): a call of `tokenise` is its
   front end followed by `core c st evs` (C01_tokenise_core); here the front end's output, the event list of each
   call, is given directly, with call-relative times.

   * `chunked c st chs`: one `core` call per chunk, each started from the tstate returned by the previous one (so with
     shift = t_time of that state), token lists concatenated.
   * `chunk_len ch`: time of the chunk's last event (the cap at its end); `glue 0 chs`: the event list of the whole
     piece = every chunk shifted (`shift_ev`: onset and offset times moved) to the sum of the previous chunk lengths.
   * `chunks_ok g c k chs` (boolean): every chunk, in absolute time, is a valid event list from the reference clock
     at its start (same conditions as C01's `valid_events`), and ends exactly on a bar start with no note written at
     that instant (all its note onsets are before its end): a group of whole bars.  Time-signature changes, empty
     bars and any grouping are allowed. *)
From Coq Require Import ZArith List Bool Lia Permutation.
From Model Require Import Base Util Seq Pairing Tok.
From Proofs Require Import C01_rest C01_proofs C03_proofs.
Import ListNotations.
Open Scope Z_scope.

(* The chunked run and the single run on the whole piece return the SAME token list and the same final state
   (stronger than "detokenise to the same notes"); in particular both fail or both succeed. *)
Theorem C03_chunked_tokens : forall (g : Z) (c : cfg) (chs : list (list event)),
  valid_cfg g c = true -> chunks_ok g c (rclk0 c) chs = true ->
  chunked c (tstate0 c) chs = core c (tstate0 c) (glue 0 chs).
Proof. exact C03_proofs.C03_chunked_tokens. Qed.
Print Assumptions C03_chunked_tokens.

(* ... and that stream exists and detokenises to exactly the notes (pitch, onset, duration, velocity bin) and bar caps
   of the whole piece, per track (content of each track as a permutation of `exp_track`, as in C01). *)
Theorem C03_chunked_roundtrip : forall (g : Z) (c : cfg) (chs : list (list event)),
  valid_cfg g c = true -> chunks_ok g c (rclk0 c) chs = true ->
  exists toks st seqs,
    chunked c (tstate0 c) chs = Ok (toks, st) /\ core c (tstate0 c) (glue 0 chs) = Ok (toks, st) /\
    detokenise c toks = Ok seqs /\ length seqs = Z.to_nat (c_ntracks c) /\
    forall i, (i < length seqs)%nat -> Permutation (filter rel (nth i seqs [])) (exp_track c (glue 0 chs) i).
Proof. exact C03_proofs.C03_chunked_roundtrip. Qed.
Print Assumptions C03_chunked_roundtrip.

(* "for every way of grouping consecutive bars into calls": two groupings of the same piece give the same result *)
Theorem C03_regroup : forall (g : Z) (c : cfg) (chs1 chs2 : list (list event)),
  valid_cfg g c = true -> chunks_ok g c (rclk0 c) chs1 = true -> chunks_ok g c (rclk0 c) chs2 = true ->
  glue 0 chs1 = glue 0 chs2 ->
  chunked c (tstate0 c) chs1 = chunked c (tstate0 c) chs2.
Proof. exact C03_proofs.C03_regroup. Qed.
Print Assumptions C03_regroup.
