(* C04_read.v -- readability for ALL histories: whatever the operations and their arguments (no well-formedness
   assumption at all), no object of the store ever has both views stale, so both properties can always be read. *)
From Coq Require Import ZArith List Bool Lia.
From Model Require Import Base Seq Pairing Util Bars Store.
From Proofs Require Import C04_inv.
Import ListNotations.
Open Scope Z_scope.

Definition R (s : seq) : Prop := s_abs_stale s && s_rel_stale s = false.
Definition SR (st : store) : Prop := Forall R st.

Lemma R_abs_fresh (s : seq) : s_abs_stale s = false -> R s.
Proof. unfold R. now intros ->. Qed.
Lemma R_rel_fresh (s : seq) : s_rel_stale s = false -> R s.
Proof. unfold R. intros ->. apply andb_false_r. Qed.

(* a successful read always leaves the view it read fresh *)
Lemma get_abs_fresh (s s' : seq) (a : list msg) : get_abs s = Ok (s', a) -> s_abs_stale s' = false.
Proof.
  unfold get_abs. destruct (s_abs_stale s) eqn:E.
  - destruct (s_rel_stale s); [discriminate|]. intro H. now injection H as <- _.
  - intro H. now injection H as <- _.
Qed.
Lemma get_rel_fresh (s s' : seq) (r : list msg) : get_rel s = Ok (s', r) -> s_rel_stale s' = false.
Proof.
  unfold get_rel. destruct (s_rel_stale s) eqn:E.
  - destruct (s_abs_stale s); [discriminate|]. intro H. now injection H as <- _.
  - intro H. now injection H as <- _.
Qed.

Lemma get_abs_R (s s' : seq) (a : list msg) : get_abs s = Ok (s', a) -> R s'.
Proof. intro H. eapply R_abs_fresh, get_abs_fresh, H. Qed.
Lemma get_rel_R (s s' : seq) (r : list msg) : get_rel s = Ok (s', r) -> R s'.
Proof. intro H. eapply R_rel_fresh, get_rel_fresh, H. Qed.

Lemma R_readable (s : seq) : R s -> (exists s1 a, get_abs s = Ok (s1, a)) /\ (exists s2 r, get_rel s = Ok (s2, r)).
Proof.
  unfold R, get_abs, get_rel. intro H. destruct (s_abs_stale s), (s_rel_stale s); try discriminate; split; eauto.
Qed.

Lemma upd_abs_R (s s' : seq) (f : list msg -> list msg) : upd_abs s f = Ok s' -> R s'.
Proof. unfold upd_abs. intro E. inv_bind E as [s1 a] Eg. now injection E as <-. Qed.
Lemma upd_rel_R (s s' : seq) (f : list msg -> list msg) : upd_rel s f = Ok s' -> R s'.
Proof. unfold upd_rel. intro E. inv_bind E as [s1 a] Eg. now injection E as <-. Qed.

Lemma seq_sort_abs_R (s s' : seq) : seq_sort_abs s = Ok s' -> R s'.
Proof. unfold seq_sort_abs. intro E. inv_bind E as [s1 a] Eg. now injection E as <-. Qed.

Lemma seq_copy_R (s : seq) : R (seq_copy s).
Proof. unfold seq_copy. destruct (s_abs_stale s), (s_rel_stale s); reflexivity. Qed.

Lemma seq_quantise_R (s s' : seq) (steps : list Z) : seq_quantise s steps = Ok s' -> R s'.
Proof. unfold seq_quantise. intro E. inv_bind E as [s1 a] Eg. inv_bind E as a' Eq. now injection E as <-. Qed.

Lemma seq_transpose_R (s s' : seq) (k : Z) (b : bool) : seq_transpose s k = Ok (s', b) -> R s'.
Proof.
  unfold seq_transpose. intro E. inv_bind E as [s1 r] Eg. destruct (transpose r k) as [r' shifted].
  destruct shifted.
  - inv_bind E as s3 En. inv_bind E as s4 Eq. injection E as <- _. eapply upd_abs_R. exact Eq.
  - now injection E as <- _.
Qed.

Lemma seq_refresh_R (s s' : seq) : seq_refresh s = Ok s' -> R s'.
Proof.
  unfold seq_refresh. destruct (_ && _); [discriminate|]. intro E.
  inv_bind E as [s1 a] Eg. inv_bind E as [s2 r] Er. injection E as <-. eapply get_rel_R. exact Er.
Qed.

(* store *)
Lemma getn_R (st : store) (i : nat) (s : seq) : SR st -> getn st i = Ok s -> R s.
Proof.
  intros HS E. unfold getn in E. destruct (nth_error st i) as [x|] eqn:En; [|discriminate].
  injection E as <-. unfold SR in HS. rewrite Forall_forall in HS. apply HS. eapply nth_error_In. exact En.
Qed.
Lemma setn_R (st : store) (i : nat) (s : seq) : SR st -> R s -> SR (setn st i s).
Proof. intros HS H. unfold setn. apply set_nth_Forall; [intros _ _; exact H|exact HS]. Qed.
Lemma SR_app (st st' : store) : SR st -> SR st' -> SR (st ++ st').
Proof. intros H1 H2. apply Forall_app. now split. Qed.
Lemma SR_snoc (st : store) (s : seq) : SR st -> R s -> SR (st ++ [s]).
Proof. intros H1 H2. apply SR_app; [exact H1|]. constructor; [exact H2|constructor]. Qed.
Lemma SR_map_rel {A} (f : A -> seq) (l : list A) : (forall x, R (f x)) -> SR (map f l).
Proof. intro H. apply Forall_forall. intros s Hs. apply in_map_iff in Hs. destruct Hs as [x [<- _]]. apply H. Qed.

Lemma on_obj_R (st : store) (i : nat) (f : seq -> result seq) :
  SR st -> (forall s s', f s = Ok s' -> R s') -> SR (fst (on_obj st i f)).
Proof.
  intros HS Hf. unfold on_obj. destruct (getn st i) as [s|e] eqn:Eg; [|exact HS].
  destruct (f s) as [s'|e] eqn:Ef; [|exact HS]. cbn [fst]. apply setn_R; [exact HS|]. eapply Hf. exact Ef.
Qed.
Lemma lift_R (st : store) (r : result (store * out)) :
  SR st -> (forall x, r = Ok x -> SR (fst x)) -> SR (fst (lift st r)).
Proof. intros HS Hr. unfold lift. destruct r as [x|e]; [now apply Hr|exact HS]. Qed.

Lemma read_abss_R (js : list nat) (st st' : store) (as_ : list (list msg)) :
  SR st -> read_abss st js = Ok (st', as_) -> SR st'.
Proof.
  revert st st' as_. induction js as [|j js IH]; intros st st' as_ HS E; cbn [read_abss] in E.
  - now injection E as <- _.
  - inv_bind E as s Es. inv_bind E as [s' a] Eg. inv_bind E as [st1 rs] Er. injection E as <- _.
    eapply IH; [|exact Er]. apply setn_R; [exact HS|]. eapply get_abs_R. exact Eg.
Qed.
Lemma read_rels_R (js : list nat) (st st' : store) (rs : list (list msg)) :
  SR st -> read_rels st js = Ok (st', rs) -> SR st'.
Proof.
  revert st st' rs. induction js as [|j js IH]; intros st st' rs HS E; cbn [read_rels] in E.
  - now injection E as <- _.
  - inv_bind E as s Es. inv_bind E as [s' a] Eg. inv_bind E as [st1 rs1] Er. injection E as <- _.
    eapply IH; [|exact Er]. apply setn_R; [exact HS|]. eapply get_rel_R. exact Eg.
Qed.

Theorem step_R (st : store) (o : op) : SR st -> SR (fst (step st o)).
Proof.
  intros HS. destruct o; cbn [step].
  - cbn [fst]. apply SR_snoc; [exact HS|reflexivity].
  - cbn [fst]. apply SR_snoc; [exact HS|reflexivity].
  - cbn [fst]. apply SR_snoc; [exact HS|reflexivity].
  - (* OCopy *) apply lift_R; [exact HS|]. intros x E. inv_bind E as s Es. injection E as <-. cbn [fst].
    apply SR_snoc; [exact HS|apply seq_copy_R].
  - apply on_obj_R; [exact HS|]. intros s s' E. eapply upd_abs_R; exact E.
  - apply on_obj_R; [exact HS|]. intros s s' E. eapply upd_rel_R; exact E.
  - (* OConcat *) apply lift_R; [exact HS|]. intros x E. inv_bind E as s Es. inv_bind E as [s1 r] Eg.
    inv_bind E as rs Em. injection E as <-. cbn [fst]. apply setn_R; [exact HS|reflexivity].
  - (* OConcatLit *) apply lift_R; [exact HS|]. intros x E. inv_bind E as s Es. inv_bind E as [s1 r] Eg.
    injection E as <-. cbn [fst]. apply setn_R; [exact HS|reflexivity].
  - (* OMerge *) apply lift_R; [exact HS|]. intros x E. inv_bind E as s Es. inv_bind E as [s1 a] Eg.
    inv_bind E as [st1 as_] Er. inv_bind E as s2 Es2. inv_bind E as s3 En. injection E as <-. cbn [fst].
    apply setn_R; [|eapply upd_rel_R; exact En].
    eapply read_abss_R; [|exact Er]. apply setn_R; [exact HS|]. eapply get_abs_R; exact Eg.
  - apply on_obj_R; [exact HS|]. intros s s' E. eapply upd_abs_R; exact E.
  - apply on_obj_R; [exact HS|]. intros s s' E. eapply upd_rel_R; exact E.
  - apply on_obj_R; [exact HS|]. intros s s' E. eapply upd_rel_R; exact E.
  - apply on_obj_R; [exact HS|]. intros s s' E. eapply upd_rel_R; exact E.
  - apply on_obj_R; [exact HS|]. intros s s' E. now injection E as <-.
  - apply on_obj_R; [exact HS|]. intros s s' E. now injection E as <-.
  - (* OSplit *) apply lift_R; [exact HS|]. intros x E. inv_bind E as s Es. inv_bind E as [s1 r] Eg.
    injection E as <-. cbn [fst]. apply SR_app; [|apply SR_map_rel; reflexivity].
    apply setn_R; [exact HS|]. eapply get_rel_R; exact Eg.
  - apply on_obj_R; [exact HS|]. intros s s' E. eapply upd_rel_R; exact E.
  - (* OTranspose *) apply lift_R; [exact HS|]. intros x E. inv_bind E as s Es. inv_bind E as [s' b] Et.
    injection E as <-. cbn [fst]. apply setn_R; [exact HS|]. eapply seq_transpose_R; exact Et.
  - apply on_obj_R; [exact HS|]. intros s s' E. eapply seq_quantise_R; exact E.
  - apply on_obj_R; [exact HS|]. intros s s' E. eapply upd_abs_R; exact E.
  - (* OQuantNorm *) apply on_obj_R; [exact HS|]. intros s s' E. unfold seq_quantise_and_normalise in E.
    inv_bind E as s1 E1. inv_bind E as s2 E2. eapply upd_rel_R; exact E.
  - apply on_obj_R; [exact HS|]. intros s s' E. eapply seq_refresh_R; exact E.
  - (* OReadAbs *) apply lift_R; [exact HS|]. intros x E. inv_bind E as s Es. inv_bind E as [s1 a] Eg.
    injection E as <-. cbn [fst]. apply setn_R; [exact HS|]. eapply get_abs_R; exact Eg.
  - (* OReadRel *) apply lift_R; [exact HS|]. intros x E. inv_bind E as s Es. inv_bind E as [s1 a] Eg.
    injection E as <-. cbn [fst]. apply setn_R; [exact HS|]. eapply get_rel_R; exact Eg.
  - (* OEquals *) apply lift_R; [exact HS|]. intros x E.
    inv_bind E as s Es. inv_bind E as [s1 a1] Eg. inv_bind E as t Et. inv_bind E as [t1 b1] Eh.
    inv_bind E as s2 Es2. inv_bind E as s3 Es3.
    assert (HS3 : SR (setn (setn (setn st i s1) j t1) i s3)).
    { apply setn_R; [|eapply seq_sort_abs_R; exact Es3]. apply setn_R; [|eapply get_abs_R; exact Eh].
      apply setn_R; [exact HS|eapply get_abs_R; exact Eg]. }
    destruct (interleaved _ _ _ _) as [ia|e].
    + inv_bind E as t2 Et2. inv_bind E as t3 Et3.
      assert (HS4 : SR (setn (setn (setn (setn st i s1) j t1) i s3) j t3))
        by (apply setn_R; [exact HS3|eapply seq_sort_abs_R; exact Et3]).
      destruct (equals _ _ _ _ _ _); injection E as <-; exact HS4.
    + injection E as <-. exact HS3.
  - apply on_obj_R; [exact HS|]. intros s s' E. eapply seq_sort_abs_R; exact E.
  - (* ODuration *) apply lift_R; [exact HS|]. intros x E. inv_bind E as s Es. inv_bind E as [s1 a] Eg.
    destruct (last_opt a); injection E as <-; cbn [fst]; (apply setn_R; [exact HS|eapply get_abs_R; exact Eg]).
  - (* OEditAbs *) apply on_obj_R; [exact HS|]. intros s s' E. unfold seq_edit_abs in E.
    inv_bind E as [s1 a] Eg. now injection E as <-.
  - (* OEditRel *) apply on_obj_R; [exact HS|]. intros s s' E. unfold seq_edit_rel in E.
    inv_bind E as [s1 a] Eg. now injection E as <-.
  - (* OBarInit *) apply lift_R; [exact HS|]. intros x E. inv_bind E as s Es. inv_bind E as [s1 r] Eg.
    destruct (bar_init_full r num den) as [r' e]. injection E as <-. cbn [fst]. apply setn_R; [exact HS|reflexivity].
  - (* OBarCopy *) apply lift_R; [exact HS|]. intros x E. inv_bind E as s Es. inv_bind E as [c1 r] Eg.
    inv_bind E as r' Eb. injection E as <-. cbn [fst]. apply SR_snoc; [exact HS|reflexivity].
  - (* OSplitBars *) apply lift_R; [exact HS|]. intros x E.
    inv_bind E as [st0 x0] E0. inv_bind E as [st0' x1] E1. inv_bind E as m Em. inv_bind E as [m1 ma] Eg.
    inv_bind E as [st2 rels] E2.
    assert (HS2 : SR st2).
    { eapply read_rels_R; [|exact E2]. apply setn_R; [|eapply get_abs_R; exact Eg].
      eapply read_rels_R; [|exact E1]. eapply read_abss_R; [|exact E0]. exact HS. }
    destruct (split_bars rels ma qnl) as [bars|e]; injection E as <-; cbn [fst]; [|exact HS2].
    apply SR_app; [exact HS2|apply SR_map_rel; reflexivity].
Qed.

Lemma run_R (ops : list op) (st : store) : SR st -> SR (fst (run st ops)).
Proof.
  revert st. induction ops as [|o ops IH]; intros st HS; [exact HS|].
  cbn [run]. pose proof (step_R st o HS) as H1.
  destruct (step st o) as [st1 x]. cbn [fst] in H1. specialize (IH st1 H1).
  destruct (run st1 ops) as [st2 xs]. exact IH.
Qed.

(* no hypothesis on the operations or on their arguments *)
Theorem C04_readable_any_history : forall (ops : list op) (i : nat) (s : seq),
  nth_error (fst (run [] ops)) i = Some s ->
  (exists s1 a, get_abs s = Ok (s1, a)) /\ (exists s2 r, get_rel s = Ok (s2, r)).
Proof.
  intros ops i s Hn. apply R_readable.
  pose proof (run_R ops [] (Forall_nil _)) as HS. unfold SR in HS. rewrite Forall_forall in HS.
  apply HS. eapply nth_error_In. exact Hn.
Qed.
