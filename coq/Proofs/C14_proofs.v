(* C14 -- transposition: range, image, flag, plain shift, round trip, key signatures, lift to the seq wrapper. *)
From Coq Require Import ZArith List Bool Lia.
From Model Require Import Base Seq Pairing Store.
From Proofs Require Import C20_proofs.
Import ListNotations.
Open Scope Z_scope.

(* ---------------------------------------------------------------- definitions used in the statements *)
Definition in_range (n : Z) : bool := (NOTE_LOWER_BOUND <=? n) && (n <=? NOTE_UPPER_BOUND).
Definition is_keysig (m : msg) : bool := mtype_eqb (m_type m) KEY_SIGNATURE.
(* all note messages of l have an in-range pitch *)
Definition notes_in_range (l : list msg) : bool := forallb (fun m => negb (is_note m) || in_range (m_note m)) l.
(* the flag predicate: some note would leave the range when shifted by exactly k *)
Definition leaves_range (k : Z) (m : msg) : bool := is_note m && negb (in_range (m_note m + k)).
(* the "plain" shift: pitch + k for notes, key signatures transposed, everything else untouched *)
Definition plain_msg (k : Z) (m : msg) : msg :=
  if is_note m then set_note m (m_note m + k)
  else if is_keysig m then set_key m (match m_key m with Some ky => transpose_key ky k | None => None end)
  else m.

Lemma in_range_spec n : in_range n = true <-> NOTE_LOWER_BOUND <= n <= NOTE_UPPER_BOUND.
Proof. unfold in_range. rewrite andb_true_iff, Z.leb_le, Z.leb_le. tauto. Qed.

(* ---------------------------------------------------------------- the two while loops *)
Lemma wrap_up_spec (f : nat) : forall n,
  NOTE_LOWER_BOUND - n <= 12 * Z.of_nat f ->
  NOTE_LOWER_BOUND <= wrap_up f n /\
  (n < NOTE_LOWER_BOUND -> wrap_up f n < NOTE_LOWER_BOUND + 12) /\
  (NOTE_LOWER_BOUND <= n -> wrap_up f n = n) /\
  exists q, 0 <= q /\ wrap_up f n = n + 12 * q.
Proof.
  unfold NOTE_LOWER_BOUND. induction f as [|f IH]; intros n Hf.
  - cbn [wrap_up]. repeat split; try lia. exists 0. lia.
  - cbn [wrap_up]. unfold NOTE_LOWER_BOUND.
    destruct (n <? 21) eqn:E; [apply Z.ltb_lt in E | apply Z.ltb_ge in E].
    + destruct (IH (n + 12)) as (H1 & H2 & H3 & q & Hq & H4); [lia|].
      split; [exact H1|]. split.
      * intros _. destruct (Z_lt_ge_dec (n + 12) 21) as [Hlt|Hge]; [specialize (H2 Hlt); lia|].
        rewrite H3 by lia. lia.
      * split; [lia|]. exists (q + 1). split; [lia|]. rewrite H4. lia.
    + repeat split; try lia. exists 0. lia.
Qed.

Lemma wrap_down_spec (f : nat) : forall n,
  n - NOTE_UPPER_BOUND <= 12 * Z.of_nat f ->
  wrap_down f n <= NOTE_UPPER_BOUND /\
  (NOTE_UPPER_BOUND < n -> NOTE_UPPER_BOUND - 12 < wrap_down f n) /\
  (n <= NOTE_UPPER_BOUND -> wrap_down f n = n) /\
  exists q, 0 <= q /\ wrap_down f n = n - 12 * q.
Proof.
  unfold NOTE_UPPER_BOUND. induction f as [|f IH]; intros n Hf.
  - cbn [wrap_down]. repeat split; try lia. exists 0. lia.
  - cbn [wrap_down]. unfold NOTE_UPPER_BOUND.
    destruct (108 <? n) eqn:E; [apply Z.ltb_lt in E | apply Z.ltb_ge in E].
    + destruct (IH (n - 12)) as (H1 & H2 & H3 & q & Hq & H4); [lia|].
      split; [exact H1|]. split.
      * intros _. destruct (Z_lt_ge_dec 108 (n - 12)) as [Hlt|Hge]; [specialize (H2 Hlt); lia|].
        rewrite H3 by lia. lia.
      * split; [lia|]. exists (q + 1). split; [lia|]. rewrite H4. lia.
    + repeat split; try lia. exists 0. lia.
Qed.

Lemma wrap_fuel_enough (n : Z) : Z.abs n + 132 < 12 * Z.of_nat (wrap_fuel n).
Proof.
  unfold wrap_fuel.
  assert (H0 : 0 <= Z.abs n / 12) by (apply Z.div_pos; lia).
  rewrite Z2Nat.id by lia.
  pose proof (Z.div_mod (Z.abs n) 12 ltac:(lia)) as Hd.
  pose proof (Z.mod_pos_bound (Z.abs n) 12 ltac:(lia)) as Hm. lia.
Qed.

Lemma wrap_spec (n : Z) :
  NOTE_LOWER_BOUND <= wrap n <= NOTE_UPPER_BOUND /\
  (NOTE_LOWER_BOUND <= n <= NOTE_UPPER_BOUND -> wrap n = n) /\
  exists q, wrap n = n + 12 * q.
Proof.
  pose proof (wrap_fuel_enough n) as Hf. unfold wrap.
  set (f := wrap_fuel n) in *.
  destruct (wrap_up_spec f n) as (U1 & U2 & U3 & qu & Hqu & U4); [unfold NOTE_LOWER_BOUND; lia|].
  set (a := wrap_up f n) in *.
  assert (Ha : a - NOTE_UPPER_BOUND <= 12 * Z.of_nat f).
  { unfold NOTE_UPPER_BOUND, NOTE_LOWER_BOUND in *.
    destruct (Z_lt_ge_dec n 21) as [Hlt|Hge]; [specialize (U2 Hlt); lia|rewrite U3 by lia; lia]. }
  destruct (wrap_down_spec f a Ha) as (D1 & D2 & D3 & qd & Hqd & D4).
  unfold NOTE_UPPER_BOUND, NOTE_LOWER_BOUND in *.
  split; [|split].
  - split; [|exact D1].
    destruct (Z_lt_ge_dec 108 a) as [Hlt|Hge]; [specialize (D2 Hlt); lia|rewrite D3 by lia; lia].
  - intros Hr. rewrite D3; [apply U3; lia|]. rewrite U3 by lia. lia.
  - exists (qu - qd). rewrite D4, U4. lia.
Qed.

(* more fuel never changes the result: the fuel-bounded recursion is the while loop *)
Lemma wrap_up_fuel_indep (f1 f2 : nat) (n : Z) :
  NOTE_LOWER_BOUND - n <= 12 * Z.of_nat f1 -> NOTE_LOWER_BOUND - n <= 12 * Z.of_nat f2 ->
  wrap_up f1 n = wrap_up f2 n.
Proof.
  intros H1 H2.
  destruct (wrap_up_spec f1 n H1) as (A1 & A2 & A3 & q1 & Hq1 & A4).
  destruct (wrap_up_spec f2 n H2) as (B1 & B2 & B3 & q2 & Hq2 & B4).
  unfold NOTE_LOWER_BOUND in *.
  destruct (Z_lt_ge_dec n 21) as [Hlt|Hge]; [specialize (A2 Hlt); specialize (B2 Hlt); lia|].
  rewrite A3, B3 by lia. reflexivity.
Qed.
Lemma wrap_down_fuel_indep (f1 f2 : nat) (n : Z) :
  n - NOTE_UPPER_BOUND <= 12 * Z.of_nat f1 -> n - NOTE_UPPER_BOUND <= 12 * Z.of_nat f2 ->
  wrap_down f1 n = wrap_down f2 n.
Proof.
  intros H1 H2.
  destruct (wrap_down_spec f1 n H1) as (A1 & A2 & A3 & q1 & Hq1 & A4).
  destruct (wrap_down_spec f2 n H2) as (B1 & B2 & B3 & q2 & Hq2 & B4).
  unfold NOTE_UPPER_BOUND in *.
  destruct (Z_lt_ge_dec 108 n) as [Hlt|Hge]; [specialize (A2 Hlt); specialize (B2 Hlt); lia|].
  rewrite A3, B3 by lia. reflexivity.
Qed.
Lemma C14_wrap_fuel (n : Z) (f : nat) : (wrap_fuel n <= f)%nat -> wrap_down f (wrap_up f n) = wrap n.
Proof.
  intros Hf. pose proof (wrap_fuel_enough n) as He. unfold wrap.
  assert (Hu : wrap_up f n = wrap_up (wrap_fuel n) n).
  { apply wrap_up_fuel_indep; unfold NOTE_LOWER_BOUND; lia. }
  rewrite Hu.
  destruct (wrap_up_spec (wrap_fuel n) n) as (U1 & U2 & U3 & _); [unfold NOTE_LOWER_BOUND; lia|].
  apply wrap_down_fuel_indep; unfold NOTE_UPPER_BOUND, NOTE_LOWER_BOUND in *;
    (destruct (Z_lt_ge_dec n 21) as [Hlt|Hge]; [specialize (U2 Hlt); lia|rewrite U3 by lia; lia]).
Qed.

Lemma C14_wrap_range (n : Z) :
  NOTE_LOWER_BOUND <= wrap n <= NOTE_UPPER_BOUND /\ (wrap n - n) mod 12 = 0.
Proof.
  destruct (wrap_spec n) as (H1 & _ & q & Hq). split; [exact H1|].
  rewrite Hq. replace (n + 12 * q - n) with (q * 12) by lia. apply Z.mod_mul. lia.
Qed.

Lemma C14_wrap_id (n : Z) : wrap n = n <-> NOTE_LOWER_BOUND <= n <= NOTE_UPPER_BOUND.
Proof.
  split.
  - intros H. rewrite <- H. apply wrap_spec.
  - apply wrap_spec.
Qed.

Lemma wrap_neq_flag (n : Z) : negb (wrap n =? n) = negb (in_range n).
Proof.
  f_equal. destruct (in_range n) eqn:E.
  - apply Z.eqb_eq, C14_wrap_id, in_range_spec, E.
  - apply Z.eqb_neq. intros H. apply C14_wrap_id, in_range_spec in H. congruence.
Qed.

(* ---------------------------------------------------------------- message level *)
Lemma transpose_fst (l : list msg) (k : Z) : fst (transpose l k) = map (fun m => fst (transpose_msg k m)) l.
Proof. unfold transpose. cbn [fst]. now rewrite map_map. Qed.
Lemma transpose_snd (l : list msg) (k : Z) : snd (transpose l k) = existsb (fun m => snd (transpose_msg k m)) l.
Proof.
  unfold transpose. cbn [snd]. induction l as [|m l IH]; [reflexivity|].
  cbn [map existsb]. now rewrite IH.
Qed.

Lemma is_note_set_note m n : is_note (set_note m n) = is_note m.
Proof. reflexivity. Qed.

Lemma is_note_not_keysig m : is_note m = true -> is_keysig m = false.
Proof. unfold is_note, is_on, is_off, is_keysig. destruct (m_type m); cbn; congruence. Qed.

Lemma transpose_msg_note k m : is_note m = true ->
  transpose_msg k m = (set_note m (wrap (m_note m + k)), negb (in_range (m_note m + k))).
Proof. intros H. unfold transpose_msg. rewrite H. cbv zeta. now rewrite wrap_neq_flag. Qed.

Lemma transpose_msg_keysig k m : is_keysig m = true ->
  transpose_msg k m = (set_key m (match m_key m with Some ky => transpose_key ky k | None => None end), false).
Proof.
  intros H. unfold transpose_msg. fold (is_keysig m). rewrite H.
  destruct (is_note m) eqn:E; [|reflexivity]. apply is_note_not_keysig in E. congruence.
Qed.

Lemma transpose_msg_other k m : is_note m = false -> is_keysig m = false -> transpose_msg k m = (m, false).
Proof. intros H1 H2. unfold transpose_msg. fold (is_keysig m). now rewrite H1, H2. Qed.

Lemma transpose_msg_flag k m : snd (transpose_msg k m) = leaves_range k m.
Proof.
  unfold leaves_range. destruct (is_note m) eqn:E.
  - now rewrite transpose_msg_note.
  - destruct (is_keysig m) eqn:E2; [rewrite transpose_msg_keysig|rewrite transpose_msg_other]; auto.
Qed.

Lemma transpose_msg_is_note k m : is_note (fst (transpose_msg k m)) = is_note m.
Proof.
  destruct (is_note m) eqn:E.
  - now rewrite transpose_msg_note.
  - destruct (is_keysig m) eqn:E2; [rewrite transpose_msg_keysig|rewrite transpose_msg_other]; auto.
Qed.

Lemma transpose_msg_plain k m : leaves_range k m = false -> fst (transpose_msg k m) = plain_msg k m.
Proof.
  unfold leaves_range, plain_msg. intros H. destruct (is_note m) eqn:E.
  - rewrite transpose_msg_note by exact E. cbn [fst]. cbn [andb] in H. apply negb_false_iff in H.
    apply in_range_spec, C14_wrap_id in H. now rewrite H.
  - destruct (is_keysig m) eqn:E2; [rewrite transpose_msg_keysig|rewrite transpose_msg_other]; auto.
Qed.

Lemma set_note_same m : set_note m (m_note m) = m.
Proof. now destruct m. Qed.

(* ---------------------------------------------------------------- C14_range *)
Lemma C14_range (l : list msg) (k : Z) (m : msg) :
  In m (fst (transpose l k)) -> is_note m = true -> NOTE_LOWER_BOUND <= m_note m <= NOTE_UPPER_BOUND.
Proof.
  rewrite transpose_fst, in_map_iff. intros (m0 & <- & _) Hn.
  rewrite transpose_msg_is_note in Hn. rewrite transpose_msg_note by exact Hn. cbn [fst set_note m_note].
  apply C14_wrap_range.
Qed.

Lemma C14_range_bool (l : list msg) (k : Z) : notes_in_range (fst (transpose l k)) = true.
Proof.
  unfold notes_in_range. apply forallb_forall. intros m Hm.
  destruct (is_note m) eqn:E; [|reflexivity]. cbn [negb orb].
  apply in_range_spec. eapply C14_range; eauto.
Qed.

(* ---------------------------------------------------------------- C14_image *)
Lemma C14_image (l : list msg) (k : Z) :
  length (fst (transpose l k)) = length l /\
  forall i m, nth_error l i = Some m ->
    exists m', nth_error (fst (transpose l k)) i = Some m' /\
      (is_note m = true -> m' = set_note m (m_note m') /\ (m_note m' - (m_note m + k)) mod 12 = 0) /\
      (is_note m = false -> is_keysig m = true -> m' = set_key m (m_key m')) /\
      (is_note m = false -> is_keysig m = false -> m' = m).
Proof.
  rewrite transpose_fst. split; [apply map_length|].
  intros i m Hi. exists (fst (transpose_msg k m)). split; [exact (map_nth_error (fun m => fst (transpose_msg k m)) _ _ Hi)|].
  split; [|split].
  - intros Hn. rewrite transpose_msg_note by exact Hn. cbn [fst set_note m_note]. split; [reflexivity|].
    apply C14_wrap_range.
  - intros Hn Hk. now rewrite transpose_msg_keysig.
  - intros Hn Hk. now rewrite transpose_msg_other.
Qed.

(* ---------------------------------------------------------------- C14_flag *)
Lemma C14_flag (l : list msg) (k : Z) :
  snd (transpose l k) = existsb (fun m => is_note m && negb (in_range (m_note m + k))) l.
Proof.
  rewrite transpose_snd. induction l as [|m l IH]; [reflexivity|].
  cbn [existsb]. rewrite IH. f_equal. apply transpose_msg_flag.
Qed.

Lemma flag_false_all (l : list msg) (k : Z) :
  snd (transpose l k) = false -> forall m, In m l -> leaves_range k m = false.
Proof.
  rewrite C14_flag. intros H m Hm.
  destruct (leaves_range k m) eqn:E; [|reflexivity].
  assert (existsb (leaves_range k) l = true) by (apply existsb_exists; eauto).
  unfold leaves_range in *. congruence.
Qed.

(* ---------------------------------------------------------------- C14_plain *)
Lemma C14_plain (l : list msg) (k : Z) :
  snd (transpose l k) = false -> fst (transpose l k) = map (plain_msg k) l.
Proof.
  intros H. rewrite transpose_fst. apply map_ext_in. intros m Hm.
  apply transpose_msg_plain. eapply flag_false_all; eauto.
Qed.

(* what plain_msg keeps: everything except the pitch of notes and the key of key signatures *)
Lemma plain_msg_fields (k : Z) (m : msg) :
  m_type (plain_msg k m) = m_type m /\ m_chan (plain_msg k m) = m_chan m /\ m_time (plain_msg k m) = m_time m /\
  m_tf (plain_msg k m) = m_tf m /\ m_vel (plain_msg k m) = m_vel m /\ m_ctrl (plain_msg k m) = m_ctrl m /\
  m_prog (plain_msg k m) = m_prog m /\ m_num (plain_msg k m) = m_num m /\ m_den (plain_msg k m) = m_den m /\
  (is_note m = true -> m_note (plain_msg k m) = m_note m + k /\ m_key (plain_msg k m) = m_key m) /\
  (is_note m = false -> m_note (plain_msg k m) = m_note m) /\
  (is_note m = false -> is_keysig m = false -> plain_msg k m = m).
Proof.
  unfold plain_msg. destruct (is_note m) eqn:E; [|destruct (is_keysig m) eqn:E2]; cbn;
    repeat split; auto; congruence.
Qed.

Lemma plain_msg_is_note (k : Z) (m : msg) : is_note (plain_msg k m) = is_note m.
Proof.
  unfold plain_msg. destruct (is_note m) eqn:E; [exact E|]. destruct (is_keysig m); exact E.
Qed.

Lemma plain_back_note (k : Z) (m : msg) : is_note m = true -> plain_msg (- k) (plain_msg k m) = m.
Proof.
  intros H. unfold plain_msg at 2. rewrite H. unfold plain_msg. rewrite is_note_set_note, H.
  destruct m; unfold set_note; cbn. f_equal. lia.
Qed.

Lemma plain_back_other (k : Z) (m : msg) :
  is_note m = false -> is_keysig m = false -> plain_msg (- k) (plain_msg k m) = m.
Proof. intros H1 H2. unfold plain_msg. now rewrite H1, H2, H1, H2. Qed.

Lemma notes_in_range_all (l : list msg) :
  notes_in_range l = true -> forall m, In m l -> is_note m = true -> in_range (m_note m) = true.
Proof.
  unfold notes_in_range. rewrite forallb_forall. intros H m Hm Hn. specialize (H m Hm).
  rewrite Hn in H. exact H.
Qed.

(* second transposition (by -k) does not wrap either *)
Lemma back_flag (l : list msg) (k : Z) :
  snd (transpose l k) = false -> notes_in_range l = true ->
  snd (transpose (fst (transpose l k)) (- k)) = false.
Proof.
  intros Hf Hr. rewrite (C14_plain l k Hf). rewrite C14_flag.
  apply not_true_is_false. intros H. apply existsb_exists in H as (m' & Hm' & H).
  apply in_map_iff in Hm' as (m & <- & Hm).
  apply andb_prop in H as [H1 H2].
  assert (Hn : is_note m = true) by (now rewrite plain_msg_is_note in H1).
  destruct (plain_msg_fields k m) as (_ & _ & _ & _ & _ & _ & _ & _ & _ & F & _).
  destruct (F Hn) as [F1 _]. rewrite F1 in H2.
  replace (m_note m + k + - k) with (m_note m) in H2 by lia.
  rewrite (notes_in_range_all l Hr m Hm Hn) in H2. discriminate.
Qed.

Lemma C14_back (l : list msg) (k : Z) :
  snd (transpose l k) = false -> notes_in_range l = true ->
  snd (transpose (fst (transpose l k)) (- k)) = false /\
  length (fst (transpose (fst (transpose l k)) (- k))) = length l /\
  forall i m, nth_error l i = Some m -> is_keysig m = false ->
              nth_error (fst (transpose (fst (transpose l k)) (- k))) i = Some m.
Proof.
  intros Hf Hr. pose proof (back_flag l k Hf Hr) as Hb. split; [exact Hb|].
  rewrite (C14_plain _ _ Hb), (C14_plain _ _ Hf), map_map. split; [apply map_length|].
  intros i m Hi Hk. rewrite (map_nth_error _ _ _ Hi). f_equal.
  destruct (is_note m) eqn:E; [now apply plain_back_note|now apply plain_back_other].
Qed.

Lemma plain_keysig (k : Z) (m : msg) : is_keysig m = true ->
  plain_msg k m = set_key m (match m_key m with Some ky => transpose_key ky k | None => None end).
Proof.
  intros Hk. unfold plain_msg. rewrite Hk.
  destruct (is_note m) eqn:E; [|reflexivity]. apply is_note_not_keysig in E. congruence.
Qed.

(* key signatures come back up to enharmonic spelling (same tonic) *)
Lemma C14_back_keys (l : list msg) (k : Z) :
  snd (transpose l k) = false -> notes_in_range l = true ->
  forall i m ky, nth_error l i = Some m -> is_keysig m = true -> m_key m = Some ky ->
    exists ky2, nth_error (fst (transpose (fst (transpose l k)) (- k))) i = Some (set_key m (Some ky2)) /\
                tonic ky2 = tonic ky.
Proof.
  intros Hf Hr i m ky Hi Hk Hky. pose proof (back_flag l k Hf Hr) as Hb.
  rewrite (C14_plain _ _ Hb), (C14_plain _ _ Hf), map_map. rewrite (map_nth_error _ _ _ Hi).
  destruct (C20_additive ky k (- k)) as (k1 & a & b & x & A1 & A2 & A3 & A4 & A5).
  replace (k + - k) with 0 in A3 by lia. cbn in A3. injection A3 as <-.
  exists a. split; [|congruence].
  f_equal. rewrite (plain_keysig k m Hk), Hky, A1.
  rewrite plain_keysig by exact Hk. cbn [m_key set_key]. now rewrite A2.
Qed.

(* ---------------------------------------------------------------- C14_keys *)
Lemma C14_keys (l : list msg) (k : Z) (i : nat) (m : msg) (ky : Key) :
  nth_error l i = Some m -> is_keysig m = true -> m_key m = Some ky ->
  exists ky', transpose_key ky k = Some ky' /\
              nth_error (fst (transpose l k)) i = Some (set_key m (Some ky')).
Proof.
  intros Hi Hk Hky. destruct (C20_total ky k) as [ky' Hky']. exists ky'. split; [exact Hky'|].
  rewrite transpose_fst, (map_nth_error _ _ _ Hi), transpose_msg_keysig by exact Hk.
  cbn [fst]. now rewrite Hky, Hky'.
Qed.

(* a key signature message without a key (Python None) keeps None *)
Lemma C14_keys_none (l : list msg) (k : Z) (i : nat) (m : msg) :
  nth_error l i = Some m -> is_keysig m = true -> m_key m = None ->
  nth_error (fst (transpose l k)) i = Some m.
Proof.
  intros Hi Hk Hky.
  rewrite transpose_fst, (map_nth_error _ _ _ Hi), transpose_msg_keysig by exact Hk.
  cbn [fst]. rewrite Hky. f_equal. destruct m; cbn in *; now subst.
Qed.

(* ---------------------------------------------------------------- C14_seq *)
Lemma C14_seq (s s1 : seq) (r : list msg) (k : Z) :
  get_rel s = Ok (s1, r) -> snd (transpose r k) = false ->
  seq_transpose s k = Ok (mkseq (s_abs s1) (fst (transpose r k)) true false, false).
Proof.
  intros Hg Hf. unfold seq_transpose. rewrite Hg. cbn [rbind].
  destruct (transpose r k) as [r' sh]. cbn [snd fst] in *. now subst sh.
Qed.

Lemma C14_seq_flag (s s1 : seq) (r : list msg) (k : Z) :
  get_rel s = Ok (s1, r) -> exists s', seq_transpose s k = Ok (s', snd (transpose r k)).
Proof.
  intros Hg. unfold seq_transpose. rewrite Hg. cbn [rbind].
  destruct (transpose r k) as [r' sh]. cbn [snd]. destruct sh; [|eauto].
  cbv [seq_normalise upd_rel get_rel s_rel_stale s_abs_stale s_rel s_abs rbind seq_qnl upd_abs get_abs]. eauto.
Qed.

(* when some note was wrapped the relative view is re-normalised and the absolute view re-quantised *)
Lemma C14_seq_wrapped (s s1 : seq) (r : list msg) (k : Z) :
  get_rel s = Ok (s1, r) -> snd (transpose r k) = true ->
  seq_transpose s k =
    Ok (mkseq (quantise_note_lengths (to_abs (normalise (fst (transpose r k)))) get_default_note_values PPQN false)
              (normalise (fst (transpose r k))) false true, true).
Proof.
  intros Hg Hf. unfold seq_transpose. rewrite Hg. cbn [rbind].
  destruct (transpose r k) as [r' sh]. cbn [snd fst] in *. subst sh.
  cbv [seq_normalise upd_rel get_rel s_rel_stale s_abs_stale s_rel s_abs rbind seq_qnl upd_abs get_abs]. reflexivity.
Qed.

(* ---------------------------------------------------------------- non-vacuity *)
Definition ex_l : list msg :=
  [mk_ks 0 (Some K_D_B) 0 false; mk_on 0 60 90 0 false; mk_wait 0 24 false; mk_off 0 60 0 false;
   mk_on 1 107 64 0 false; mk_wait 1 12 false; mk_off 1 107 0 false; mk_ts 0 3 4 0 false].

Example C14_ex_plain : snd (transpose ex_l 1) = false /\ notes_in_range ex_l = true.
Proof. vm_compute. auto. Qed.
Example C14_ex_wrapped : snd (transpose ex_l 2) = true /\ snd (transpose ex_l (-200)) = true.
Proof. vm_compute. auto. Qed.
Example C14_ex_key : nth_error ex_l 0 = Some (mk_ks 0 (Some K_D_B) 0 false) /\ is_keysig (mk_ks 0 (Some K_D_B) 0 false) = true.
Proof. vm_compute. auto. Qed.
(* the key signature does not come back literally: D flat -> (+1) D -> (-1) C sharp *)
Example C14_ex_key_back :
  nth_error (fst (transpose (fst (transpose ex_l 1)) (-1))) 0 = Some (mk_ks 0 (Some K_C_S) 0 false).
Proof. vm_compute. reflexivity. Qed.
Example C14_ex_seq : get_rel (seq_of_rel ex_l) = Ok (seq_of_rel ex_l, ex_l).
Proof. reflexivity. Qed.
Example C14_ex_wrap : wrap 20 = 32 /\ wrap 109 = 97 /\ wrap (-1000) = 32 /\ wrap 1000 = 100 /\ wrap 21 = 21.
Proof. vm_compute. auto. Qed.
