(* C03 (piece level) -- threading the tokeniser state through `tokenise` calls on consecutive groups of bars.
   Part 1: `tokenise_many` (the threaded calls of the model's own `tokenise`, defined in C19_tokenise.v) is the
   core-level `chunked` run on the front-end outputs of the calls, hence (C03_chunked_tokens) the single core run on
   the glued event list. *)
From Coq Require Import ZArith List Bool Lia Permutation.
From Model Require Import Base Util Seq Pairing Tok.
From Proofs Require Import C01_rest C01_proofs C03_proofs.
From Proofs Require C19_tokenise.
Import ListNotations.
Open Scope Z_scope.

Notation tokenise_many := C19_tokenise.tokenise_many.

(* every call hands one list per configured track *)
Definition calls_len (c : cfg) (calls : list (list (list msg))) : bool :=
  forallb (fun call => lenZ call =? c_ntracks c) calls.

Lemma tokenise_many_chunked c : forall calls chs st,
  calls_len c calls = true -> mapM tok_frontend calls = Ok chs ->
  tokenise_many c st calls = chunked c st chs.
Proof.
  induction calls as [|call calls IH]; intros chs st Hl Hf.
  - cbn [mapM] in Hf. injection Hf as <-. reflexivity.
  - cbn [calls_len forallb] in Hl. apply andb_prop in Hl. destruct Hl as [Hl1 Hl].
    cbn [mapM] in Hf. destruct (tok_frontend call) as [evs|] eqn:E1; cbn [rbind] in Hf; [|discriminate].
    destruct (mapM tok_frontend calls) as [chs'|] eqn:E2; cbn [rbind] in Hf; [|discriminate].
    injection Hf as <-. cbn [C19_tokenise.tokenise_many chunked].
    rewrite tokenise_core, Hl1. cbn [negb]. rewrite E1. cbn [rbind].
    destruct (core c st evs) as [[t1 st1]|]; cbn [rbind fst snd]; [|reflexivity].
    rewrite (IH chs' st1 Hl eq_refl). reflexivity.
Qed.

(* Target 1: tokens and final state of the threaded calls = those of ONE core run on the glued events *)
Theorem C03_tokenise_chunked g c calls chs :
  valid_cfg g c = true -> calls_len c calls = true -> mapM tok_frontend calls = Ok chs ->
  chunks_ok g c (rclk0 c) chs = true ->
  tokenise_many c (tstate0 c) calls = core c (tstate0 c) (glue 0 chs).
Proof.
  intros Hc Hl Hf Hok. rewrite (tokenise_many_chunked c calls chs _ Hl Hf). now apply C03_chunked_tokens with g.
Qed.
