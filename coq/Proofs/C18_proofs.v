(* C18 -- pad, cut-off, integer scaling and channel assignment do exactly what they say.
   Lemmas and proofs; the property theorems are restated in Props/C18.v. *)
From Coq Require Import ZArith List Bool Lia Permutation.
From Model Require Import Base Seq Pairing.
Import ListNotations.
Open Scope Z_scope.

(* ================================================================ shared vocabulary *)
(* all WAIT messages of a relative list carry a non-negative / positive time *)
Definition waits_nonneg (l : list msg) : bool := forallb (fun m => 0 <=? m_time m) (filter is_wait l).
Definition waits_pos (l : list msg) : bool := forallb (fun m => 0 <? m_time m) (filter is_wait l).

(* the non-wait messages of a relative list, each with its accumulated tick (clock starts at cur) *)
Fixpoint ticks (l : list msg) (cur : Z) : list (msg * Z) :=
  match l with
  | [] => []
  | m :: l' => if is_wait m then ticks l' (cur + m_time m) else (m, cur) :: ticks l' cur
  end.

Lemma set_time_id (m : msg) : set_time m (m_time m) (m_tf m) = m.
Proof. destruct m; reflexivity. Qed.

Lemma is_wait_set_time m t f : is_wait (set_time m t f) = is_wait m.
Proof. reflexivity. Qed.

Lemma is_wait_not_on m : is_wait m = true -> is_on m = false.
Proof. unfold is_wait, is_on. destruct (m_type m); cbn; congruence. Qed.

Lemma dur_rel_cons_wait m l : is_wait m = true -> dur_rel (m :: l) = m_time m + dur_rel l.
Proof. intros W. unfold dur_rel. cbn [filter]. rewrite W. reflexivity. Qed.

Lemma dur_rel_cons_other m l : is_wait m = false -> dur_rel (m :: l) = dur_rel l.
Proof. intros W. unfold dur_rel. cbn [filter]. rewrite W. reflexivity. Qed.

Lemma sumZ_app a b : sumZ (a ++ b) = sumZ a + sumZ b.
Proof. induction a as [|x a IH]; cbn [app sumZ]; lia. Qed.

Lemma dur_rel_app a b : dur_rel (a ++ b) = dur_rel a + dur_rel b.
Proof. unfold dur_rel. now rewrite filter_app, map_app, sumZ_app. Qed.

Lemma dur_rel_nonneg l : waits_nonneg l = true -> 0 <= dur_rel l.
Proof.
  unfold waits_nonneg, dur_rel. induction l as [|m l IH]; cbn [filter]; [cbn; lia|].
  destruct (is_wait m); [|exact IH].
  cbn [forallb map sumZ]. intros H. apply andb_prop in H. destruct H as [H1 H2].
  apply Z.leb_le in H1. specialize (IH H2). lia.
Qed.

Lemma waits_nonneg_cons m l : waits_nonneg (m :: l) = true ->
  (is_wait m = true -> 0 <= m_time m) /\ waits_nonneg l = true.
Proof.
  unfold waits_nonneg. cbn [filter]. destruct (is_wait m).
  - cbn [forallb]. intros H. apply andb_prop in H. destruct H as [H1 H2]. apply Z.leb_le in H1. auto.
  - intros H. split; [discriminate|exact H].
Qed.

Lemma waits_pos_nonneg l : waits_pos l = true -> waits_nonneg l = true.
Proof.
  unfold waits_pos, waits_nonneg. induction (filter is_wait l) as [|m r IH]; [reflexivity|].
  cbn [forallb]. intros H. apply andb_prop in H. destruct H as [H1 H2].
  apply Z.ltb_lt in H1. rewrite (IH H2), andb_true_r. apply Z.leb_le. lia.
Qed.

Lemma ticks_app a b cur : ticks (a ++ b) cur = ticks a cur ++ ticks b (cur + dur_rel a).
Proof.
  revert cur. induction a as [|m a IH]; intros cur.
  - cbn [app ticks]. unfold dur_rel. cbn. now rewrite Z.add_0_r.
  - cbn [app ticks]. destruct (is_wait m) eqn:W.
    + rewrite IH, (dur_rel_cons_wait _ _ W). now rewrite Z.add_assoc.
    + rewrite IH, (dur_rel_cons_other _ _ W). reflexivity.
Qed.

(* ================================================================ set_channel *)
Lemma C18_set_channel (l : list msg) (c : Z) :
  length (set_channel l c) = length l /\
  forall i m', nth_error (set_channel l c) i = Some m' ->
    exists m, nth_error l i = Some m /\
      m_chan m' = c /\ m_type m' = m_type m /\ m_time m' = m_time m /\ m_tf m' = m_tf m /\
      m_note m' = m_note m /\ m_vel m' = m_vel m /\ m_ctrl m' = m_ctrl m /\ m_prog m' = m_prog m /\
      m_num m' = m_num m /\ m_den m' = m_den m /\ m_key m' = m_key m.
Proof.
  unfold set_channel. split; [apply map_length|].
  intros i m' H. rewrite nth_error_map in H.
  destruct (nth_error l i) as [m|]; cbn in H; [|discriminate].
  injection H as <-. exists m. cbn. repeat split; reflexivity.
Qed.

(* the ticks of the events are untouched as well (channel assignment does not move anything) *)
Lemma C18_set_channel_ticks (l : list msg) (c : Z) (cur : Z) :
  ticks (set_channel l c) cur = map (fun p => (set_chan (fst p) c, snd p)) (ticks l cur) /\
  dur_rel (set_channel l c) = dur_rel l.
Proof.
  unfold set_channel. split.
  - revert cur. induction l as [|m l IH]; intros cur; [reflexivity|].
    cbn [map ticks]. change (is_wait (set_chan m c)) with (is_wait m).
    destruct (is_wait m); [apply IH|]. cbn [map fst snd]. now rewrite IH.
  - induction l as [|m l IH]; [reflexivity|]. cbn [map].
    destruct (is_wait m) eqn:W.
    + rewrite (dur_rel_cons_wait m l W), dur_rel_cons_wait by exact W. cbn. now rewrite IH.
    + rewrite (dur_rel_cons_other m l W), dur_rel_cons_other by exact W. exact IH.
Qed.

Example C18_set_channel_ex :
  set_channel [mk_on 0 60 100 0 false; mk_wait 0 24 false; mk_off 0 60 0 false] 5
  = [mk_on 5 60 100 0 false; mk_wait 5 24 false; mk_off 5 60 0 false].
Proof. reflexivity. Qed.

(* ================================================================ scale *)
Definition scale_msg (k : Z) (m : msg) : msg := if is_wait m then set_time m (m_time m * k) (m_tf m) else m.
(* on an absolute list: every time stamp multiplied by k *)
Definition tscale (k : Z) (m : msg) : msg := set_time m (k * m_time m) (m_tf m).

Lemma C18_scale_map (l : list msg) (k : Z) : 1 <= k ->
  scale l k = map (fun m => if is_wait m then set_time m (m_time m * k) (m_tf m) else m) l.
Proof.
  intros _. unfold scale. destruct (k =? 1) eqn:E; [|reflexivity].
  apply Z.eqb_eq in E. subst k. rewrite <- (map_id l) at 1. apply map_ext. intros m.
  destruct (is_wait m); [|reflexivity]. now rewrite Z.mul_1_r, set_time_id.
Qed.

Lemma scale_scale_msg l k : 1 <= k -> scale l k = map (scale_msg k) l.
Proof. apply C18_scale_map. Qed.

Lemma is_wait_scale_msg k m : is_wait (scale_msg k m) = is_wait m.
Proof. unfold scale_msg. destruct (is_wait m) eqn:W; [rewrite is_wait_set_time|]; exact W. Qed.

Lemma scale_msg_wait k m : is_wait m = true -> scale_msg k m = set_time m (m_time m * k) (m_tf m).
Proof. intros W. unfold scale_msg. now rewrite W. Qed.
Lemma scale_msg_other k m : is_wait m = false -> scale_msg k m = m.
Proof. intros W. unfold scale_msg. now rewrite W. Qed.

Lemma dur_rel_scale_msg l k : dur_rel (map (scale_msg k) l) = k * dur_rel l.
Proof.
  induction l as [|m l IH]; [unfold dur_rel; cbn; lia|]. cbn [map].
  destruct (is_wait m) eqn:W.
  - rewrite (dur_rel_cons_wait m l W), dur_rel_cons_wait by (now rewrite is_wait_scale_msg).
    rewrite IH, (scale_msg_wait k m W). cbn. lia.
  - rewrite (dur_rel_cons_other m l W), dur_rel_cons_other by (now rewrite is_wait_scale_msg). exact IH.
Qed.

Lemma C18_scale_duration (l : list msg) (k : Z) : 1 <= k -> dur_rel (scale l k) = k * dur_rel l.
Proof. intros K. rewrite scale_scale_msg by exact K. apply dur_rel_scale_msg. Qed.

Lemma ticks_scale_msg l k cur :
  ticks (map (scale_msg k) l) (k * cur) = map (fun p => (fst p, k * snd p)) (ticks l cur).
Proof.
  revert cur. induction l as [|m l IH]; intros cur; [reflexivity|].
  cbn [map ticks]. rewrite is_wait_scale_msg. destruct (is_wait m) eqn:W.
  - rewrite (scale_msg_wait k m W). cbn [m_time set_time].
    replace (k * cur + m_time m * k) with (k * (cur + m_time m)) by lia. apply IH.
  - rewrite (scale_msg_other k m W). cbn [map fst snd]. now rewrite IH.
Qed.

(* every non-wait message keeps its place and content, its accumulated tick is multiplied by k *)
Lemma C18_scale_ticks (l : list msg) (k : Z) : 1 <= k ->
  ticks (scale l k) 0 = map (fun p => (fst p, k * snd p)) (ticks l 0).
Proof.
  intros K. rewrite scale_scale_msg by exact K.
  rewrite <- ticks_scale_msg. now rewrite Z.mul_0_r.
Qed.

(* ---- the same on the model's own relative -> absolute conversion *)
Lemma to_abs_aux_scale l k cur f cap :
  to_abs_aux (map (scale_msg k) l) (k * cur) f cap =
  let '(r, c, f', cap') := to_abs_aux l cur f cap in (map (tscale k) r, k * c, f', cap').
Proof.
  revert cur f cap. induction l as [|m l IH]; intros cur f cap; [reflexivity|].
  cbn [map to_abs_aux]. rewrite is_wait_scale_msg. destruct (is_wait m) eqn:W.
  - rewrite (scale_msg_wait k m W). cbn [m_time m_tf set_time].
    replace (k * cur + m_time m * k) with (k * (cur + m_time m)) by lia. apply IH.
  - rewrite IH. destruct (to_abs_aux l cur f true) as [[[r c] f'] cap'].
    rewrite (scale_msg_other k m W). cbn [map]. unfold tscale at 2. destruct m; reflexivity.
Qed.

Lemma ltb_mul_pos k x y : 0 < k -> (k * x <? k * y) = (x <? y).
Proof.
  intros K. destruct (x <? y) eqn:E.
  - apply Z.ltb_lt in E. apply Z.ltb_lt. nia.
  - apply Z.ltb_ge in E. apply Z.ltb_ge. nia.
Qed.

Lemma key_le_tscale k a b : 0 < k -> key_le (tscale k a) (tscale k b) = key_le a b.
Proof.
  intros K. unfold key_le, tscale. cbn [m_time m_chan m_type m_note set_time].
  now rewrite !(ltb_mul_pos k) by exact K.
Qed.

Lemma ins_sorted_tscale k x l : 0 < k -> ins_sorted (tscale k x) (map (tscale k) l) = map (tscale k) (ins_sorted x l).
Proof.
  intros K. induction l as [|y l IH]; [reflexivity|].
  cbn [map ins_sorted]. rewrite key_le_tscale by exact K.
  destruct (key_le x y); [reflexivity|]. cbn [map]. now rewrite IH.
Qed.

Lemma sort_abs_tscale k l : 0 < k -> sort_abs (map (tscale k) l) = map (tscale k) (sort_abs l).
Proof.
  intros K. induction l as [|x l IH]; [reflexivity|].
  cbn [map sort_abs]. rewrite IH. now apply ins_sorted_tscale.
Qed.

Lemma insort_tscale k x l : 0 < k -> insort (tscale k x) (map (tscale k) l) = map (tscale k) (insort x l).
Proof.
  intros K. induction l as [|y l IH]; [reflexivity|].
  cbn [map insort]. unfold tscale at 1 2. cbn [m_time set_time]. rewrite ltb_mul_pos by exact K.
  destruct (m_time x <? m_time y); [reflexivity|]. cbn [map]. fold (tscale k x). now rewrite IH.
Qed.

Lemma first_chan_scale_msg k l : first_chan (map (scale_msg k) l) = first_chan l.
Proof. destruct l as [|m l]; [reflexivity|]. cbn. unfold scale_msg. destruct (is_wait m); reflexivity. Qed.

(* the absolute view of the scaled sequence is the absolute view of the original with every time stamp -- hence
   every onset, every note-off, every duration (difference of two stamps) -- multiplied by k, in the same order *)
Lemma C18_scale_abs (l : list msg) (k : Z) : 1 <= k ->
  to_abs (scale l k) = map (fun m => set_time m (k * m_time m) (m_tf m)) (to_abs l).
Proof.
  intros K. assert (K0 : 0 < k) by lia. rewrite scale_scale_msg by exact K.
  change (fun m => set_time m (k * m_time m) (m_tf m)) with (tscale k).
  unfold to_abs. pose proof (to_abs_aux_scale l k 0 false true) as H. rewrite Z.mul_0_r in H.
  rewrite H. destruct (to_abs_aux l 0 false true) as [[[r c] f'] cap'].
  rewrite sort_abs_tscale by exact K0. destruct cap'; [reflexivity|].
  rewrite first_chan_scale_msg.
  change (mk_internal (first_chan l) (k * c)) with (tscale k (mk_internal (first_chan l) c)).
  now apply insort_tscale.
Qed.

Example C18_scale_ex :
  scale [mk_on 0 60 100 0 false; mk_wait 0 24 false; mk_off 0 60 0 false; mk_wait 0 5 false] 3
  = [mk_on 0 60 100 0 false; mk_wait 0 72 false; mk_off 0 60 0 false; mk_wait 0 15 false].
Proof. reflexivity. Qed.

(* ================================================================ pad *)
Lemma tf_rel_cons_wait m l : is_wait m = true -> tf_rel (m :: l) = m_tf m || tf_rel l.
Proof. intros W. unfold tf_rel. cbn [filter]. rewrite W. reflexivity. Qed.
Lemma tf_rel_cons_other m l : is_wait m = false -> tf_rel (m :: l) = tf_rel l.
Proof. intros W. unfold tf_rel. cbn [filter]. rewrite W. reflexivity. Qed.

Lemma pad_len_spec l : forall cur curf p, waits_nonneg l = true ->
  fst (pad_len l cur curf p) <= cur + dur_rel l /\
  (fst (pad_len l cur curf p) < p ->
     fst (pad_len l cur curf p) = cur + dur_rel l /\ snd (pad_len l cur curf p) = curf || tf_rel l).
Proof.
  induction l as [|m l IH]; intros cur curf p N.
  - cbn [pad_len fst snd]. unfold dur_rel, tf_rel. cbn. rewrite orb_false_r.
    split; [lia|intros _; split; [lia|reflexivity]].
  - apply waits_nonneg_cons in N. destruct N as [N1 N2]. cbn [pad_len].
    destruct (is_wait m) eqn:W.
    + specialize (N1 eq_refl). rewrite (dur_rel_cons_wait m l W), (tf_rel_cons_wait m l W).
      destruct (p <=? cur + m_time m) eqn:E.
      * apply Z.leb_le in E. cbn [fst snd]. pose proof (dur_rel_nonneg l N2). lia.
      * apply Z.leb_gt in E. specialize (IH (cur + m_time m) (curf || m_tf m) p N2).
        rewrite orb_assoc. destruct IH as [I1 I2]. split; [lia|]. intros H. specialize (I2 H). split; [lia|tauto].
    + rewrite (dur_rel_cons_other m l W), (tf_rel_cons_other m l W). apply IH. exact N2.
Qed.

(* complete characterisation of pad on lists with non-negative waits *)
Lemma C18_pad_eq (l : list msg) (p : Z) (pf : bool) : waits_nonneg l = true ->
  pad l p pf = if dur_rel l <? p then l ++ [mk_wait (first_chan l) (p - dur_rel l) (pf || tf_rel l)] else l.
Proof.
  intros N. unfold pad. pose proof (pad_len_spec l 0 false p N) as [S1 S2].
  destruct (pad_len l 0 false p) as [c f]. cbn [fst snd] in S1, S2.
  destruct (c <? p) eqn:E.
  - apply Z.ltb_lt in E. destruct (S2 E) as [-> ->]. cbn [orb Z.add] in *.
    replace (dur_rel l <? p) with true by (symmetry; apply Z.ltb_lt; lia). reflexivity.
  - apply Z.ltb_ge in E. replace (dur_rel l <? p) with false by (symmetry; apply Z.ltb_ge; lia). reflexivity.
Qed.

Lemma C18_pad (l : list msg) (p : Z) (pf : bool) : waits_nonneg l = true ->
  (pad l p pf = l \/ exists w, is_wait w = true /\ pad l p pf = l ++ [w]) /\
  ticks (pad l p pf) 0 = ticks l 0 /\
  dur_rel (pad l p pf) = Z.max (dur_rel l) p.
Proof.
  intros N. rewrite (C18_pad_eq l p pf N). destruct (dur_rel l <? p) eqn:E.
  - apply Z.ltb_lt in E. split; [right; eexists; split; [|reflexivity]; reflexivity|]. split.
    + rewrite ticks_app. cbn [ticks]. change (is_wait (mk_wait _ _ _)) with true. cbn [ticks]. apply app_nil_r.
    + rewrite dur_rel_app. unfold dur_rel at 2. cbn. lia.
  - apply Z.ltb_ge in E. split; [now left|]. split; [reflexivity|lia].
Qed.

(* n below, at and above the duration *)
Example C18_pad_ex :
  let l := [mk_on 0 60 100 0 false; mk_wait 0 24 false; mk_off 0 60 0 false] in
  waits_nonneg l = true /\ pad l 10 false = l /\ pad l 24 false = l /\
  pad l 30 false = l ++ [mk_wait 0 6 false].
Proof. cbn. repeat split; reflexivity. Qed.

(* the hypothesis is needed: pad stops summing at the first prefix that reaches p, a later negative wait is not seen *)
Lemma C18_pad_needs_nonneg : exists l p, dur_rel (pad l p false) <> Z.max (dur_rel l) p.
Proof. exists [mk_wait 0 10 false; mk_wait 0 (-5) false], 8. vm_compute. discriminate. Qed.
