(* C04_ops2.v -- value level, continued: cutoff, quantise_note_lengths, quantise (absolute side, via the message
   pairings), split and sequences_split_bars (relative side). *)
From Coq Require Import ZArith List Bool Lia Permutation.
From Model Require Import Base Seq Pairing Util Bars Store.
From Proofs Require Import C04_sort C04_proofs C04_ops.
Import ListNotations.
Open Scope Z_scope.

(* ---------------------------------------------------------------- dictionaries *)
Section DictFacts.
  Context {K V : Type} (eqb : K -> K -> bool) (P : V -> Prop).
  Let PD (d : list (K * V)) : Prop := Forall (fun kv => P (snd kv)) d.

  Lemma dget_Forall (k : K) (d : list (K * V)) (v : V) : PD d -> dget eqb k d = Some v -> P v.
  Proof.
    unfold PD. induction d as [|[k' v'] d IH]; intros H E; [discriminate|].
    inversion H as [|? ? H1 H2]; subst. cbn [dget] in E. destruct (eqb k k'); [injection E as <-; exact H1|auto].
  Qed.

  Lemma dset_Forall (k : K) (v : V) (d : list (K * V)) : PD d -> P v -> PD (dset eqb k v d).
  Proof.
    unfold PD. induction d as [|[k' v'] d IH]; intros H Hv; cbn [dset].
    - constructor; [exact Hv|constructor].
    - inversion H as [|? ? H1 H2]; subst. destruct (eqb k k'); constructor; auto.
  Qed.

  Lemma ddel_Forall (k : K) (d : list (K * V)) : PD d -> PD (ddel eqb k d).
  Proof.
    unfold PD. induction d as [|[k' v'] d IH]; intros H; cbn [ddel]; [constructor|].
    inversion H as [|? ? H1 H2]; subst. destruct (eqb k k'); [exact H2|constructor; auto].
  Qed.
End DictFacts.

Lemma set_nth_Forall' {A} (P : A -> Prop) (f : A -> A) (n : nat) (l : list A) :
  (forall x, P x -> P (f x)) -> Forall P l -> Forall P (set_nth n f l).
Proof.
  intro Hf. revert n. induction l as [|x l IH]; intros n H; [destruct n; exact H|].
  inversion H as [|? ? Hx Hl]; subst. destruct n; cbn [set_nth]; constructor; auto.
Qed.

Lemma index_from_In {A} (l : list A) (i j : nat) (x : A) : In (j, x) (index_from i l) -> In x l.
Proof.
  revert i. induction l as [|y l IH]; intros i H; [destruct H|].
  cbn [index_from] in H. destruct H as [H|H]; [injection H as _ <-; now left|right; eapply IH; exact H].
Qed.

Lemma map_snd_index_from {A} (l : list A) (i : nat) : map snd (index_from i l) = l.
Proof. revert i. induction l as [|y l IH]; intro i; [reflexivity|]. cbn [index_from map snd]. now rewrite IH. Qed.

Lemma wfa_In (a : list msg) (m : msg) : wfa a = true -> In m a -> wfa_msg m = true.
Proof. unfold wfa. rewrite forallb_forall. auto. Qed.

Lemma wfa_intro (a : list msg) : (forall m, In m a -> wfa_msg m = true) -> wfa a = true.
Proof. unfold wfa. rewrite forallb_forall. auto. Qed.

Lemma wfa_msg_time (m : msg) : wfa_msg m = true -> 0 <= m_time m.
Proof. unfold wfa_msg. intro H. apply andb_prop in H. destruct H as [H _]. now apply Z.leb_le. Qed.

Lemma wfa_msg_nowait (m : msg) : wfa_msg m = true -> is_wait m = false.
Proof. unfold wfa_msg. intro H. apply andb_prop in H. destruct H as [_ H]. now apply negb_true_iff. Qed.

Lemma wfa_msg_set_time (m : msg) (t : Z) (f : bool) :
  0 <= t -> is_wait m = false -> wfa_msg (set_time m t f) = true.
Proof.
  intros Ht Hw. unfold wfa_msg. rewrite is_wait_set_time, Hw. cbn [set_time m_time negb]. rewrite andb_true_r.
  now apply Z.leb_le.
Qed.

(* ---------------------------------------------------------------- pairings *)
(* every pairing starts with a well-formed message of the list and is closed by a non-WAIT message *)
Definition pok (p : pairing) : Prop :=
  wfa_msg (p_first p) = true /\ match snd p with Some c => is_wait (snd c) = false | None => True end.
Definition chok (cs : chst) : Prop := Forall pok (c_pairs cs).

Lemma pok_close (c : option nat * msg) (p : pairing) : is_wait (snd c) = false -> pok p -> pok (close_with c p).
Proof. intros Hc [H1 _]. split; [exact H1|exact Hc]. Qed.

Lemma pok_new (i : nat) (m : msg) : wfa_msg m = true -> pok ((i, m), None).
Proof. intro H. split; [exact H|exact I]. Qed.

Lemma pair_step_ok (types : list mtype) (impute : bool) (st : list (Z * chst)) (i : nat) (m : msg) :
  wfa_msg m = true -> Forall (fun kv => chok (snd kv)) st ->
  Forall (fun kv => chok (snd kv)) (pair_step types impute st (i, m)).
Proof.
  intros Hm Hst. unfold pair_step. destruct (negb (tmem (m_type m) types)); [exact Hst|].
  apply dset_Forall; [exact Hst|].
  set (cs := match dget Z.eqb (m_chan m) st with Some c => c | None => mkch [] [] end).
  assert (Hcs : chok cs).
  { unfold cs. destruct (dget Z.eqb (m_chan m) st) as [c|] eqn:E; [|constructor].
    eapply (dget_Forall Z.eqb chok); eassumption. }
  pose proof (wfa_msg_nowait m Hm) as Hnw.
  destruct (m_type m).
  1-6,9: unfold chok; cbn [c_pairs]; apply Forall_app; split; [exact Hcs|constructor; [now apply pok_new|constructor]].
  - (* NOTE_OFF *) destruct (dget Z.eqb (m_note m) (c_open cs)) as [idx|]; [|exact Hcs].
    unfold chok. cbn [c_pairs]. apply set_nth_Forall'; [|exact Hcs]. intros p Hp. now apply pok_close.
  - (* NOTE_ON *)
    set (cs1 := match dget Z.eqb (m_note m) (c_open cs) with Some idx => _ | None => cs end).
    assert (Hcs1 : chok cs1).
    { unfold cs1. destruct (dget Z.eqb (m_note m) (c_open cs)) as [idx|]; [|exact Hcs].
      destruct impute; [|exact Hcs]. unfold chok. cbn [c_pairs]. apply set_nth_Forall'; [|exact Hcs].
      intros p Hp. now apply pok_close. }
    unfold chok. cbn [c_pairs]. apply Forall_app. split; [exact Hcs1|constructor; [now apply pok_new|constructor]].
Qed.

Lemma pok_impute_close (std : Z) (impute : bool) (p : pairing) : pok p -> pok (impute_close std impute p).
Proof.
  intros [H1 H2]. unfold impute_close. destruct (snd p) eqn:E.
  - split; [exact H1|now rewrite E].
  - destruct (impute && is_on (p_first p)); [|split; [exact H1|now rewrite E]]. split; [exact H1|reflexivity].
Qed.

Lemma pairings_sorted_ok (types : list mtype) (std : Z) (impute : bool) (s : list msg) :
  wfa s = true -> Forall (fun kv => Forall pok (snd kv)) (pairings_sorted types std impute s).
Proof.
  intro Hs. unfold pairings_sorted.
  set (st := fold_left _ _ _).
  assert (Hst : Forall (fun kv => chok (snd kv)) st).
  { unfold st. apply fold_left_inv; [|constructor]. intros acc [i m] Hin Hacc.
    apply pair_step_ok; [|exact Hacc]. eapply wfa_In; [exact Hs|]. eapply index_from_In. exact Hin. }
  rewrite Forall_forall in *. intros kv Hkv. apply in_map_iff in Hkv. destruct Hkv as [kv0 [<- Hin]].
  cbn [snd]. specialize (Hst kv0 Hin). unfold chok in Hst. rewrite Forall_forall in *.
  intros p Hp. apply in_map_iff in Hp. destruct Hp as [p0 [<- Hp0]]. apply pok_impute_close. auto.
Qed.

(* ---------------------------------------------------------------- cutoff *)
Lemma lookup_nat_In {V} (i : nat) (l : list (nat * V)) (v : V) : lookup_nat i l = Some v -> exists j, In (j, v) l.
Proof.
  induction l as [|[j w] l IH]; intro E; [discriminate|]. cbn [lookup_nat] in E.
  destruct (Nat.eqb i j); [injection E as <-; exists j; now left|].
  destruct (IH E) as [j' Hj]. exists j'. now right.
Qed.

Lemma cutoff_updates_nonneg (maxlen red : Z) (ps : list (Z * list pairing)) :
  0 <= red -> Forall (fun kv => Forall pok (snd kv)) ps ->
  forall j t f, In (j, (t, f)) (cutoff_updates maxlen red ps) -> 0 <= t.
Proof.
  intros Hred Hps j t f Hin. unfold cutoff_updates in Hin.
  apply in_flat_map in Hin. destruct Hin as [kv [Hkv Hin]].
  apply in_flat_map in Hin. destruct Hin as [p [Hp Hin]].
  rewrite Forall_forall in Hps. specialize (Hps kv Hkv). rewrite Forall_forall in Hps. destruct (Hps p Hp) as [H1 _].
  apply wfa_msg_time in H1.
  destruct (snd p) as [[[i|] off]|]; try destruct Hin.
  destruct (maxlen <? _); [|destruct Hin]. destruct Hin as [Hin|[]]. injection Hin as _ <- _. lia.
Qed.

Lemma wfa_cutoff (l : list msg) (maxlen red : Z) : 0 <= red -> wfa l = true -> abs_ok (cutoff l maxlen red).
Proof.
  intros Hred Hl. unfold cutoff. apply abs_ok_sort.
  assert (Hs : wfa (sort_abs l) = true) by (eapply wfa_perm; [apply sort_abs_perm|exact Hl]).
  set (s := sort_abs l) in *.
  pose proof (cutoff_updates_nonneg maxlen red _ Hred (pairings_sorted_ok NOTE_TYPES PPQN true s Hs)) as Hups.
  set (ups := cutoff_updates _ _ _) in *.
  apply wfa_intro. intros m Hm. apply in_map_iff in Hm. destruct Hm as [[i x] [<- Hin]]. cbn [fst snd].
  assert (Hx : wfa_msg x = true) by (eapply wfa_In; [exact Hs|eapply index_from_In; exact Hin]).
  destruct (lookup_nat i ups) as [[t f]|] eqn:E; [|exact Hx].
  destruct (lookup_nat_In _ _ _ E) as [j Hj].
  apply wfa_msg_set_time; [eapply Hups; exact Hj|now apply wfa_msg_nowait].
Qed.

(* ---------------------------------------------------------------- quantise_note_lengths *)
Lemma closest_nonneg (e : Z) (l : list Z) : (forall v, In v l -> 0 <= v) -> 0 <= closest e l.
Proof.
  intro H. unfold closest, nthZ.
  destruct (nth_in_or_default (Z.to_nat (find_minimal_distance e l)) l 0) as [Hin| ->]; [now apply H|lia].
Qed.

Lemma remove_first_In {A} (eqb : A -> A -> bool) (x y : A) (l : list A) : In y (remove_first eqb x l) -> In y l.
Proof.
  induction l as [|z l IH]; intro H; [destruct H|]. cbn [remove_first] in H.
  destruct (eqb x z); [now right|]. destruct H as [H|H]; [now left|right; auto].
Qed.

Lemma qnl_valid_sub (values : list Z) (dne : bool) (p : pairing) (next : option pairing) (v : Z) :
  In v (qnl_valid values dne p next) -> In v values.
Proof.
  unfold qnl_valid. intro H.
  set (v1 := match next with None => values | Some nx => _ end) in H.
  assert (H1 : forall x, In x v1 -> In x values).
  { unfold v1. destruct next as [nx|]; [|auto].
    apply (fold_left_inv (fun acc => forall x, In x acc -> In x values)); [|auto].
    intros acc w _ Hacc x Hx. destruct (_ <? _); [|auto]. apply Hacc. eapply remove_first_In. exact Hx. }
  revert v H. apply (fold_left_inv (fun acc => forall x, In x acc -> In x values)); [|exact H1].
  intros acc w _ Hacc x Hx. destruct (_ && _); [|auto]. apply Hacc. eapply remove_first_In. exact Hx.
Qed.

Lemma wfa_qnl_channel (values : list Z) (dne : bool) (l : list pairing) :
  (forall v, In v values -> 0 <= v) -> Forall pok l -> wfa (qnl_channel values dne l) = true.
Proof.
  intros Hv. induction l as [|p l IH]; intro Hl; [reflexivity|].
  inversion Hl as [|? ? Hp Hl']; subst. specialize (IH Hl'). destruct Hp as [Hp1 Hp2].
  cbn [qnl_channel].
  set (valid := qnl_valid values dne p _).
  assert (Hvalid : forall v, In v valid -> 0 <= v) by (intros v Hin; apply Hv; eapply qnl_valid_sub; exact Hin).
  destruct valid as [|v0 valid'] eqn:Ev; [exact IH|].
  destruct (snd p) as [[x off]|] eqn:Es.
  - rewrite !wfa_cons, Hp1, IH, andb_true_r. cbn [andb].
    assert (Hoff : p_off_time p = m_time off). { unfold p_off_time, p_second. now rewrite Es. }
    rewrite Hoff. pose proof (closest_nonneg (m_time off - p_on_time p) (v0 :: valid') Hvalid) as Hc.
    apply wfa_msg_set_time; [|exact Hp2]. apply wfa_msg_time in Hp1. unfold p_on_time in *. lia.
  - now rewrite wfa_cons, Hp1, IH.
Qed.

Lemma wfa_qnl (l : list msg) (values : list Z) (std : Z) (dne : bool) :
  forallb (fun v => 0 <=? v) values = true -> wfa l = true -> abs_ok (quantise_note_lengths l values std dne).
Proof.
  intros Hv Hl. unfold quantise_note_lengths. apply abs_ok_sort.
  assert (Hs : wfa (sort_abs l) = true) by (eapply wfa_perm; [apply sort_abs_perm|exact Hl]).
  set (s := sort_abs l) in *.
  pose proof (pairings_sorted_ok NOTE_TYPES std true s Hs) as Hps.
  assert (Hv' : forall v, In v values -> 0 <= v).
  { rewrite forallb_forall in Hv. intros v Hin. apply Z.leb_le. now apply Hv. }
  rewrite wfa_app. apply andb_true_intro. split; [|unfold wfa in *; now apply forallb_filter].
  apply wfa_intro. intros m Hm. apply in_flat_map in Hm. destruct Hm as [kv [Hkv Hm]].
  rewrite Forall_forall in Hps. eapply wfa_In; [|exact Hm]. apply wfa_qnl_channel; [exact Hv'|]. now apply Hps.
Qed.

Lemma default_note_values_nonneg : forallb (fun v => 0 <=? v) get_default_note_values = true.
Proof. vm_compute. reflexivity. Qed.

(* ---------------------------------------------------------------- quantise *)
Lemma positions_nonneg (t : Z) (steps : list Z) :
  0 <= t -> (forall s, In s steps -> 0 < s) -> forall p, In p (positions t steps) -> 0 <= p.
Proof.
  intros Ht Hs p Hp. unfold positions in Hp. apply in_app_or in Hp.
  destruct Hp as [Hp|Hp]; apply in_map_iff in Hp; destruct Hp as [s [<- Hin]]; specialize (Hs s Hin);
    assert (0 <= t / s) by (apply Z.div_pos; lia); nia.
Qed.

Definition qok (s : qstate) : Prop := Forall (fun kv => 0 <= snd kv) (q_open s) /\ wfa (q_out s) = true.

Lemma wfa_snoc (l : list msg) (m : msg) : wfa l = true -> wfa_msg m = true -> wfa (l ++ [m]) = true.
Proof. intros H1 H2. rewrite wfa_app, H1. cbn. now rewrite H2. Qed.

Lemma qstep_ok (steps : list Z) (s : qstate) (m : msg) :
  (forall x, In x steps -> 0 < x) -> wfa_msg m = true -> qok s -> qok (qstep steps s m).
Proof.
  intros Hst Hm [Ho Hout]. pose proof (wfa_msg_time m Hm) as Ht. pose proof (wfa_msg_nowait m Hm) as Hnw.
  pose proof (positions_nonneg (m_time m) steps Ht Hst) as Hpos.
  pose proof (closest_nonneg (m_time m) _ Hpos) as Hc.
  unfold qstep.
  destruct (m_type m).
  1-6,9: split; cbn [q_open q_out]; [exact Ho|]; apply wfa_snoc; [exact Hout|now apply wfa_msg_set_time].
  - (* NOTE_OFF *)
    destruct (dget k2_eqb (m_chan m, m_note m) (q_open s)) as [ot|] eqn:E; [|now split].
    pose proof (dget_Forall k2_eqb (fun v => 0 <= v) _ _ _ Ho E) as Hot. cbn beta in Hot.
    split; cbn [q_open q_out]; [now apply (ddel_Forall k2_eqb (fun v => 0 <= v))|].
    apply wfa_snoc; [exact Hout|]. apply wfa_msg_set_time; [|exact Hnw].
    apply closest_nonneg. intros v Hv.
    destruct (filter _ _) as [|f0 fl] eqn:Ef.
    + destruct Hv as [<-|[]]. exact Hot.
    + rewrite <- Ef in Hv. apply filter_In in Hv. apply Hpos. tauto.
  - (* NOTE_ON *)
    set (nt := closest (m_time m) (positions (m_time m) steps)) in *.
    set (s1 := match dget k2_eqb (m_chan m, m_note m) (q_open s) with Some _ => _ | None => s end).
    assert (H1 : qok s1).
    { unfold s1. destruct (dget k2_eqb (m_chan m, m_note m) (q_open s)); [|now split].
      split; cbn [q_open q_out]; [now apply (ddel_Forall k2_eqb (fun v => 0 <= v))|].
      apply wfa_snoc; [exact Hout|]. unfold wfa_msg. cbn. rewrite andb_true_r. now apply Z.leb_le. }
    destruct H1 as [Ho1 Hout1].
    destruct (match dget k2_eqb (m_chan m, m_note m) (q_tim s1) with None => true | Some l => _ end); [|now split].
    split; cbn [q_open q_out]; [now apply (dset_Forall k2_eqb (fun v => 0 <= v))|].
    apply wfa_snoc; [exact Hout1|now apply wfa_msg_set_time].
Qed.

Lemma wfa_remove_indices (l : list msg) (idx : list nat) : wfa l = true -> wfa (remove_indices l idx) = true.
Proof.
  intro H. apply wfa_intro. intros m Hm. unfold remove_indices in Hm. apply in_map_iff in Hm.
  destruct Hm as [[i x] [<- Hin]]. apply filter_In in Hin. destruct Hin as [Hin _]. cbn [snd].
  eapply wfa_In; [exact H|eapply index_from_In; exact Hin].
Qed.

Lemma wfa_quantise (l l' : list msg) (steps : list Z) :
  forallb (fun s => 0 <? s) steps = true -> wfa l = true -> quantise l steps = Ok l' -> abs_ok l'.
Proof.
  intros Hst Hl E. unfold quantise in E.
  assert (Hst' : forall x, In x steps -> 0 < x).
  { rewrite forallb_forall in Hst. intros x Hx. apply Z.ltb_lt. now apply Hst. }
  destruct steps as [|s0 steps'] eqn:Es.
  - destruct l; [|discriminate]. injection E as <-. apply abs_ok_nil.
  - rewrite <- Es in *. injection E as <-. apply abs_ok_sort. apply wfa_remove_indices.
    apply (fold_left_inv qok); [|split; [constructor|reflexivity]].
    intros acc m Hin Hacc. apply qstep_ok; [exact Hst'| |exact Hacc]. eapply wfa_In; eassumption.
Qed.

(* ---------------------------------------------------------------- split *)
Definition split_res_ok (r : split_res) : Prop :=
  match r with SEnd cur _ => wfr cur = true | SCut cur _ wm => wfr cur = true /\ wfr wm = true end.

Lemma wfr_map_nonwait {A} (f : A -> msg) (l : list A) : (forall x, is_wait (f x) = false) -> wfr (map f l) = true.
Proof.
  intro H. unfold wfr. apply forallb_forall. intros m Hm. apply in_map_iff in Hm. destruct Hm as [x [<- _]].
  apply wfr_msg_nonwait, H.
Qed.

Lemma split_inner_ok (wm cur : list msg) (opn : list (k2 * msg)) (q : list msg) (rem : Z) :
  wfr wm = true -> wfr cur = true -> wfr q = true -> split_res_ok (split_inner wm cur opn q rem).
Proof.
  revert cur opn q rem. induction wm as [|m wm IH]; intros cur opn q rem Hwm Hcur Hq; [exact Hcur|].
  rewrite wfr_cons in Hwm. apply andb_prop in Hwm. destruct Hwm as [Hm Hwm].
  cbn [split_inner].
  destruct (m_type m) eqn:Et.
  1-6: destruct (0 <? rem); apply IH; auto using wfr_snoc.
  - apply IH; auto using wfr_snoc.
  - destruct (0 <? rem); apply IH; auto using wfr_snoc.
  - destruct (m_time m <=? rem) eqn:E; [apply IH; auto using wfr_snoc|]. apply Z.leb_gt in E.
    cbn [split_res_ok]. split.
    + rewrite wfr_app. apply andb_true_intro. split; [|now apply wfr_map_nonwait].
      destruct (0 <? rem) eqn:E2; [|exact Hcur]. apply Z.ltb_lt in E2.
      apply wfr_snoc; [exact Hcur|]. apply wfr_msg_wait. lia.
    + rewrite !wfr_app, Hq, Hwm, andb_true_r. cbn [andb]. apply andb_true_intro. split; [now apply wfr_map_nonwait|].
      cbn. rewrite andb_true_r. apply Z.leb_le. lia.
Qed.

Lemma split_outer_ok (caps : list Z) (wm cur : list msg) (opn : list (k2 * msg)) (acc : list (list msg)) :
  wfr wm = true -> wfr cur = true -> forallb wfr acc = true ->
  let '(acc', wm', cur') := split_outer caps wm cur opn acc in
  forallb wfr acc' = true /\ wfr wm' = true /\ wfr cur' = true.
Proof.
  revert wm cur opn acc. induction caps as [|c caps IH]; intros wm cur opn acc Hwm Hcur Hacc; [now repeat split|].
  cbn [split_outer].
  pose proof (split_inner_ok wm cur opn [] c Hwm Hcur eq_refl) as Hi.
  assert (Hacc' : forall cur', wfr cur' = true ->
                  forallb wfr (match cur' with [] => acc | _ => acc ++ [cur'] end) = true).
  { intros cur' Hc. destruct cur'; [exact Hacc|]. rewrite forallb_app, Hacc. cbn [forallb andb]. now rewrite Hc. }
  destruct (split_inner wm cur opn [] c) as [cur' opn'|cur' opn' wm']; cbn [split_res_ok] in Hi.
  - apply IH; [reflexivity|reflexivity|now apply Hacc'].
  - destruct Hi as [Hi1 Hi2]. apply IH; [exact Hi2|reflexivity|now apply Hacc'].
Qed.

Lemma wfr_seq_split (l : list msg) (caps : list Z) : wfr l = true -> forallb wfr (seq_split l caps) = true.
Proof.
  intro Hl. unfold seq_split.
  pose proof (split_outer_ok caps l [] [] [] Hl eq_refl eq_refl) as H.
  destruct (split_outer caps l [] [] []) as [[acc wm] cur]. destruct H as [H1 [H2 H3]].
  assert (Hc : wfr (cur ++ wm) = true) by now rewrite wfr_app, H3, H2.
  destruct (cur ++ wm); [exact H1|]. rewrite forallb_app, H1. cbn [forallb andb]. now rewrite Hc.
Qed.

(* ---------------------------------------------------------------- sequences_split_bars *)
Definition bars_ok (bs : list bar) : Prop := Forall (fun b => wfr (b_rel b) = true) bs.

Lemma sb_collect_ok (num den : Z) (key : option Key) (bars : list (result (list msg))) (newbars : list bar) :
  Forall (fun b => forall r, b = Ok r -> wfr r = true) bars ->
  fold_right (fun b acc' => match b, acc' with
                            | Ok r, Ok l => Ok (mkbar r num den key :: l)
                            | Err e, _ => Err e
                            | _, Err e => Err e end) (Ok []) bars = Ok newbars ->
  bars_ok newbars.
Proof.
  revert newbars. induction bars as [|b bars IH]; intros newbars Hb E; cbn [fold_right] in E.
  - injection E as <-. constructor.
  - inversion Hb as [|? ? Hb1 Hb2]; subst. destruct b as [r|e]; [|discriminate].
    destruct (fold_right _ _ bars) as [l|e]; [|discriminate]. injection E as <-.
    constructor; [cbn; now apply Hb1|now apply IH].
Qed.

Lemma sb_loop_ok (fuel : nat) (qnl : bool) (seqs : list (list msg)) (tsq ksq : list msg) (cur num den : Z)
      (key : option Key) (acc res : list (list bar)) :
  Forall bars_ok acc -> sb_loop fuel qnl seqs tsq ksq cur num den key acc = Ok res -> Forall bars_ok res.
Proof.
  revert seqs tsq ksq cur num den key acc res.
  induction fuel as [|f IH]; intros seqs tsq ksq cur num den key acc res Hacc E; [discriminate|].
  cbn [sb_loop] in E.
  destruct (match tsq with m :: r => if m_time m <=? cur then (m_num m, m_den m, r) else (num, den, tsq)
                      | [] => (num, den, tsq) end) as [[num' den'] tsq'].
  destruct (match ksq with m :: r => if m_time m <=? cur then (m_key m, r) else (key, ksq)
                      | [] => (key, ksq) end) as [key' ksq'].
  cbv zeta in E.
  set (rounds := map _ seqs) in E.
  destruct (fold_right _ _ _) as [newbars|e] eqn:Ef; [|discriminate].
  assert (Hnew : bars_ok newbars).
  { eapply sb_collect_ok; [|exact Ef]. apply Forall_forall. intros b Hb r ->.
    apply in_map_iff in Hb. destruct Hb as [x [Hx _]]. eapply wfr_bar_init. exact Hx. }
  assert (Hacc' : Forall bars_ok (map (fun ab : list bar * bar => fst ab ++ [snd ab]) (combine acc newbars))).
  { apply Forall_forall. intros bs Hbs. apply in_map_iff in Hbs. destruct Hbs as [[a b] [<- Hin]].
    cbn [fst snd]. unfold bars_ok. apply Forall_app. split.
    - rewrite Forall_forall in Hacc. apply Hacc. eapply in_combine_l. exact Hin.
    - constructor; [|constructor]. unfold bars_ok in Hnew. rewrite Forall_forall in Hnew. apply Hnew.
      eapply in_combine_r. exact Hin. }
  destruct (existsb _ rounds).
  - eapply IH; [exact Hacc'|exact E].
  - injection E as <-. exact Hacc'.
Qed.

Lemma split_bars_ok (rels : list (list msg)) (meta_abs : list msg) (qnl : bool) (bars : list (list bar)) :
  split_bars rels meta_abs qnl = Ok bars -> Forall (fun b => wfr (b_rel b) = true) (concat bars).
Proof.
  intro E. unfold split_bars in E.
  assert (H : Forall bars_ok bars).
  { eapply sb_loop_ok; [|exact E]. apply Forall_forall. intros bs Hbs. apply in_map_iff in Hbs.
    destruct Hbs as [x [<- _]]. constructor. }
  apply Forall_forall. intros b Hb. apply in_concat in Hb. destruct Hb as [bs [Hbs Hb]].
  rewrite Forall_forall in H. specialize (H bs Hbs). unfold bars_ok in H. rewrite Forall_forall in H. now apply H.
Qed.
