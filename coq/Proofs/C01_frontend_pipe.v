(* C01 (front end), part 2 -- the sorted absolute list handed to the pairing step by `tok_frontend`, for tracks whose
   notes are well formed per pitch: every (channel, pitch) key keeps exactly the signature of its track, nothing but
   note messages and at most one INTERNAL cap (at the duration of the longest track) is present. *)
From Coq Require Import ZArith List Bool Lia Permutation.
From Model Require Import Base Util Seq Pairing Tok.
From Proofs Require Import C04_sort C04_proofs C07_proofs C01_frontend_sig.
Import ListNotations.
Open Scope Z_scope.

(* ================================================================ track well-formedness *)
(* WAIT / NOTE_ON / NOTE_OFF messages, and TIME_SIGNATURE messages on track 0 only *)
Definition msg_ok (i : Z) (m : msg) : bool := is_wait m || is_note m || (is_ts m && (i =? 0)).

Fixpoint sincrZ (l : list Z) : bool :=
  match l with
  | [] => true
  | x :: l' => match l' with [] => true | y :: _ => (x <? y) && sincrZ l' end
  end.

(* ticks of the TIME_SIGNATURE messages of a relative track *)
Definition ts_ticks (r : list msg) : list Z := map (fun x => fst (fst x)) (tsv (ev_rel r)).

(* non-negative waits; allowed message types; the signature of every pitch that occurs is well formed; at most one
   time signature per tick; no time signature repeats the one in force (such a message is dropped by normalise) *)
Definition track_ok (i : Z) (r : list msg) : bool :=
  wfr r && forallb (msg_ok i) r && forallb (fun m => negb (is_note m) || sig_ok (psig (m_note m) 0 r)) r &&
  sincrZ (ts_ticks r) && ts_ok (NONE, NONE) r.
Fixpoint tracks_ok (j : Z) (tracks : list (list msg)) : bool :=
  match tracks with [] => true | r :: ts => track_ok j r && tracks_ok (j + 1) ts end.

Lemma sincrZ_FOP l : sincrZ l = true -> ForallOrdPairs Z.lt l.
Proof.
  induction l as [|x l IH]; intros H; [constructor|]. destruct l as [|y l]; [repeat constructor|].
  cbn [sincrZ] in H. apply andb_prop in H. destruct H as [Hxy Hl]. apply Z.ltb_lt in Hxy. specialize (IH Hl).
  constructor; [|exact IH]. inversion IH as [|? ? Hy _]; subst. constructor; [exact Hxy|].
  eapply Forall_impl; [|exact Hy]. cbn beta. intros z Hz. lia.
Qed.

Lemma psig_nil n r : (forall m, In m r -> is_note m = true -> m_note m <> n) -> forall cur, psig n cur r = [].
Proof.
  induction r as [|m r IH]; intros H cur; [reflexivity|]. cbn [psig].
  assert (IH' : forall c, psig n c r = []) by (apply IH; intros x Hx; apply H; now right).
  destruct (is_wait m); [apply IH'|].
  destruct (is_note m) eqn:En; cbn [andb]; [|apply IH'].
  destruct (Z.eqb_spec n (m_note m)) as [E|E]; [|apply IH'].
  exfalso. apply (H m (or_introl eq_refl) En). now symmetry.
Qed.

Lemma track_ok_parts i r : track_ok i r = true ->
  wfr r = true /\ (forall m, In m r -> msg_ok i m = true) /\ (forall n, sig_ok (psig n 0 r) = true) /\
  ForallOrdPairs elt (tsig (ev_rel r)) /\ ts_ok (NONE, NONE) r = true.
Proof.
  unfold track_ok. intros H. apply andb_prop in H. destruct H as [H H5]. apply andb_prop in H. destruct H as [H H4].
  apply andb_prop in H. destruct H as [H H3]. apply andb_prop in H. destruct H as [H1 H2].
  split; [exact H1|]. split; [now apply forallb_forall|]. split; [|split; [|exact H5]].
  - intros n. rewrite forallb_forall in H3.
    destruct (existsb (fun m => is_note m && (m_note m =? n)) r) eqn:E.
    + apply existsb_exists in E. destruct E as (m & Hm & E). apply andb_prop in E. destruct E as [E1 E2].
      apply Z.eqb_eq in E2. subst n. specialize (H3 m Hm). now rewrite E1 in H3.
    + rewrite psig_nil; [reflexivity|]. intros m Hm Hn Heq.
      assert (existsb (fun m => is_note m && (m_note m =? n)) r = true); [|congruence].
      apply existsb_exists. exists m. split; [exact Hm|]. rewrite Hn. now apply Z.eqb_eq.
  - apply FOP_elt_tsv. apply sincrZ_FOP in H4. unfold ts_ticks in H4. revert H4. apply FOP_map_inv.
    intros x y _ _ Hxy. exact Hxy.
Qed.

Lemma psig_sle i n r : track_ok i r = true -> ForallOrdPairs sle (psig n 0 r).
Proof.
  intros H. destruct (track_ok_parts i r H) as (Hw & _ & Hs & _).
  apply sig_ok_sle; [apply Hs|]. now apply psig_times.
Qed.

(* ================================================================ the stages of tok_frontend *)
Definition chs (tracks : list (list msg)) : list (list msg) := mapi (fun i r => set_channel r i) tracks.
Definition fe_abs (tracks : list (list msg)) : list msg := merge_abs [] (map to_abs (chs tracks)).
Definition fe_rel0 (tracks : list (list msg)) : list msg := to_rel (fe_abs tracks).
Definition fe_rel (tracks : list (list msg)) : list msg := normalise (fe_rel0 tracks).
Definition fe_sorted (tracks : list (list msg)) : list msg := sort_abs (to_abs (fe_rel tracks)).

Lemma tok_frontend_eq tracks : tok_frontend tracks = interleaved TOK_TYPES PPQN true (fe_sorted tracks).
Proof. reflexivity. Qed.

(* the signature of key k in the piece: the pitch signature of track (fst k), tracks numbered from j *)
Fixpoint piece_sig (j : Z) (tracks : list (list msg)) (k : k2) : list sigent :=
  match tracks with
  | [] => []
  | r :: ts => if fst k =? j then psig (snd k) 0 r else piece_sig (j + 1) ts k
  end.
(* duration of the longest track *)
Definition piece_dur (tracks : list (list msg)) : Z := fold_right Z.max 0 (map dur_rel tracks).

Lemma piece_sig_sle tracks k : forall j, tracks_ok j tracks = true -> ForallOrdPairs sle (piece_sig j tracks k).
Proof.
  induction tracks as [|r ts IH]; intros j H; cbn [piece_sig]; [constructor|].
  cbn [tracks_ok] in H. apply andb_prop in H. destruct H as [Hr Hts].
  destruct (fst k =? j); [now apply psig_sle with j|now apply IH].
Qed.

Lemma piece_sig_ok tracks k : forall j, tracks_ok j tracks = true -> sig_ok (piece_sig j tracks k) = true.
Proof.
  induction tracks as [|r ts IH]; intros j H; cbn [piece_sig]; [reflexivity|].
  cbn [tracks_ok] in H. apply andb_prop in H. destruct H as [Hr Hts].
  destruct (fst k =? j); [now apply (track_ok_parts j r Hr)|now apply IH].
Qed.

Lemma tracks_ok_wfr tracks : forall j, tracks_ok j tracks = true -> forall r, In r tracks -> wfr r = true.
Proof.
  induction tracks as [|r0 ts IH]; intros j H r Hr; [destruct Hr|].
  cbn [tracks_ok] in H. apply andb_prop in H. destruct H as [H0 Hts]. destruct Hr as [<-|Hr].
  - now apply (track_ok_parts j r0 H0).
  - now apply IH with (j + 1).
Qed.

Lemma tracks_ok_nth tracks : forall j n r, tracks_ok j tracks = true -> nth_error tracks n = Some r ->
  track_ok (j + Z.of_nat n) r = true.
Proof.
  induction tracks as [|r0 ts IH]; intros j n r H Hn; [destruct n; discriminate|].
  cbn [tracks_ok] in H. apply andb_prop in H. destruct H as [H0 Hts]. destruct n as [|n]; cbn [nth_error] in Hn.
  - injection Hn as <-. now rewrite Z.add_0_r.
  - replace (j + Z.of_nat (S n)) with ((j + 1) + Z.of_nat n) by lia. now apply IH.
Qed.

Lemma piece_sig_nth tracks n : forall j i, (i < length tracks)%nat ->
  piece_sig j tracks (j + Z.of_nat i, n) = psig n 0 (nth i tracks []).
Proof.
  induction tracks as [|r ts IH]; intros j i Hi; [cbn in Hi; lia|]. cbn [piece_sig fst snd].
  destruct i as [|i].
  - rewrite Z.add_0_r, Z.eqb_refl. reflexivity.
  - destruct (Z.eqb_spec (j + Z.of_nat (S i)) j) as [E|E]; [lia|].
    replace (j + Z.of_nat (S i)) with ((j + 1) + Z.of_nat i) by lia. cbn [nth]. apply IH. cbn in Hi. lia.
Qed.

Lemma piece_sig_out tracks k : forall j, (fst k < j \/ j + Z.of_nat (length tracks) <= fst k) -> piece_sig j tracks k = [].
Proof.
  induction tracks as [|r ts IH]; intros j H; [reflexivity|]. cbn [piece_sig length] in *.
  destruct (Z.eqb_spec (fst k) j) as [E|E]; [lia|]. apply IH. lia.
Qed.

(* ================================================================ channels *)
Definition chan_all (c : Z) (l : list msg) : Prop := Forall (fun m => m_chan m = c) l.

Lemma set_channel_chan r i : chan_all i (set_channel r i).
Proof. unfold chan_all, set_channel. apply Forall_forall. intros x Hx. apply in_map_iff in Hx. destruct Hx as (m & <- & _). reflexivity. Qed.

Lemma to_abs_chan c l : chan_all c l -> chan_all c (to_abs l).
Proof.
  unfold chan_all. rewrite !Forall_forall. intros H x Hx. destruct l as [|m0 l]; [destruct Hx|].
  destruct (to_abs_In _ _ Hx) as [->|(m & t & f & Hm & _ & ->)].
  - cbn [first_chan mk_internal m_chan]. apply H. now left.
  - cbn [set_time m_chan]. now apply H.
Qed.

Lemma asig_other_chan k c l : chan_all c l -> fst k <> c -> asig k l = [].
Proof.
  intros H Hne. rewrite asig_kp. unfold kp. rewrite filter_none; [reflexivity|].
  intros m Hm. unfold chan_all in H. rewrite Forall_forall in H. specialize (H m Hm).
  unfold nkey. destruct (k2_eqb k (m_chan m, m_note m)) eqn:E; [|apply andb_false_r].
  apply k2_eqb_eq in E. subst k. cbn [fst] in Hne. congruence.
Qed.

Lemma wfr_set_channel r i : wfr (set_channel r i) = wfr r.
Proof. unfold wfr, set_channel. induction r as [|m r IH]; cbn [map forallb]; [reflexivity|]. now rewrite IH. Qed.

Lemma dur_rel_set_channel r i : dur_rel (set_channel r i) = dur_rel r.
Proof.
  unfold set_channel. induction r as [|m r IH]; [reflexivity|]. cbn [map].
  rewrite !C04_proofs.dur_rel_cons, IH. reflexivity.
Qed.

(* ================================================================ per-track conversion and merge *)
Lemma asig_track j n r : track_ok j r = true -> asig (j, n) (to_abs (set_channel r j)) = psig n 0 r.
Proof.
  intros H. unfold ev_rel. rewrite asig_to_abs; unfold ev_rel; rewrite esig_set_channel; [reflexivity|].
  now apply psig_sle with j.
Qed.

Definition setch (i : Z) (r : list msg) : list msg := set_channel r i.

Lemma asig_tracks_above tracks k : forall j, fst k < j -> asig k (concat (map to_abs (mapi_aux setch j tracks))) = [].
Proof.
  induction tracks as [|r ts IH]; intros j Hj; [reflexivity|]. cbn [mapi_aux map concat].
  rewrite asig_app, IH by lia. rewrite app_nil_r.
  apply asig_other_chan with j; [|lia]. apply to_abs_chan, set_channel_chan.
Qed.

Lemma asig_tracks tracks k : forall j, tracks_ok j tracks = true ->
  asig k (concat (map to_abs (mapi_aux setch j tracks))) = piece_sig j tracks k.
Proof.
  induction tracks as [|r ts IH]; intros j H; [reflexivity|]. cbn [mapi_aux map concat piece_sig].
  cbn [tracks_ok] in H. apply andb_prop in H. destruct H as [Hr Hts].
  rewrite asig_app. destruct (Z.eqb_spec (fst k) j) as [E|E].
  - rewrite asig_tracks_above by lia. rewrite app_nil_r. destruct k as [c n]. cbn [fst snd] in *. subst c.
    now apply asig_track.
  - rewrite IH by exact Hts. replace (asig k (to_abs (setch j r))) with (@nil sigent); [reflexivity|].
    symmetry. apply asig_other_chan with j; [|exact E]. apply to_abs_chan, set_channel_chan.
Qed.

Lemma chs_eq tracks : chs tracks = mapi_aux setch 0 tracks.
Proof. reflexivity. Qed.

Lemma mapi_aux_In {A B} (f : Z -> A -> B) l : forall j y, In y (mapi_aux f j l) ->
  exists n x, nth_error l n = Some x /\ y = f (j + Z.of_nat n) x.
Proof.
  induction l as [|a l IH]; intros j y H; [destruct H|]. cbn [mapi_aux] in H. destruct H as [<-|H].
  - exists 0%nat, a. split; [reflexivity|]. now rewrite Z.add_0_r.
  - destruct (IH _ _ H) as (n & x & Hx & ->). exists (S n), x. split; [exact Hx|]. f_equal. lia.
Qed.

(* ---- time signatures: only track 0 holds some *)
Definition piece_ts (tracks : list (list msg)) : list event :=
  match tracks with [] => [] | r0 :: _ => tsig (ev_rel (setch 0 r0)) end.

Lemma ats_no_ts l : (forall m, In m l -> is_ts m = false) -> ats (to_abs l) = [].
Proof.
  intros H. rewrite ats_filter, filter_none; [reflexivity|]. intros x Hx.
  destruct (to_abs_In _ _ Hx) as [->|(m & t & f & Hm & _ & ->)]; [reflexivity|].
  change (is_ts (set_time m t f)) with (is_ts m). now apply H.
Qed.

Lemma track_no_ts j r : track_ok j r = true -> j <> 0 -> forall m, In m (setch j r) -> is_ts m = false.
Proof.
  intros H Hj m Hm. unfold setch, set_channel in Hm. apply in_map_iff in Hm. destruct Hm as (m0 & <- & Hm0).
  change (is_ts (set_chan m0 j)) with (is_ts m0). destruct (track_ok_parts j r H) as (_ & Ht & _).
  specialize (Ht m0 Hm0). unfold msg_ok in Ht. destruct (is_ts m0) eqn:E; [|reflexivity].
  rewrite (ts_not_wait m0 E), (ts_not_note m0 E) in Ht. cbn [orb andb] in Ht. apply Z.eqb_eq in Ht. contradiction.
Qed.

Lemma ats_tracks_above tracks : forall j, 0 < j -> tracks_ok j tracks = true ->
  ats (concat (map to_abs (mapi_aux setch j tracks))) = [].
Proof.
  induction tracks as [|r ts IH]; intros j Hj H; [reflexivity|]. cbn [mapi_aux map concat].
  cbn [tracks_ok] in H. apply andb_prop in H. destruct H as [Hr Hts].
  rewrite ats_app, IH by (lia || exact Hts). rewrite app_nil_r. apply ats_no_ts. apply (track_no_ts j r Hr). lia.
Qed.

Lemma track_ts_sorted j r : track_ok j r = true -> ForallOrdPairs elt (tsig (ev_rel (setch j r))).
Proof.
  intros H. destruct (track_ok_parts j r H) as (_ & _ & _ & Hs & _). apply FOP_elt_tsv.
  unfold setch, ev_rel. rewrite tsv_set_channel. unfold tsv. revert Hs. apply FOP_map. intros x y Hxy. exact Hxy.
Qed.

Lemma ats_tracks tracks : tracks_ok 0 tracks = true ->
  ats (concat (map to_abs (mapi_aux setch 0 tracks))) = piece_ts tracks.
Proof.
  destruct tracks as [|r ts]; intros H; [reflexivity|]. cbn [mapi_aux map concat piece_ts].
  cbn [tracks_ok] in H. apply andb_prop in H. destruct H as [Hr Hts].
  rewrite ats_app, ats_tracks_above by (lia || exact Hts). rewrite app_nil_r.
  apply ats_to_abs. now apply track_ts_sorted.
Qed.

Lemma piece_ts_sorted tracks : tracks_ok 0 tracks = true -> ForallOrdPairs elt (piece_ts tracks).
Proof.
  destruct tracks as [|r ts]; intros H; [constructor|]. cbn [tracks_ok] in H. apply andb_prop in H.
  destruct H as [Hr _]. now apply track_ts_sorted.
Qed.

Section Piece.
  Variable tracks : list (list msg).
  Hypothesis Hok : tracks_ok 0 tracks = true.

  Lemma track_wfr r : In r tracks -> wfr r = true.
  Proof. now apply tracks_ok_wfr with 0. Qed.

  Lemma concat_wfa : wfa (concat (map to_abs (chs tracks))) = true.
  Proof.
    unfold wfa. apply forallb_forall. intros x Hx. apply in_concat in Hx. destruct Hx as (l & Hl & Hx).
    apply in_map_iff in Hl. destruct Hl as (c & <- & Hc). apply mapi_aux_In in Hc. destruct Hc as (i & r & Hr & ->).
    apply nth_error_In in Hr.
    assert (Hw : wfa (to_abs (set_channel r (0 + Z.of_nat i))) = true)
      by (apply to_abs_wfa; rewrite wfr_set_channel; now apply track_wfr).
    unfold wfa in Hw. rewrite forallb_forall in Hw. now apply Hw.
  Qed.

  Lemma fe_abs_perm : Permutation (concat (map to_abs (chs tracks))) (fe_abs tracks).
  Proof. unfold fe_abs, merge_abs. cbn [app]. apply sort_abs_perm. Qed.
  Lemma fe_abs_tsorted : tsorted (fe_abs tracks) = true.
  Proof. apply sort_abs_tsorted. Qed.
  Lemma fe_abs_wfa : wfa (fe_abs tracks) = true.
  Proof. eapply wfa_perm; [apply fe_abs_perm|apply concat_wfa]. Qed.

  Lemma fe_abs_sig k : asig k (fe_abs tracks) = piece_sig 0 tracks k.
  Proof.
    unfold fe_abs, merge_abs. cbn [app]. rewrite asig_sort_abs; rewrite chs_eq, asig_tracks by exact Hok.
    - reflexivity.
    - now apply piece_sig_sle.
  Qed.

  Lemma fe_abs_ats : ats (fe_abs tracks) = piece_ts tracks.
  Proof.
    unfold fe_abs, merge_abs. cbn [app]. rewrite ats_sort_abs; rewrite chs_eq, ats_tracks by exact Hok.
    - reflexivity.
    - now apply piece_ts_sorted.
  Qed.

  (* every message of the merged absolute list is a note, an INTERNAL cap or a time signature of channel 0 *)
  Lemma fe_abs_types x : In x (fe_abs tracks) ->
    is_note x = true \/ is_internal x = true \/ (is_ts x = true /\ m_chan x = 0).
  Proof.
    intros Hx. eapply Permutation_in in Hx; [|symmetry; apply fe_abs_perm].
    apply in_concat in Hx. destruct Hx as (l & Hl & Hx).
    apply in_map_iff in Hl. destruct Hl as (c & <- & Hc). apply mapi_aux_In in Hc. destruct Hc as (i & r & Hr & ->).
    destruct (to_abs_In _ _ Hx) as [->|(m & t & f & Hm & Hw & ->)]; [right; now left|].
    unfold setch, set_channel in Hm. apply in_map_iff in Hm. destruct Hm as (m0 & <- & Hm0).
    destruct (track_ok_parts _ r (tracks_ok_nth tracks 0 i r Hok Hr)) as (_ & Ht & _).
    specialize (Ht m0 Hm0). unfold msg_ok in Ht. change (is_wait (set_chan m0 (0 + Z.of_nat i))) with (is_wait m0) in Hw.
    rewrite Hw in Ht. cbn [orb] in Ht. apply orb_prop in Ht. destruct Ht as [Ht|Ht]; [now left|].
    apply andb_prop in Ht. destruct Ht as [Ht Hi]. apply Z.eqb_eq in Hi. right. right. split; [exact Ht|].
    cbn [set_time set_chan m_chan]. exact Hi.
  Qed.

  (* the relative list before normalise *)
  Lemma fe_rel0_ev : ev_rel (fe_rel0 tracks) = ev_abs (fe_abs tracks).
  Proof. apply to_rel_events; [apply fe_abs_tsorted|apply fe_abs_wfa]. Qed.

  Lemma fe_rel0_types x : In x (fe_rel0 tracks) ->
    is_wait x = true \/ is_note x = true \/ (is_ts x = true /\ m_chan x = 0).
  Proof.
    intros Hx. destruct (to_rel_aux_In _ _ _ _ Hx) as [H|(m & Hm & Hi & ->)]; [now left|]. right.
    destruct (fe_abs_types m Hm) as [H|[H|H]]; [now left|congruence|now right].
  Qed.

  Lemma fe_rel0_alt k : alt k false (fe_rel0 tracks) = true.
  Proof.
    rewrite (alt_esig k _ 0 false). fold (ev_rel (fe_rel0 tracks)). rewrite fe_rel0_ev.
    fold (asig k (fe_abs tracks)). rewrite fe_abs_sig. apply sig_ok_alt_bits. now apply piece_sig_ok.
  Qed.

  Lemma type_flags x : is_wait x = true \/ is_note x = true \/ (is_ts x = true /\ m_chan x = 0) -> is_ks x = false.
  Proof.
    unfold is_wait, is_note, is_on, is_off, is_ts, is_ks, mtype_eqb. destruct (m_type x); cbn; intros [H|[H|[H _]]];
      try discriminate; reflexivity.
  Qed.

  Lemma fe_rel0_ts_ok : ts_ok (NONE, NONE) (fe_rel0 tracks) = true.
  Proof.
    rewrite (ts_ok_tsig _ 0). fold (ev_rel (fe_rel0 tracks)). rewrite fe_rel0_ev. fold (ats (fe_abs tracks)).
    rewrite fe_abs_ats. destruct tracks as [|r0 ts]; [reflexivity|]. cbn [piece_ts].
    unfold ev_rel. rewrite <- ts_ok_tsig. unfold setch. rewrite ts_ok_set_channel.
    cbn [tracks_ok] in Hok. apply andb_prop in Hok. destruct Hok as [H0 _]. now apply (track_ok_parts 0 r0 H0).
  Qed.

  Lemma fe_rel_timed : timed 0 (fe_rel tracks) = timed 0 (fe_rel0 tracks).
  Proof.
    apply normalise_wellformed.
    - apply fe_rel0_alt.
    - apply fe_rel0_ts_ok.
    - apply no_ks_ok. intros m Hm. now apply type_flags, fe_rel0_types.
    - apply to_rel_wfr.
  Qed.

  Lemma fe_rel_ev : ev_rel (fe_rel tracks) = ev_abs (fe_abs tracks).
  Proof. unfold ev_rel. rewrite ev_rel_timed, fe_rel_timed, <- ev_rel_timed. apply fe_rel0_ev. Qed.

  Lemma fe_rel_wfr : wfr (fe_rel tracks) = true.
  Proof. apply nonneg_normalise. Qed.

  Lemma fe_rel_types x : In x (fe_rel tracks) ->
    is_wait x = true \/ is_note x = true \/ (is_ts x = true /\ m_chan x = 0).
  Proof.
    intros Hx. destruct (is_wait x) eqn:Ew; [now left|].
    destruct (In_timed _ 0 x Hx Ew) as [t Ht]. rewrite fe_rel_timed in Ht.
    apply timed_In in Ht. destruct Ht as [Ht _]. destruct (fe_rel0_types x Ht) as [H|H]; [congruence|now right].
  Qed.

  (* ---- the final sorted list *)
  Lemma fe_sorted_sig k : asig k (fe_sorted tracks) = piece_sig 0 tracks k.
  Proof.
    assert (E : esig k (ev_rel (fe_rel tracks)) = piece_sig 0 tracks k).
    { rewrite fe_rel_ev. fold (asig k (fe_abs tracks)). apply fe_abs_sig. }
    assert (O : ForallOrdPairs sle (piece_sig 0 tracks k)) by now apply piece_sig_sle.
    unfold fe_sorted. rewrite asig_sort_abs; rewrite asig_to_abs; rewrite E; auto.
  Qed.

  Lemma fe_sorted_ats : ats (fe_sorted tracks) = piece_ts tracks.
  Proof.
    assert (E : tsig (ev_rel (fe_rel tracks)) = piece_ts tracks).
    { rewrite fe_rel_ev. fold (ats (fe_abs tracks)). apply fe_abs_ats. }
    assert (O : ForallOrdPairs elt (piece_ts tracks)) by now apply piece_ts_sorted.
    unfold fe_sorted. rewrite ats_sort_abs; rewrite ats_to_abs; rewrite E; auto.
  Qed.

  Lemma fe_sorted_tsorted : tsorted (fe_sorted tracks) = true.
  Proof. apply sort_abs_tsorted. Qed.
  Lemma fe_sorted_wfa : wfa (fe_sorted tracks) = true.
  Proof. eapply wfa_perm; [apply sort_abs_perm|]. apply to_abs_wfa, fe_rel_wfr. Qed.

  Lemma maxt_app a b : maxt (a ++ b) = Z.max (maxt a) (maxt b).
  Proof. induction a as [|x a IH]; cbn [app]; [pose proof (maxt_ge b); cbn; lia|]. rewrite !maxt_cons, IH. lia. Qed.

  Lemma maxt_tracks ts : (forall r, In r ts -> wfr r = true) -> forall j,
    maxt (concat (map to_abs (mapi_aux setch j ts))) = piece_dur ts.
  Proof.
    induction ts as [|r ts IH]; intros Hw j; [reflexivity|]. cbn [mapi_aux map concat].
    unfold piece_dur. cbn [map fold_right]. fold (piece_dur ts).
    rewrite maxt_app, IH by (intros x Hx; apply Hw; now right). f_equal.
    assert (Hr : wfr (setch j r) = true) by (unfold setch; rewrite wfr_set_channel; apply Hw; now left).
    rewrite <- dur_abs_maxt; [|apply to_abs_tsorted|apply wfa_Forall, to_abs_wfa, Hr].
    rewrite to_abs_dur by exact Hr. apply dur_rel_set_channel.
  Qed.

  Lemma fe_rel_dur : dur_rel (fe_rel tracks) = piece_dur tracks.
  Proof.
    unfold fe_rel. rewrite C07_duration by apply to_rel_wfr.
    unfold fe_rel0. rewrite to_rel_dur; [|apply fe_abs_tsorted|apply fe_abs_wfa].
    rewrite dur_abs_maxt; [|apply fe_abs_tsorted|apply wfa_Forall, fe_abs_wfa].
    rewrite <- (maxt_perm _ _ fe_abs_perm). rewrite chs_eq. apply maxt_tracks. exact track_wfr.
  Qed.

  (* every message handed to the pairing step is a note, the cap at the end of the longest track, or a time signature
     of channel 0 *)
  Lemma fe_sorted_types x : In x (fe_sorted tracks) ->
    is_note x = true \/ (is_internal x = true /\ m_time x = piece_dur tracks) \/ (is_ts x = true /\ m_chan x = 0).
  Proof.
    intros Hx. unfold fe_sorted in Hx. eapply Permutation_in in Hx; [|symmetry; apply sort_abs_perm].
    destruct (to_abs_In _ _ Hx) as [->|(m & t & f & Hm & Hw & ->)].
    - right. left. split; [reflexivity|]. cbn [mk_internal m_time]. apply fe_rel_dur.
    - destruct (fe_rel_types m Hm) as [H|[H|H]]; [congruence|now left|right; now right].
  Qed.
End Piece.
