(* C01 (front end), part 1 -- per-(channel, pitch) signatures of the note messages and their preservation by every
   stage of the tokeniser's front end `tok_frontend`:
     set_channel, to_abs (per track), merge_abs, to_rel, normalise, to_abs, sort_abs.
   The signature of a key is the list of (tick, is-note-on, velocity) of its NOTE_ON / NOTE_OFF messages, in list
   order.  It does not mention the float tag m_tf, so all statements hold whatever the tags are. *)
From Coq Require Import ZArith List Bool Lia Permutation.
From Model Require Import Base Util Seq Pairing Tok.
From Proofs Require Import C04_sort C04_proofs C07_proofs.
Import ListNotations.
Open Scope Z_scope.

(* ================================================================ signatures *)
Definition sigent : Set := (Z * bool * Z)%type.       (* tick, is NOTE_ON, velocity *)
Definition s_time (e : sigent) : Z := fst (fst e).
Definition s_on (e : sigent) : bool := snd (fst e).

(* m is a note message of key k *)
Definition nkey (k : k2) (m : msg) : bool := is_note m && k2_eqb k (m_chan m, m_note m).
Definition sigm (m : msg) : sigent := (m_time m, is_on m, m_vel m).
Definition sige (e : event) : sigent := (fst e, is_on (snd e), m_vel (snd e)).

(* the note messages of key k *)
Definition kp (k : k2) (l : list msg) : list msg := filter (nkey k) l.
(* signature of key k in a list of timed events *)
Definition esig (k : k2) (E : list event) : list sigent := map sige (filter (fun e => nkey k (snd e)) E).
(* signature of key k in an absolute list *)
Definition asig (k : k2) (a : list msg) : list sigent := esig k (ev_abs a).

(* signature of pitch n in a raw relative track (the channel is ignored: the front end overwrites it) *)
Fixpoint psig (n : Z) (cur : Z) (r : list msg) : list sigent :=
  match r with
  | [] => []
  | m :: r' =>
      if is_wait m then psig n (cur + m_time m) r'
      else if is_note m && (n =? m_note m) then (cur, is_on m, m_vel m) :: psig n cur r'
      else psig n cur r'
  end.

(* ---- the per-key state machine: never seen / sounding since a / silent since b *)
Inductive sst : Set := SNone | SOpen (a : Z) | SClosed (b : Z).
Definition sstep (st : sst) (e : sigent) : option sst :=
  if s_on e then
    match st with
    | SOpen _ => None
    | SNone => Some (SOpen (s_time e))
    | SClosed b => if b <=? s_time e then Some (SOpen (s_time e)) else None
    end
  else
    match st with
    | SOpen a => if a <? s_time e then Some (SClosed (s_time e)) else None
    | _ => None
    end.
Fixpoint srun (st : sst) (s : list sigent) : option sst :=
  match s with
  | [] => Some st
  | e :: s' => match sstep st e with Some st' => srun st' s' | None => None end
  end.
Definition sclosed (st : sst) : bool := match st with SOpen _ => false | _ => true end.
(* on/off strictly alternate starting with on, every on is closed by an off strictly later, the next on is not before
   the previous off *)
Definition sig_ok (s : list sigent) : bool :=
  match srun SNone s with Some st => sclosed st | None => false end.

(* order of two signature entries of one key under the sort key (time, channel, type rank, note) *)
Definition sle (a b : sigent) : Prop := s_time a < s_time b \/ (s_time a = s_time b /\ (s_on a = false \/ s_on b = true)).
Definition tle (a b : sigent) : Prop := s_time a <= s_time b.

(* ================================================================ generic list facts *)
Lemma FOP_filter {A} (R : A -> A -> Prop) (f : A -> bool) l : ForallOrdPairs R l -> ForallOrdPairs R (filter f l).
Proof.
  induction 1 as [|a l Ha _ IH]; cbn [filter]; [constructor|].
  destruct (f a); [|exact IH]. constructor; [|exact IH].
  rewrite Forall_forall in *. intros x Hx. apply filter_In in Hx. now apply Ha.
Qed.

Lemma FOP_map {A B} (R : A -> A -> Prop) (Q : B -> B -> Prop) (f : A -> B) l :
  (forall x y, R x y -> Q (f x) (f y)) -> ForallOrdPairs R l -> ForallOrdPairs Q (map f l).
Proof.
  intros HRQ. induction 1 as [|a l Ha _ IH]; cbn [map]; constructor; [|exact IH].
  rewrite Forall_forall in *. intros y Hy. apply in_map_iff in Hy. destruct Hy as (x & <- & Hx). auto.
Qed.

Lemma FOP_map_inv {A B} (R : A -> A -> Prop) (Q : B -> B -> Prop) (f : A -> B) l :
  (forall x y, In x l -> In y l -> Q (f x) (f y) -> R x y) -> ForallOrdPairs Q (map f l) -> ForallOrdPairs R l.
Proof.
  induction l as [|a l IH]; intros HQR H; [constructor|].
  cbn [map] in H. inversion H as [|? ? Ha Hl]; subst. constructor.
  - rewrite Forall_forall in *. intros y Hy. apply HQR; [now left|now right|]. apply Ha. now apply in_map.
  - apply IH; [|exact Hl]. intros x y Hx Hy. apply HQR; now right.
Qed.

Lemma FOP_app {A} (R : A -> A -> Prop) a b :
  ForallOrdPairs R a -> ForallOrdPairs R b -> (forall x y, In x a -> In y b -> R x y) -> ForallOrdPairs R (a ++ b).
Proof.
  induction a as [|x a IH]; intros Ha Hb Hab; [exact Hb|].
  inversion Ha as [|? ? Hx Ha']; subst. cbn [app]. constructor.
  - apply Forall_app. split; [exact Hx|]. apply Forall_forall. intros y Hy. apply Hab; [now left|exact Hy].
  - apply IH; [exact Ha'|exact Hb|]. intros u v Hu Hv. apply Hab; [now right|exact Hv].
Qed.

Lemma FOP_app_inv {A} (R : A -> A -> Prop) a b :
  ForallOrdPairs R (a ++ b) ->
  ForallOrdPairs R a /\ ForallOrdPairs R b /\ (forall x y, In x a -> In y b -> R x y).
Proof.
  induction a as [|x a IH]; intros H.
  - split; [constructor|]. split; [exact H|]. intros x y [].
  - cbn [app] in H. inversion H as [|? ? Hx Hl]; subst. destruct (IH Hl) as (H1 & H2 & H3).
    apply Forall_app in Hx. destruct Hx as [Hxa Hxb]. split; [now constructor|]. split; [exact H2|].
    intros u v [<-|Hu] Hv; [|now apply H3]. rewrite Forall_forall in Hxb. now apply Hxb.
Qed.

Lemma filter_map_comm {A B} (f : A -> B) (p : B -> bool) l : filter p (map f l) = map f (filter (fun x => p (f x)) l).
Proof. induction l as [|x l IH]; cbn [map filter]; [reflexivity|]. destruct (p (f x)); cbn [map]; now rewrite IH. Qed.

Lemma filter_filter {A} (p q : A -> bool) l : filter p (filter q l) = filter (fun x => q x && p x) l.
Proof.
  induction l as [|x l IH]; cbn [filter]; [reflexivity|].
  destruct (q x); cbn [filter andb]; [destruct (p x)|]; now rewrite IH.
Qed.

Lemma filter_ext_in' {A} (p q : A -> bool) l : (forall x, In x l -> p x = q x) -> filter p l = filter q l.
Proof.
  induction l as [|x l IH]; intros H; cbn [filter]; [reflexivity|].
  rewrite (H x (or_introl eq_refl)), IH; [reflexivity|]. intros y Hy. apply H. now right.
Qed.

Lemma filter_none {A} (p : A -> bool) l : (forall x, In x l -> p x = false) -> filter p l = [].
Proof.
  induction l as [|x l IH]; intros H; cbn [filter]; [reflexivity|].
  rewrite (H x (or_introl eq_refl)). apply IH. intros y Hy. apply H. now right.
Qed.

Lemma filter_concat {A} (p : A -> bool) ls : filter p (concat ls) = concat (map (filter p) ls).
Proof. induction ls as [|l ls IH]; cbn [concat map]; [reflexivity|]. now rewrite filter_app, IH. Qed.

(* ================================================================ message flags *)
Lemma is_note_set_time m t f : is_note (set_time m t f) = is_note m.
Proof. reflexivity. Qed.
Lemma nkey_set_time k m t f : nkey k (set_time m t f) = nkey k m.
Proof. reflexivity. Qed.
Lemma nkey_strip k m : nkey k (strip_time m) = nkey k m.
Proof. reflexivity. Qed.
Lemma note_not_internal m : is_note m = true -> is_internal m = false.
Proof. unfold is_note, is_on, is_off, is_internal, mtype_eqb. destruct (m_type m); cbn; congruence. Qed.
Lemma note_not_wait m : is_note m = true -> is_wait m = false.
Proof. unfold is_note, is_on, is_off, is_wait, mtype_eqb. destruct (m_type m); cbn; congruence. Qed.
Lemma nkey_note k m : nkey k m = true -> is_note m = true.
Proof. unfold nkey. intros H. now apply andb_prop in H. Qed.
Lemma is_note_on_off m : is_note m = true -> is_on m = false -> is_off m = true.
Proof. unfold is_note. intros H1 H2. now rewrite H2 in H1. Qed.
Lemma on_is_note m : is_on m = true -> is_note m = true.
Proof. unfold is_note. now intros ->. Qed.
Lemma off_is_note m : is_off m = true -> is_note m = true.
Proof. unfold is_note. intros ->. apply orb_true_r. Qed.
Lemma on_off_excl m : is_on m = true -> is_off m = false.
Proof. unfold is_on, is_off, mtype_eqb. destruct (m_type m); cbn; congruence. Qed.

(* ================================================================ signatures: basic equations *)
Lemma esig_app k a b : esig k (a ++ b) = esig k a ++ esig k b.
Proof. unfold esig. now rewrite filter_app, map_app. Qed.

Lemma asig_kp k a : asig k a = map sigm (kp k a).
Proof.
  unfold asig, esig, ev_abs, kp. rewrite filter_map_comm, map_map, filter_filter.
  cbn [snd]. erewrite filter_ext_in'.
  - apply map_ext. intros m. reflexivity.
  - intros m _. cbn beta. rewrite nkey_strip. destruct (nkey k m) eqn:E; [|apply andb_false_r].
    rewrite (note_not_internal m (nkey_note k m E)). reflexivity.
Qed.

Lemma asig_app k a b : asig k (a ++ b) = asig k a ++ asig k b.
Proof. unfold asig. now rewrite ev_abs_app, esig_app. Qed.

Lemma asig_concat k ls : asig k (concat ls) = concat (map (asig k) ls).
Proof. induction ls as [|l ls IH]; cbn [concat map]; [reflexivity|]. now rewrite asig_app, IH. Qed.

(* the signature of key (i, n) after set_channel i is the pitch signature of the raw track *)
Lemma esig_set_channel i n r : forall cur, esig (i, n) (ev_rel_from cur (set_channel r i)) = psig n cur r.
Proof.
  induction r as [|m r IH]; intros cur; [reflexivity|].
  cbn [set_channel map ev_rel_from psig]. fold (set_channel r i).
  change (is_wait (set_chan m i)) with (is_wait m). change (is_internal (set_chan m i)) with (is_internal m).
  change (m_time (set_chan m i)) with (m_time m).
  destruct (is_wait m) eqn:Ew; [apply IH|].
  assert (Hk : nkey (i, n) (strip_time (set_chan m i)) = is_note m && (n =? m_note m)).
  { unfold nkey, k2_eqb. cbn [fst snd strip_time set_time set_chan m_chan m_note].
    change (is_note (mkmsg _ _ _ _ _ _ _ _ _ _ _)) with (is_note m). now rewrite Z.eqb_refl. }
  destruct (is_internal m) eqn:Ei.
  - assert (is_note m = false) as Hn.
    { destruct (is_note m) eqn:E; [|reflexivity]. apply note_not_internal in E. congruence. }
    rewrite Hn. cbn [andb]. apply IH.
  - unfold esig. cbn [filter snd]. rewrite Hk.
    destruct (is_note m && (n =? m_note m)); [|apply IH]. cbn [map]. f_equal. apply IH.
Qed.

(* ================================================================ times of a relative track *)
Lemma psig_times n r : wfr r = true -> forall cur,
  Forall (fun e => cur <= s_time e) (psig n cur r) /\ ForallOrdPairs tle (psig n cur r).
Proof.
  induction r as [|m r IH]; intros Hw cur; [split; constructor|].
  cbn [wfr forallb] in Hw. apply andb_prop in Hw. destruct Hw as [Hm Hr]. specialize (IH Hr).
  cbn [psig]. destruct (is_wait m) eqn:Ew.
  - unfold wfr_msg in Hm. rewrite Ew in Hm. cbn in Hm. apply Z.leb_le in Hm.
    destruct (IH (cur + m_time m)) as [H1 H2]. split; [|exact H2].
    eapply Forall_impl; [|exact H1]. cbn beta. intros e He. lia.
  - destruct (IH cur) as [H1 H2]. destruct (is_note m && (n =? m_note m)); [|split; assumption].
    split.
    + constructor; [cbn; lia|exact H1].
    + constructor; [|exact H2]. eapply Forall_impl; [|exact H1]. intros e He. unfold tle. cbn. exact He.
Qed.

(* ================================================================ well-formed signatures are in sort order *)
Lemma srun_open_later a s st' :
  srun (SOpen a) s = Some st' -> ForallOrdPairs tle s -> Forall (fun e => a < s_time e) s.
Proof.
  destruct s as [|e s]; intros Hr Ht; [constructor|].
  cbn [srun] in Hr. unfold sstep in Hr. destruct (s_on e); [discriminate|].
  destruct (a <? s_time e) eqn:E; [|discriminate]. apply Z.ltb_lt in E.
  inversion Ht as [|? ? He _]; subst. constructor; [exact E|].
  eapply Forall_impl; [|exact He]. intros x Hx. unfold tle in Hx. lia.
Qed.

Lemma srun_sle s : forall st st', srun st s = Some st' -> ForallOrdPairs tle s -> ForallOrdPairs sle s.
Proof.
  induction s as [|e s IH]; intros st st' Hr Ht; [constructor|].
  inversion Ht as [|? ? He Hs]; subst.
  cbn [srun] in Hr. destruct (sstep st e) as [st1|] eqn:Es; [|discriminate].
  constructor; [|eapply IH; eassumption].
  unfold sstep in Es. destruct (s_on e) eqn:Eon.
  - assert (st1 = SOpen (s_time e)) as ->.
    { destruct st as [|a|b]; [now injection Es|discriminate|]. destruct (b <=? s_time e); [now injection Es|discriminate]. }
    pose proof (srun_open_later _ _ _ Hr Hs) as Hl.
    eapply Forall_impl; [|exact Hl]. intros x Hx. left. exact Hx.
  - eapply Forall_impl; [|exact He]. intros x Hx. unfold tle in Hx. unfold sle.
    destruct (Z.eq_dec (s_time e) (s_time x)); [right; split; [assumption|now left]|left; lia].
Qed.

Lemma sig_ok_sle s : sig_ok s = true -> ForallOrdPairs tle s -> ForallOrdPairs sle s.
Proof.
  unfold sig_ok. destruct (srun SNone s) as [st|] eqn:E; [|discriminate]. intros _. now apply srun_sle with SNone st.
Qed.

(* two messages of one key compare under key_le as their signature entries *)
Lemma key_le_sle k x y : nkey k x = true -> nkey k y = true -> sle (sigm x) (sigm y) -> key_le x y = true.
Proof.
  unfold nkey. intros Hx Hy H. apply andb_prop in Hx, Hy. destruct Hx as [Nx Kx], Hy as [Ny Ky].
  apply k2_eqb_eq in Kx, Ky. rewrite Kx in Ky. injection Ky as Hc Hn.
  unfold sle, sigm, s_time, s_on in H. cbn [fst snd] in H. unfold key_le.
  destruct (m_time x <? m_time y) eqn:E1; [reflexivity|]. apply Z.ltb_ge in E1.
  destruct H as [H|[Ht Hb]]; [lia|].
  rewrite Ht, Z.ltb_irrefl, Hc, Z.ltb_irrefl, Hn.
  unfold is_note, is_on, is_off, mtype_eqb in *.
  destruct (m_type x), (m_type y); cbn in *; try discriminate; try reflexivity; try (apply Z.leb_refl);
    destruct Hb; discriminate.
Qed.

Lemma kp_ordered k l : ForallOrdPairs sle (asig k l) -> ForallOrdPairs (fun x y => key_le x y = true) (kp k l).
Proof.
  rewrite asig_kp. apply FOP_map_inv. intros x y Hx Hy. unfold kp in Hx, Hy.
  apply filter_In in Hx, Hy. apply key_le_sle with k; tauto.
Qed.

(* ================================================================ sort_abs keeps an ordered sub-list in place *)
Lemma filter_ins_sorted_other (P : msg -> bool) x l : P x = false -> filter P (ins_sorted x l) = filter P l.
Proof.
  intros Hx. induction l as [|y l IH]; cbn [ins_sorted filter]; [now rewrite Hx|].
  destruct (key_le x y); cbn [filter]; [now rewrite Hx|]. now rewrite IH.
Qed.

Lemma filter_ins_sorted_first (P : msg -> bool) x l :
  P x = true -> (forall y, In y l -> P y = true -> key_le x y = true) -> filter P (ins_sorted x l) = x :: filter P l.
Proof.
  intros Hx. induction l as [|y l IH]; intros H; cbn [ins_sorted filter]; [now rewrite Hx|].
  destruct (key_le x y) eqn:E; cbn [filter]; [now rewrite Hx|].
  destruct (P y) eqn:Py; [rewrite (H y (or_introl eq_refl) Py) in E; discriminate|].
  apply IH. intros z Hz. apply H. now right.
Qed.

Lemma filter_sort_abs (P : msg -> bool) l :
  ForallOrdPairs (fun x y => key_le x y = true) (filter P l) -> filter P (sort_abs l) = filter P l.
Proof.
  induction l as [|x l IH]; intros H; [reflexivity|]. cbn [sort_abs filter] in *.
  destruct (P x) eqn:Px.
  - inversion H as [|? ? Hx Hl]; subst. rewrite filter_ins_sorted_first; [now rewrite IH|exact Px|].
    intros y Hy Py. rewrite Forall_forall in Hx. apply Hx. apply filter_In. split; [|exact Py].
    eapply Permutation_in; [symmetry; apply sort_abs_perm|exact Hy].
  - rewrite filter_ins_sorted_other by exact Px. now apply IH.
Qed.

Lemma filter_insort_other (P : msg -> bool) x l : P x = false -> filter P (insort x l) = filter P l.
Proof.
  intros Hx. induction l as [|y l IH]; cbn [insort filter]; [now rewrite Hx|].
  destruct (m_time x <? m_time y); cbn [filter]; [now rewrite Hx|]. now rewrite IH.
Qed.

Lemma asig_sort_abs k l : ForallOrdPairs sle (asig k l) -> asig k (sort_abs l) = asig k l.
Proof. intros H. rewrite !asig_kp. unfold kp. rewrite filter_sort_abs; [reflexivity|]. now apply kp_ordered. Qed.

Lemma asig_insort_internal k c t l : asig k (insort (mk_internal c t) l) = asig k l.
Proof. rewrite !asig_kp. unfold kp. now rewrite filter_insort_other. Qed.

(* ================================================================ stage: to_abs *)
Lemma asig_to_abs k l : ForallOrdPairs sle (esig k (ev_rel l)) -> asig k (to_abs l) = esig k (ev_rel l).
Proof.
  intros H. rewrite to_abs_unfold. cbv zeta. unfold ev_rel in *.
  rewrite <- (to_abs_aux_events l 0 false true) in *.
  set (x := to_abs_aux l 0 false true) in *. fold (asig k (ta_msgs x)) in *.
  destruct (ta_cap x); [|rewrite asig_insort_internal]; now apply asig_sort_abs.
Qed.

(* ================================================================ stage: to_rel and normalise, at the level of events *)
Lemma ev_rel_timed r : forall cur,
  ev_rel_from cur r =
  map (fun tm => (fst tm, strip_time (snd tm))) (filter (fun tm => negb (is_internal (snd tm))) (timed cur r)).
Proof.
  induction r as [|m r IH]; intros cur; [reflexivity|]. cbn [ev_rel_from timed].
  destruct (is_wait m); [apply IH|]. cbn [filter snd]. destruct (is_internal m); cbn [negb map fst snd]; now rewrite IH.
Qed.

(* alternation (C07's `alt`) is a function of the signature *)
Fixpoint alt_bits (opn : bool) (s : list sigent) : bool :=
  match s with
  | [] => negb opn
  | e :: s' => if s_on e then negb opn && alt_bits true s' else opn && alt_bits false s'
  end.

Lemma alt_esig k r : forall cur opn, alt k opn r = alt_bits opn (esig k (ev_rel_from cur r)).
Proof.
  induction r as [|m r IH]; intros cur opn; [reflexivity|]. cbn [alt ev_rel_from].
  unfold is_key. fold (nkey k m).
  destruct (is_wait m) eqn:Ew.
  - assert (is_on m = false /\ is_off m = false) as [-> ->].
    { unfold is_wait, is_on, is_off, mtype_eqb in *. destruct (m_type m); cbn in *; split; congruence. }
    rewrite !andb_false_r. apply IH.
  - destruct (is_internal m) eqn:Ei.
    + assert (is_on m = false /\ is_off m = false) as [-> ->].
      { unfold is_internal, is_on, is_off, mtype_eqb in *. destruct (m_type m); cbn in *; split; congruence. }
      rewrite !andb_false_r. apply IH.
    + unfold esig. cbn [filter snd]. rewrite nkey_strip. unfold nkey, is_note.
      destruct (k2_eqb k (m_chan m, m_note m)) eqn:Ek; cbn [andb].
      * destruct (is_on m) eqn:Eon; cbn [orb andb map alt_bits].
        -- change (s_on (sige (cur, strip_time m))) with (is_on m). rewrite Eon. f_equal. apply IH.
        -- destruct (is_off m) eqn:Eoff; cbn [andb map alt_bits]; [|apply IH].
           change (s_on (sige (cur, strip_time m))) with (is_on m). rewrite Eon. f_equal. apply IH.
      * rewrite andb_false_r. apply IH.
Qed.

Lemma srun_alt_bits s : forall st st', srun st s = Some st' -> sclosed st' = true -> alt_bits (negb (sclosed st)) s = true.
Proof.
  induction s as [|e s IH]; intros st st' Hr Hc; cbn [srun alt_bits] in *.
  - injection Hr as <-. now rewrite Hc.
  - destruct (sstep st e) as [st1|] eqn:Es; [|discriminate]. specialize (IH st1 st' Hr Hc).
    unfold sstep in Es. destruct (s_on e).
    + destruct st as [|a|b]; [injection Es as <-; exact IH|discriminate|].
      destruct (b <=? s_time e); [injection Es as <-; exact IH|discriminate].
    + destruct st as [|a|b]; [discriminate| |discriminate].
      destruct (a <? s_time e); [injection Es as <-; exact IH|discriminate].
Qed.

Lemma sig_ok_alt_bits s : sig_ok s = true -> alt_bits false s = true.
Proof.
  unfold sig_ok. destruct (srun SNone s) as [st|] eqn:E; [|discriminate]. intros H.
  exact (srun_alt_bits s SNone st E H).
Qed.

(* ---- which messages a stage can contain *)
Lemma to_abs_aux_In l : forall cur curf cap x,
  In x (ta_msgs (to_abs_aux l cur curf cap)) -> exists m t f, In m l /\ is_wait m = false /\ x = set_time m t f.
Proof.
  induction l as [|m l IH]; intros cur curf cap x H; [destruct H|].
  destruct (is_wait m) eqn:E.
  - rewrite to_abs_aux_wait in H by exact E. destruct (IH _ _ _ _ H) as (m' & t & f & H1 & H2 & H3).
    exists m', t, f. split; [now right|auto].
  - rewrite to_abs_aux_msg in H by exact E. unfold ta_msgs at 1 in H. cbn [fst] in H. destruct H as [<-|H].
    + exists m, cur, curf. split; [now left|auto].
    + destruct (IH _ _ _ _ H) as (m' & t & f & H1 & H2 & H3). exists m', t, f. split; [now right|auto].
Qed.

Lemma to_abs_In l x :
  In x (to_abs l) ->
  x = mk_internal (first_chan l) (dur_rel l) \/ exists m t f, In m l /\ is_wait m = false /\ x = set_time m t f.
Proof.
  rewrite to_abs_unfold. cbv zeta. intros H.
  assert (Hs : forall y, In y (sort_abs (ta_msgs (to_abs_aux l 0 false true))) ->
                         exists m t f, In m l /\ is_wait m = false /\ y = set_time m t f).
  { intros y Hy. eapply to_abs_aux_In. eapply Permutation_in; [symmetry; apply sort_abs_perm|exact Hy]. }
  destruct (ta_cap _).
  - right. now apply Hs.
  - eapply Permutation_in in H; [|symmetry; apply insort_perm]. destruct H as [<-|H].
    + left. rewrite to_abs_aux_clock. reflexivity.
    + right. now apply Hs.
Qed.

Lemma to_rel_aux_In l : forall cur curf x,
  In x (to_rel_aux l cur curf) -> is_wait x = true \/ exists m, In m l /\ is_internal m = false /\ x = strip_time m.
Proof.
  induction l as [|m l IH]; intros cur curf x H; [destruct H|].
  rewrite to_rel_aux_cons in H. apply in_app_or in H. destruct H as [H|H].
  - destruct (cur <? m_time m); [|destruct H]. destruct H as [<-|[]]. now left.
  - apply in_app_or in H. destruct H as [H|H].
    + destruct (is_internal m) eqn:Ei; [destruct H|]. destruct H as [<-|[]]. right. exists m. split; [now left|auto].
    + destruct (IH _ _ _ H) as [Hw|(m' & H1 & H2 & H3)]; [now left|]. right. exists m'. split; [now right|auto].
Qed.

Lemma timed_In r : forall cur t m, In (t, m) (timed cur r) -> In m r /\ is_wait m = false.
Proof.
  induction r as [|x r IH]; intros cur t m H; [destruct H|]. cbn [timed] in H.
  destruct (is_wait x) eqn:E.
  - destruct (IH _ _ _ H). split; [now right|assumption].
  - destruct H as [H|H]; [injection H as _ <-; split; [now left|exact E]|].
    destruct (IH _ _ _ H). split; [now right|assumption].
Qed.

Lemma In_timed r : forall cur m, In m r -> is_wait m = false -> exists t, In (t, m) (timed cur r).
Proof.
  induction r as [|x r IH]; intros cur m H Hw; [destruct H|]. cbn [timed].
  destruct H as [->|H].
  - rewrite Hw. exists cur. now left.
  - destruct (is_wait x); [now apply IH|]. destruct (IH cur m H Hw) as [t Ht]. exists t. now right.
Qed.

Lemma no_ts_ok r : (forall m, In m r -> is_ts m = false) -> forall prev, ts_ok prev r = true.
Proof.
  induction r as [|m r IH]; intros H prev; [reflexivity|]. cbn [ts_ok].
  rewrite (H m (or_introl eq_refl)). apply IH. intros x Hx. apply H. now right.
Qed.
Lemma no_ks_ok r : (forall m, In m r -> is_ks m = false) -> forall prev, ks_ok prev r = true.
Proof.
  induction r as [|m r IH]; intros H prev; [reflexivity|]. cbn [ks_ok].
  rewrite (H m (or_introl eq_refl)). apply IH. intros x Hx. apply H. now right.
Qed.

Lemma nonneg_waits_wfr r : nonneg_waits r = wfr r.
Proof. reflexivity. Qed.

(* ================================================================ time-signature messages *)
(* the TIME_SIGNATURE events of a list of timed events *)
Definition tsig (E : list event) : list event := filter (fun e => is_ts (snd e)) E.
Definition ats (a : list msg) : list event := tsig (ev_abs a).
Definition elt (a b : event) : Prop := fst a < fst b.

Lemma ts_not_internal m : is_ts m = true -> is_internal m = false.
Proof. unfold is_ts, is_internal, mtype_eqb. destruct (m_type m); cbn; congruence. Qed.
Lemma ts_not_wait m : is_ts m = true -> is_wait m = false.
Proof. unfold is_ts, is_wait, mtype_eqb. destruct (m_type m); cbn; congruence. Qed.
Lemma ts_not_note m : is_ts m = true -> is_note m = false.
Proof. unfold is_ts, is_note, is_on, is_off, mtype_eqb. destruct (m_type m); cbn; congruence. Qed.

Lemma tsig_app a b : tsig (a ++ b) = tsig a ++ tsig b.
Proof. apply filter_app. Qed.

Lemma ats_filter a : ats a = map (fun m => (m_time m, strip_time m)) (filter is_ts a).
Proof.
  unfold ats, tsig, ev_abs. rewrite filter_map_comm, filter_filter. cbn [snd]. f_equal.
  apply filter_ext_in'. intros m _. change (is_ts (strip_time m)) with (is_ts m).
  destruct (is_ts m) eqn:E; [|apply andb_false_r]. now rewrite (ts_not_internal m E).
Qed.

Lemma ats_app a b : ats (a ++ b) = ats a ++ ats b.
Proof. unfold ats. now rewrite ev_abs_app, tsig_app. Qed.

Lemma key_le_lt x y : m_time x < m_time y -> key_le x y = true.
Proof. intros H. unfold key_le. apply Z.ltb_lt in H. now rewrite H. Qed.

Lemma ats_sort_abs l : ForallOrdPairs elt (ats l) -> ats (sort_abs l) = ats l.
Proof.
  intros H. rewrite !ats_filter. rewrite filter_sort_abs; [reflexivity|].
  rewrite ats_filter in H. revert H. apply FOP_map_inv. intros x y _ _ Hxy. unfold elt in Hxy. cbn [fst] in Hxy.
  now apply key_le_lt.
Qed.

Lemma ats_insort_internal c t l : ats (insort (mk_internal c t) l) = ats l.
Proof. rewrite !ats_filter. now rewrite filter_insort_other. Qed.

Lemma ats_to_abs l : ForallOrdPairs elt (tsig (ev_rel l)) -> ats (to_abs l) = tsig (ev_rel l).
Proof.
  intros H. rewrite to_abs_unfold. cbv zeta. unfold ev_rel in *.
  rewrite <- (to_abs_aux_events l 0 false true) in *.
  set (x := to_abs_aux l 0 false true) in *. fold (ats (ta_msgs x)) in *.
  destruct (ta_cap x); [|rewrite ats_insort_internal]; now apply ats_sort_abs.
Qed.

(* `ts_ok` (C07: no repeated signature) is a function of the TIME_SIGNATURE events *)
Lemma ts_ok_tsig r : forall cur prev, ts_ok prev r = ts_ok prev (map snd (tsig (ev_rel_from cur r))).
Proof.
  induction r as [|m r IH]; intros cur prev; [reflexivity|]. cbn [ts_ok ev_rel_from].
  destruct (is_wait m) eqn:Ew.
  - assert (is_ts m = false) as -> by (destruct (is_ts m) eqn:E; [apply ts_not_wait in E; congruence|reflexivity]).
    apply IH.
  - destruct (is_internal m) eqn:Ei.
    + assert (is_ts m = false) as -> by (destruct (is_ts m) eqn:E; [apply ts_not_internal in E; congruence|reflexivity]).
      apply IH.
    + unfold tsig. cbn [filter snd]. change (is_ts (strip_time m)) with (is_ts m).
      destruct (is_ts m) eqn:Et; [|apply IH]. cbn [map snd ts_ok]. change (is_ts (strip_time m)) with (is_ts m).
      rewrite Et. change (m_num (strip_time m)) with (m_num m). change (m_den (strip_time m)) with (m_den m).
      f_equal. apply IH.
Qed.

(* the (tick, numerator, denominator) view *)
Definition tsv (E : list event) : list (Z * Z * Z) := map (fun e => (fst e, m_num (snd e), m_den (snd e))) (tsig E).

Lemma tsv_set_channel r i : forall cur, tsv (ev_rel_from cur (set_channel r i)) = tsv (ev_rel_from cur r).
Proof.
  induction r as [|m r IH]; intros cur; [reflexivity|]. cbn [set_channel map ev_rel_from]. fold (set_channel r i).
  change (is_wait (set_chan m i)) with (is_wait m). change (is_internal (set_chan m i)) with (is_internal m).
  change (m_time (set_chan m i)) with (m_time m).
  destruct (is_wait m); [apply IH|]. destruct (is_internal m); [apply IH|].
  unfold tsv, tsig in *. cbn [filter snd]. change (is_ts (strip_time (set_chan m i))) with (is_ts m).
  change (is_ts (strip_time m)) with (is_ts m). destruct (is_ts m); [|apply IH]. cbn [map fst snd]. f_equal. apply IH.
Qed.

Lemma ts_ok_set_channel r i : forall prev, ts_ok prev (set_channel r i) = ts_ok prev r.
Proof.
  induction r as [|m r IH]; intros prev; [reflexivity|]. cbn [set_channel map ts_ok]. fold (set_channel r i).
  change (is_ts (set_chan m i)) with (is_ts m). change (m_num (set_chan m i)) with (m_num m).
  change (m_den (set_chan m i)) with (m_den m). destruct (is_ts m); now rewrite IH.
Qed.

Lemma FOP_elt_tsv E : ForallOrdPairs (fun a b => fst (fst a) < fst (fst b)) (tsv E) -> ForallOrdPairs elt (tsig E).
Proof. unfold tsv. apply FOP_map_inv. intros x y _ _ H. exact H. Qed.
