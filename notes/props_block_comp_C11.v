
(* ================================================================ composition building (Model/Comp.v,
   Proofs/Comp_proofs.v):  ints_bar b := ints_seq (cb_seq b);  ints_track t := every bar of t is ints_bar;
   ints_comp c := every track of c is ints_track -- every stored list (both views, fresh or stale) of every bar's
   sequence has integer times only *)
From Model Require Import Comp.
From Proofs Require Import Comp_proofs.

(* clause "composition building": Composition.from_sequences on integer-tick sequences yields integer ticks in every
   bar (whatever the meta track index; bars shorter than their capacity are padded, tracks of unequal length get
   padding-only bars); the Bar constructor, Bar / Track / Composition copy, Bar.transpose (alone or applied to a bar
   inside a composition) keep them, and laying the bars end to end again (to_sequences) gives integer sequences *)
Theorem C11_comp :
  (forall rels meta c, intss rels = true -> comp_from_sequences rels meta = Ok c -> ints_comp c = true) /\
  (forall s num den key b, ints_seq s = true -> cbar_new s num den key = Ok b -> ints_bar b = true) /\
  (forall b b', ints_bar b = true -> cbar_copy b = Ok b' -> ints_bar b' = true) /\
  (forall b k b' f, ints_bar b = true -> cbar_transpose b k = Ok (b', f) -> ints_bar b' = true) /\
  (forall t t', ints_track t = true -> ctrack_copy t = Ok t' -> ints_track t' = true) /\
  (forall c c', ints_comp c = true -> comp_copy c = Ok c' -> ints_comp c' = true) /\
  (forall c ti bi k c', ints_comp c = true ->
     comp_on_bar c ti bi (fun b => do '(b', _) <- cbar_transpose b k; Ok b') = Ok c' -> ints_comp c' = true) /\
  (forall c ti bi c', ints_comp c = true -> comp_on_bar c ti bi cbar_copy = Ok c' -> ints_comp c' = true) /\
  (forall c ss, ints_comp c = true -> comp_to_sequences c = Ok ss -> ints_store ss = true).
Proof. exact Comp_proofs.C11_comp. Qed.
Print Assumptions C11_comp.

(* any bar operation that keeps integer ticks, applied to one bar of a composition, keeps ints_comp *)
Theorem C11_comp_on_bar : forall c ti bi f c',
  (forall b b', ints_bar b = true -> f b = Ok b' -> ints_bar b' = true) ->
  ints_comp c = true -> comp_on_bar c ti bi f = Ok c' -> ints_comp c' = true.
Proof. exact Comp_proofs.comp_on_bar_ints. Qed.
Print Assumptions C11_comp_on_bar.
