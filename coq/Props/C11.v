(* C11 -- Tick values stay integers through every operation.
   `m_tf m = true` means the Python time value of message m is a float.  Definitions (Proofs/C11_proofs.v):
     ints l       := forallb (fun m => negb (m_tf m)) l          every time of the list is an int
     intss ll     := forallb ints ll
     ints_seq s   := ints (s_abs s) && ints (s_rel s)             both stored views (fresh or stale) of an object
     ints_store   := forallb ints_seq
     op_ints o    := the literal messages carried by the operation o (ONewAbs, ONewRel, OAddAbs, OAddRel,
                     OConcatLit, OOverwriteAbs, OOverwriteRel) have integer times; all numeric arguments of the
                     model's operations are integers (Z) by construction
     digits_only s := s is non-empty and consists of the characters '0'..'9' only. *)
From Coq Require Import ZArith List Bool String.
From Model Require Import Base Seq Pairing Util Bars Store Tok.
From Proofs Require Import C11_proofs.
Import ListNotations.
Open Scope Z_scope.

(* value level: every sequence operation of the library maps integer-time lists to integer-time lists
   (conversion between the views, sorting, insertion, normalise, pad with an int length, set_channel, integer scale,
   transpose, split, merge, cutoff, quantise, quantise_note_lengths, Bar construction, bar splitting with either
   re-quantisation setting) *)
Theorem C11_list_ops :
  (forall l, ints l = true -> ints (to_abs l) = true) /\
  (forall l, ints l = true -> ints (to_rel l) = true) /\
  (forall l, ints l = true -> ints (sort_abs l) = true) /\
  (forall x l, intm x = true -> ints l = true -> ints (insort x l) = true) /\
  (forall l, ints l = true -> ints (normalise l) = true) /\
  (forall l p, ints l = true -> ints (pad l p false) = true) /\
  (forall l c, ints l = true -> ints (set_channel l c) = true) /\
  (forall l k, ints l = true -> ints (scale l k) = true) /\
  (forall l k, ints l = true -> ints (fst (transpose l k)) = true) /\
  (forall l caps, ints l = true -> intss (seq_split l caps) = true) /\
  (forall a os, ints a = true -> intss os = true -> ints (merge_abs a os) = true) /\
  (forall l mx red, ints l = true -> ints (cutoff l mx red) = true) /\
  (forall l steps r, ints l = true -> quantise l steps = Ok r -> ints r = true) /\
  (forall l values std dne, ints l = true -> ints (quantise_note_lengths l values std dne) = true) /\
  (forall r num den, ints r = true -> ints (fst (bar_init_full r num den)) = true) /\
  (forall rels meta qnl bars, intss rels = true -> split_bars rels meta qnl = Ok bars ->
     forallb (forallb (fun b => ints (b_rel b))) bars = true).
Proof. exact C11_proofs.C11_list_ops. Qed.
Print Assumptions C11_list_ops.

(* one public operation (any of the 36 constructors of `op`, i.e. including copy, concatenate, merge, split, bar
   construction / copy / splitting, transposition, cut-off, scaling, edits through the iterators, equals and the
   read-only getters) on a store of integer-time objects leaves every view of every object integer-typed *)
Theorem C11_step : forall st o, ints_store st = true -> op_ints o = true -> ints_store (fst (step st o)) = true.
Proof. exact C11_proofs.C11_step. Qed.
Print Assumptions C11_step.

(* all operation histories *)
Theorem C11_history : forall ops st, ints_store st = true -> forallb op_ints ops = true ->
  ints_store (fst (run st ops)) = true.
Proof. exact C11_proofs.C11_history. Qed.
Print Assumptions C11_history.

(* the message lists handed out by the `abs` / `rel` properties of an integer store are integer-typed *)
Theorem C11_read : forall st i, ints_store st = true ->
  (forall l, snd (step st (OReadAbs i)) = OMsgs l -> ints l = true) /\
  (forall l, snd (step st (OReadRel i)) = OMsgs l -> ints l = true).
Proof. exact C11_proofs.C11_read. Qed.
Print Assumptions C11_read.

(* every message produced by detokenise (any configuration, any token list) has an integer time *)
Theorem C11_detokenise : forall c ts seqs, detokenise c ts = Ok seqs ->
  forall l m, In l seqs -> In m l -> m_tf m = false.
Proof. exact C11_proofs.C11_detokenise. Qed.
Print Assumptions C11_detokenise.

(* the tokens that embed a tick value (rest and note-value tokens) render a non-negative value as prefix, "_" and
   decimal digits only -- no '.', no exponent *)
Theorem C11_tokens : forall v, 0 <= v ->
  (exists d, render_tok (TRest v) = (PFX_REST ++ "_" ++ d)%string /\ digits_only d = true) /\
  (exists d, render_tok (TVal v) = (PFX_VALUE ++ "_" ++ d)%string /\ digits_only d = true) /\
  no_dot (render_tok (TRest v)) = true /\ no_dot (render_tok (TVal v)) = true.
Proof. exact C11_proofs.C11_tokens. Qed.
Print Assumptions C11_tokens.

(* stronger on the "no float rendering" side: no token of any kind, whatever integer values it carries (fused note
   tokens and time signatures included), contains the character '.' *)
Theorem C11_tokens_no_dot : forall t, no_dot (render_tok t) = true.
Proof. exact C11_proofs.C11_tokens_no_dot. Qed.
Print Assumptions C11_tokens_no_dot.

(* ================================================================ composition building (Model/Comp.v,
   Proofs/Comp_proofs.v):  ints_bar b := ints_seq (cb_seq b);  ints_track t := every bar of t is ints_bar;
   ints_comp c := every track of c is ints_track -- every stored list (both views, fresh or stale) of every bar's
   sequence has integer times only *)
From Model Require Import Comp.
From Proofs Require Import Comp_proofs.

(* clause "composition building": Composition.from_sequences on integer-tick sequences yields integer ticks in every
   bar (whatever the meta track index; bars shorter than their capacity are padded, tracks of unequal length get
   padding-only bars); the Bar constructor, Bar / Track / Composition copy, Bar.transpose (alone or applied to a bar
   inside a composition) keep them, and laying the bars end to end again (to_sequences) gives integer sequences *)
Theorem C11_comp :
  (forall rels meta c, intss rels = true -> comp_from_sequences rels meta = Ok c -> ints_comp c = true) /\
  (forall s num den key b, ints_seq s = true -> cbar_new s num den key = Ok b -> ints_bar b = true) /\
  (forall b b', ints_bar b = true -> cbar_copy b = Ok b' -> ints_bar b' = true) /\
  (forall b k b' f, ints_bar b = true -> cbar_transpose b k = Ok (b', f) -> ints_bar b' = true) /\
  (forall t t', ints_track t = true -> ctrack_copy t = Ok t' -> ints_track t' = true) /\
  (forall c c', ints_comp c = true -> comp_copy c = Ok c' -> ints_comp c' = true) /\
  (forall c ti bi k c', ints_comp c = true ->
     comp_on_bar c ti bi (fun b => do '(b', _) <- cbar_transpose b k; Ok b') = Ok c' -> ints_comp c' = true) /\
  (forall c ti bi c', ints_comp c = true -> comp_on_bar c ti bi cbar_copy = Ok c' -> ints_comp c' = true) /\
  (forall c ss, ints_comp c = true -> comp_to_sequences c = Ok ss -> ints_store ss = true).
Proof. exact Comp_proofs.C11_comp. Qed.
Print Assumptions C11_comp.

(* any bar operation that keeps integer ticks, applied to one bar of a composition, keeps ints_comp *)
Theorem C11_comp_on_bar : forall c ti bi f c',
  (forall b b', ints_bar b = true -> f b = Ok b' -> ints_bar b' = true) ->
  ints_comp c = true -> comp_on_bar c ti bi f = Ok c' -> ints_comp c' = true.
Proof. exact Comp_proofs.comp_on_bar_ints. Qed.
Print Assumptions C11_comp_on_bar.
