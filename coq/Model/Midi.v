(* Midi.v -- saving to and loading from MIDI (scoda/midi/*.py, Sequence.sequences_save / sequences_load).
   mido's file codec is NOT modelled: a track is a list of events (kind, channel, fields, delta time) and writing
   then reading a file is assumed to return the same events for the kinds S-Coda writes (DESIGN section 7); the
   correspondence check always goes through real files. *)
From Model Require Export Store.

Inductive mkind : Set := MOn | MOff | MTs | MKs | MCc | MPc | MOther.
(* e_chan = -1 for meta messages (no channel attribute) *)
Record mev : Set := mkev { e_kind : mkind; e_chan : Z; e_a : Z; e_b : Z; e_key : string; e_dt : Z }.

(* ---------------------------------------------------------------- save: RelativeSequence.to_midi_track + MidiTrack.to_mido_track *)
Fixpoint to_events_aux (l : list msg) (buf : Z) : list mev :=
  match l with
  | [] => []
  | m :: l' =>
      let buf := buf + m_time m in
      match m_type m with
      | NOTE_ON => mkev MOn 0 (m_note m) (if Z.eqb (m_vel m) NONE then 127 else m_vel m) "" buf :: to_events_aux l' 0
      | NOTE_OFF => mkev MOff 0 (m_note m) 0 "" buf :: to_events_aux l' 0
      | TIME_SIGNATURE => mkev MTs (-1) (m_num m) (m_den m) "" buf :: to_events_aux l' 0
      | KEY_SIGNATURE => mkev MKs (-1) 0 0 (match m_key m with Some k => key_value k | None => "" end) buf :: to_events_aux l' 0
      | CONTROL_CHANGE => mkev MCc 0 (m_ctrl m) (m_vel m) "" buf :: to_events_aux l' 0
      | _ => to_events_aux l' buf
      end
  end.
Definition to_events (rel : list msg) : list mev := to_events_aux rel 0.

(* ---------------------------------------------------------------- load: MidiFile.convert *)
Fixpoint find_pos (i : Z) (l : list Z) (k : nat) : option nat :=
  match l with [] => None | x :: l' => if Z.eqb i x then Some k else find_pos i l' (S k) end.
(* first group containing i and the first position of i in it *)
Fixpoint locate (i : Z) (groups : list (list Z)) (g : nat) : option (nat * nat) :=
  match groups with
  | [] => None
  | grp :: r => match find_pos i grp O with Some p => Some (g, p) | None => locate i r (S g) end
  end.

Inductive target : Set := TOwn | TMeta.

Section Load.
  (* rounding of the exact rational position a/b (b > 0) to a tick; instantiated with round-half-even for
     execution, universally quantified (under |rnd a b - a/b| <= 1/2) in the theorems *)
  Variable rnd : Z -> Z -> Z.
  Variable tpb : Z.                (* ticks per beat of the file *)

  (* the messages one track produces, in order, each with its destination *)
  Fixpoint conv_track (evs : list mev) (cum : Z) (grouped : bool) : result (list (target * msg)) :=
    match evs with
    | [] => Ok []
    | e :: evs' =>
        let cum := cum + e_dt e in
        let t := rnd (cum * PPQN) tpb in
        let ch := if Z.eqb (e_chan e) (-1) then 0 else e_chan e in
        do rest <- conv_track evs' cum grouped;
        match e_kind e with
        | MOn => if 0 <? e_b e
                 then Ok (if grouped then (TOwn, mk_on ch (e_a e) (e_b e) t false) :: rest else rest)
                 else Ok (if grouped then (TOwn, mk_off ch (e_a e) t false) :: rest else rest)
        | MOff => Ok (if grouped then (TOwn, mk_off ch (e_a e) t false) :: rest else rest)
        | MTs => Ok ((TMeta, mk_ts ch (e_a e) (e_b e) t false) :: rest)
        | MKs => match dict_get String.eqb (e_key e) KeyKeyMapping with
                 | Some k => Ok ((TMeta, mk_ks ch (Some k) t false) :: rest)
                 | None => Err KeyErr
                 end
        | MCc => Ok ((TMeta, mk_cc ch (e_a e) (e_b e) t false) :: rest)
        | MPc => Ok ((TOwn, mk_pc ch (e_a e) t false) :: rest)
        | MOther => Ok rest
        end
    end.

  Record cstate : Set := mkcs { cs_seqs : list (list (list msg)); cs_meta : list msg }.

  Definition add_to (st : cstate) (loc : option (nat * nat)) (tm : target * msg) : cstate :=
    match fst tm, loc with
    | TOwn, Some (g, p) => mkcs (set_nth g (set_nth p (insort (snd tm))) (cs_seqs st)) (cs_meta st)
    | _, _ => mkcs (cs_seqs st) (insort (snd tm) (cs_meta st))
    end.

  Definition conv_all (tracks : list (list mev)) (groups : list (list Z)) (metas : list Z) : result cstate :=
    foldM (fun st (it : Z * list mev) =>
             let '(i, evs) := it in
             let loc := locate i groups O in
             match loc, memZ i metas with
             | None, false => Ok st
             | _, _ => do ms <- conv_track evs 0 (match loc with Some _ => true | None => false end);
                       Ok (fold_left (fun s tm => add_to s loc tm) ms st)
             end)
          (mapi (fun i t => (i, t)) tracks)
          (mkcs (map (fun g => map (fun _ => []) g) groups) []).

  (* first message with a channel among the considered tracks *)
  Definition default_channel (tracks : list (list mev)) (groups : list (list Z)) (metas : list Z) : Z :=
    let considered := flat_map (fun it : Z * list mev =>
                                  match locate (fst it) groups O, memZ (fst it) metas with
                                  | None, false => [] | _, _ => snd it end) (mapi (fun i t => (i, t)) tracks) in
    match find (fun e => negb (Z.eqb (e_chan e) (-1))) considered with Some e => e_chan e | None => 0 end.

  Definition merge_group (g : list (list msg)) : result seq :=
    do ss <- mapM (fun a => seq_normalise (seq_of_abs a)) g;
    match ss with
    | [] => Err IndexErr
    | s :: others => do '(m, _) <- seq_merge s others; Ok m
    end.

  Definition convert (tracks : list (list mev)) (groups : list (list Z)) (metas : list Z) (meta_index : Z)
    : result (list seq) :=
    do st <- conv_all tracks groups metas;
    do merged <- mapM merge_group (cs_seqs st);
    if (meta_index <? 0) || (lenZ merged <=? meta_index) then Err ValueErr else
    match nth_error merged (Z.to_nat meta_index) with
    | None => Err ValueErr
    | Some mt =>
        do '(mt1, _) <- seq_merge mt [seq_of_abs (cs_meta st)];
        do '(mt2, a) <- get_abs mt1;
        do mt3 <- (if existsb (fun m => is_ts m && Z.eqb (m_time m) 0) a then Ok mt2
                   else seq_add_abs mt2 (mk_ts (default_channel tracks groups metas) 4 4 0 false));
        Ok (set_nth (Z.to_nat meta_index) (fun _ => mt3) merged)
    end.
End Load.

Definition convert_exec := convert round_half_even.

(* sequences_save then sequences_load with default arguments (one group per track, every track a meta track) *)
Definition save_load (rels : list (list msg)) : result (list seq) :=
  let n := lenZ rels in
  convert_exec PPQN (map to_events rels) (map (fun i => [i]) (rangeZ_aux (length rels) 0)) (rangeZ_aux (length rels) 0) 0.
