(* C18 -- Pad, cut-off, integer scaling and channel assignment do exactly what they say.
   Vocabulary (Proofs/C18_proofs.v):
     waits_nonneg l   every WAIT message of the relative list l has time >= 0 (boolean)
     ticks l cur      the non-wait messages of l, in order, each paired with its accumulated tick (clock starts at cur)
     dur_rel l        (model) sum of the wait times = duration of the relative list
   Vocabulary for the cut-off clause (Proofs/C18_cutoff.v), l an absolute list:
     N k l            the NOTE_ON / NOTE_OFF messages of l with (channel, pitch) = k, in order
     cut_spec m r o s one pass over the sorted list s with the table o of currently open NOTE_ONs: a NOTE_OFF that
                      closes an open NOTE_ON more than m ticks earlier gets the time (onset + r); all else unchanged
     cut_key m r o L  the same on the list L of one key (o = its open NOTE_ON, if any)
     notes1 o L       (onset, duration, velocity) of the closed notes of L, by the library's matching rule: a NOTE_OFF
                      closes the latest NOTE_ON still open (this is what get_message_pairings does)
     shorten m r      (t, d, v) |-> (t, if m < d then r else d, v)
     wf_abs l         boolean: in sorted order, within every (channel, pitch) NOTE_ON and NOTE_OFF strictly alternate,
                      starting with NOTE_ON, every NOTE_OFF strictly later than its NOTE_ON
     pairs L          (onset, duration, velocity) of the adjacent (NOTE_ON, NOTE_OFF) pairs of L *)
From Coq Require Import ZArith List Bool.
From Model Require Import Base Seq Pairing.
From Proofs Require Import C18_proofs C18_cutoff.
Import ListNotations.
Open Scope Z_scope.

(* ---------------------------------------------------------------- channel assignment *)
(* clause "assigning a channel changes the channel of every event and nothing else": same length, and the i-th
   message of the result is the i-th input message with channel c and every other field identical *)
Theorem C18_set_channel : forall (l : list msg) (c : Z),
  length (set_channel l c) = length l /\
  forall i m', nth_error (set_channel l c) i = Some m' ->
    exists m, nth_error l i = Some m /\
      m_chan m' = c /\ m_type m' = m_type m /\ m_time m' = m_time m /\ m_tf m' = m_tf m /\
      m_note m' = m_note m /\ m_vel m' = m_vel m /\ m_ctrl m' = m_ctrl m /\ m_prog m' = m_prog m /\
      m_num m' = m_num m /\ m_den m' = m_den m /\ m_key m' = m_key m.
Proof. exact C18_proofs.C18_set_channel. Qed.
Print Assumptions C18_set_channel.

(* ... in particular no event moves and the duration is the same *)
Theorem C18_set_channel_ticks : forall (l : list msg) (c : Z) (cur : Z),
  ticks (set_channel l c) cur = map (fun p => (set_chan (fst p) c, snd p)) (ticks l cur) /\
  dur_rel (set_channel l c) = dur_rel l.
Proof. exact C18_proofs.C18_set_channel_ticks. Qed.
Print Assumptions C18_set_channel_ticks.

(* ---------------------------------------------------------------- integer scaling *)
(* clause "scaling by an integer k >= 1 ... changes nothing else": every wait time is multiplied by k, every other
   message is untouched (k = 1: identity) *)
Theorem C18_scale : forall (l : list msg) (k : Z), 1 <= k ->
  scale l k = map (fun m => if is_wait m then set_time m (m_time m * k) (m_tf m) else m) l.
Proof. exact C18_proofs.C18_scale_map. Qed.
Print Assumptions C18_scale.

(* clause "multiplies ... the total duration by k" *)
Theorem C18_scale_duration : forall (l : list msg) (k : Z), 1 <= k -> dur_rel (scale l k) = k * dur_rel l.
Proof. exact C18_proofs.C18_scale_duration. Qed.
Print Assumptions C18_scale_duration.

(* clause "multiplies every onset ... by k": the non-wait messages are the same, in the same order, and the
   accumulated tick of each is multiplied by k *)
Theorem C18_scale_ticks : forall (l : list msg) (k : Z), 1 <= k ->
  ticks (scale l k) 0 = map (fun p => (fst p, k * snd p)) (ticks l 0).
Proof. exact C18_proofs.C18_scale_ticks. Qed.
Print Assumptions C18_scale_ticks.

(* clause "multiplies every onset, every duration ... by k", on the model's own absolute view: the absolute list of
   the scaled sequence is the absolute list of the original with every time stamp multiplied by k (same order, same
   messages); a note's duration is the difference of its two stamps, so it is multiplied by k as well *)
Theorem C18_scale_abs : forall (l : list msg) (k : Z), 1 <= k ->
  to_abs (scale l k) = map (fun m => set_time m (k * m_time m) (m_tf m)) (to_abs l).
Proof. exact C18_proofs.C18_scale_abs. Qed.
Print Assumptions C18_scale_abs.

(* ---------------------------------------------------------------- pad *)
(* clause "padding to n leaves all events untouched and makes the duration max(old duration, n)", for relative lists
   whose waits are non-negative: the list is unchanged or gets one trailing wait; the non-wait messages and their
   ticks are the same; the duration is the maximum *)
Theorem C18_pad : forall (l : list msg) (p : Z) (pf : bool), waits_nonneg l = true ->
  (pad l p pf = l \/ exists w, is_wait w = true /\ pad l p pf = l ++ [w]) /\
  ticks (pad l p pf) 0 = ticks l 0 /\
  dur_rel (pad l p pf) = Z.max (dur_rel l) p.
Proof. exact C18_proofs.C18_pad. Qed.
Print Assumptions C18_pad.

(* exact form of the result *)
Theorem C18_pad_eq : forall (l : list msg) (p : Z) (pf : bool), waits_nonneg l = true ->
  pad l p pf = if dur_rel l <? p then l ++ [mk_wait (first_chan l) (p - dur_rel l) (pf || tf_rel l)] else l.
Proof. exact C18_proofs.C18_pad_eq. Qed.
Print Assumptions C18_pad_eq.

(* the hypothesis cannot be dropped: with a negative wait after the point where the running sum reaches n, pad does
   nothing although the duration is below n *)
Theorem C18_pad_needs_nonneg : exists l p, dur_rel (pad l p false) <> Z.max (dur_rel l) p.
Proof. exact C18_proofs.C18_pad_needs_nonneg. Qed.
Print Assumptions C18_pad_needs_nonneg.

(* ---------------------------------------------------------------- cut-off *)
(* For EVERY absolute list and all arguments: the pairing / index-update machinery of cutoff computes, position by
   position on the sorted input, exactly cut_spec; the result is that list sorted again. *)
Theorem C18_cutoff_spec : forall (l : list msg) (maxlen red : Z),
  cutoff l maxlen red = sort_abs (cut_spec maxlen red onone (sort_abs l)).
Proof. exact C18_cutoff.cutoff_spec. Qed.
Print Assumptions C18_cutoff_spec.

(* clause "cut-off with maximum m and replacement r <= m shortens exactly the notes longer than m to r and leaves
   every other note and every onset unchanged", for every absolute list (well-formed or not) and 0 < r <= m:
   same number of messages; the non-note messages are the same, in the same order; the NOTE_ON messages (all onsets,
   velocities) are the same, in the same order; for every (channel, pitch) the list of its note messages is the input's
   with exactly the NOTE_OFFs of too long notes moved to onset + r, and its notes (onset, duration, velocity) are the
   input's with every duration > m replaced by r *)
Theorem C18_cutoff : forall (l : list msg) (maxlen red : Z), 0 < red -> red <= maxlen ->
  length (cutoff l maxlen red) = length l /\
  filter (fun m => negb (is_note m)) (cutoff l maxlen red) = filter (fun m => negb (is_note m)) (sort_abs l) /\
  filter is_on (cutoff l maxlen red) = filter is_on (sort_abs l) /\
  forall k, N k (cutoff l maxlen red) = cut_key maxlen red None (N k (sort_abs l)) /\
            notes1 None (N k (cutoff l maxlen red)) = map (shorten maxlen red) (notes1 None (N k (sort_abs l))).
Proof. exact C18_cutoff.C18_cutoff. Qed.
Print Assumptions C18_cutoff.

(* on well-formed input the result is well-formed again, and the notes of each key, read off as adjacent
   (NOTE_ON, NOTE_OFF) pairs, are the input's with every duration > m replaced by r *)
Theorem C18_cutoff_wf : forall (l : list msg) (maxlen red : Z),
  wf_abs l = true -> 0 < red -> red <= maxlen -> wf_abs (cutoff l maxlen red) = true.
Proof. exact C18_cutoff.C18_cutoff_wf. Qed.
Print Assumptions C18_cutoff_wf.
Theorem C18_cutoff_pairs : forall (l : list msg) (maxlen red : Z) (k : k2),
  wf_abs l = true -> 0 < red -> red <= maxlen ->
  pairs (N k (cutoff l maxlen red)) = map (shorten maxlen red) (pairs (N k (sort_abs l))).
Proof. exact C18_cutoff.C18_cutoff_pairs. Qed.
Print Assumptions C18_cutoff_pairs.

(* parts that need no condition on the arguments at all *)
Theorem C18_cutoff_others : forall (l : list msg) (maxlen red : Z),
  length (cutoff l maxlen red) = length l /\
  filter (fun m => negb (is_off m)) (cutoff l maxlen red) = filter (fun m => negb (is_off m)) (sort_abs l).
Proof. intros l maxlen red. split; [apply C18_cutoff.C18_cutoff_length|apply C18_cutoff.C18_cutoff_others]. Qed.
Print Assumptions C18_cutoff_others.

(* both side conditions are needed, even on well-formed input: with r = 0 the shortened NOTE_OFF sorts before its
   NOTE_ON, with r > m it can overtake the next NOTE_ON of the same pitch; in both cases the result is ill-formed *)
Theorem C18_cutoff_needs_red_pos : exists l maxlen k,
  wf_abs l = true /\ N k (cutoff l maxlen 0) <> cut_key maxlen 0 None (N k (sort_abs l)) /\
  wf_abs (cutoff l maxlen 0) = false.
Proof. exact C18_cutoff.C18_cutoff_needs_red_pos. Qed.
Print Assumptions C18_cutoff_needs_red_pos.
Theorem C18_cutoff_needs_red_le : exists l maxlen red k,
  wf_abs l = true /\ 0 < red /\ N k (cutoff l maxlen red) <> cut_key maxlen red None (N k (sort_abs l)) /\
  wf_abs (cutoff l maxlen red) = false.
Proof. exact C18_cutoff.C18_cutoff_needs_red_le. Qed.
Print Assumptions C18_cutoff_needs_red_le.
