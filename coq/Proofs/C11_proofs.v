(* C11 -- Tick values stay integers through every operation.
   m_tf m = true means the Python time value of m is a float.  `ints l` says every message of l carries an
   integer-typed time.  All lemmas are about the executable model (Model/*.v). *)
From Coq Require Import ZArith List Bool Lia Ascii String.
From Model Require Import Base Seq Pairing Util Bars Store Tok.
Import ListNotations.
Open Scope Z_scope.

(* ---------------------------------------------------------------- predicates *)
Definition intm (m : msg) : bool := negb (m_tf m).
Definition ints (l : list msg) : bool := forallb (fun m => negb (m_tf m)) l.
Definition intss (ll : list (list msg)) : bool := forallb ints ll.
Definition ints_seq (s : seq) : bool := ints (s_abs s) && ints (s_rel s).
Definition ints_store (st : store) : bool := forallb ints_seq st.

Ltac btrue := repeat match goal with
  | H : _ && _ = true |- _ => apply andb_true_iff in H; destruct H
  | |- _ && _ = true => apply andb_true_iff; split
  end.

Lemma intm_tf m : intm m = true <-> m_tf m = false.
Proof. unfold intm. destruct (m_tf m); simpl; split; congruence. Qed.

Lemma ints_cons m l : ints (m :: l) = intm m && ints l.
Proof. reflexivity. Qed.
Lemma ints_app a b : ints (a ++ b) = ints a && ints b.
Proof. apply forallb_app. Qed.
Lemma ints_In l : ints l = true <-> (forall m, In m l -> intm m = true).
Proof. unfold ints. rewrite forallb_forall. reflexivity. Qed.
Lemma ints_Forall l : ints l = true -> Forall (fun m => intm m = true) l.
Proof. intro H. apply Forall_forall. apply ints_In. exact H. Qed.
Lemma ints_incl l l' : (forall m, In m l' -> In m l \/ intm m = true) -> ints l = true -> ints l' = true.
Proof.
  intros Hi Hl. apply ints_In. intros m Hm. destruct (Hi m Hm) as [H | H]; [| exact H].
  exact (proj1 (ints_In l) Hl m H).
Qed.
Lemma ints_map f l : (forall m, intm m = true -> intm (f m) = true) -> ints l = true -> ints (map f l) = true.
Proof.
  intros Hf. induction l as [| a l IH]; [reflexivity |]. cbn [map]. rewrite !ints_cons. intro H. btrue; auto.
Qed.
Lemma ints_map_any {A} (f : A -> msg) l : (forall x, intm (f x) = true) -> ints (map f l) = true.
Proof. intro Hf. induction l as [| a l IH]; [reflexivity |]. cbn [map]. rewrite ints_cons, Hf, IH. reflexivity. Qed.
Lemma ints_filter p l : ints l = true -> ints (filter p l) = true.
Proof. apply ints_incl. intros m Hm. left. apply filter_In in Hm. tauto. Qed.
Lemma ints_flat_map {A} (f : A -> list msg) l :
  (forall x, In x l -> ints (f x) = true) -> ints (flat_map f l) = true.
Proof.
  intro H. apply ints_In. intros m Hm. apply in_flat_map in Hm. destruct Hm as [x [Hx Hm]].
  exact (proj1 (ints_In _) (H x Hx) m Hm).
Qed.
Lemma ints_concat ll : intss ll = true -> ints (concat ll) = true.
Proof.
  induction ll as [| a ll IH]; [reflexivity |]. cbn [concat intss forallb]. intro H. btrue.
  rewrite ints_app. btrue; auto.
Qed.
Lemma intss_app a b : intss (a ++ b) = intss a && intss b.
Proof. apply forallb_app. Qed.
Lemma ints_firstn_skipn n l : ints l = true -> ints (firstn n l) = true /\ ints (skipn n l) = true.
Proof. intro H. rewrite <- (firstn_skipn n l), ints_app in H. btrue. auto. Qed.

Lemma fold_left_inv {A B} (P : A -> Prop) (Q : B -> Prop) (f : A -> B -> A) l :
  (forall a b, P a -> Q b -> P (f a b)) -> Forall Q l -> forall a, P a -> P (fold_left f l a).
Proof.
  intros Hf HQ. induction HQ as [| b l Hb _ IH]; intros a Ha; [exact Ha |]. cbn [fold_left]. apply IH. auto.
Qed.

Lemma set_nth_forallb {A} (P : A -> bool) f n : forall l,
  (forall x, P x = true -> P (f x) = true) -> forallb P l = true -> forallb P (set_nth n f l) = true.
Proof.
  intros l Hf. revert n. induction l as [| a l IH]; intros n H; [destruct n; exact H |].
  cbn [forallb] in H. btrue. destruct n; cbn [set_nth forallb]; btrue; auto.
Qed.

(* ---------------------------------------------------------------- Seq.v *)
Lemma ins_sorted_ints x l : intm x = true -> ints l = true -> ints (ins_sorted x l) = true.
Proof.
  intros Hx. induction l as [| y l IH]; intro Hl; cbn [ins_sorted].
  - rewrite ints_cons, Hx. reflexivity.
  - rewrite ints_cons in Hl. btrue. destruct (key_le x y); rewrite !ints_cons; btrue; auto.
Qed.
Lemma sort_abs_ints l : ints l = true -> ints (sort_abs l) = true.
Proof.
  induction l as [| x l IH]; intro H; [reflexivity |]. rewrite ints_cons in H. btrue.
  cbn [sort_abs]. apply ins_sorted_ints; auto.
Qed.
Lemma insort_ints x l : intm x = true -> ints l = true -> ints (insort x l) = true.
Proof.
  intros Hx. induction l as [| y l IH]; intro Hl; cbn [insort].
  - rewrite ints_cons, Hx. reflexivity.
  - rewrite ints_cons in Hl. btrue. destruct (m_time x <? m_time y); rewrite !ints_cons; btrue; auto.
Qed.

Lemma intm_set_time m t : intm (set_time m t false) = true.
Proof. reflexivity. Qed.

Lemma to_abs_aux_ints l : forall cur cap r c f k, ints l = true ->
  to_abs_aux l cur false cap = (r, c, f, k) -> ints r = true /\ f = false.
Proof.
  induction l as [| m l IH]; intros cur cap r c f k Hl E; cbn [to_abs_aux] in E.
  - inversion E; subst. split; reflexivity.
  - rewrite ints_cons in Hl. btrue. assert (Hm : m_tf m = false) by (apply intm_tf; assumption).
    destruct (is_wait m).
    + rewrite Hm in E. cbn [orb] in E. eapply IH; eauto.
    + destruct (to_abs_aux l cur false true) as [[[r1 c1] f1] k1] eqn:E1.
      inversion E; subst. destruct (IH _ _ _ _ _ _ H0 E1) as [Hr Hf]. split; [| exact Hf].
      rewrite ints_cons. btrue; auto.
Qed.
Lemma to_abs_ints l : ints l = true -> ints (to_abs l) = true.
Proof.
  intro Hl. unfold to_abs. destruct (to_abs_aux l 0 false true) as [[[r c] f] k] eqn:E.
  destruct (to_abs_aux_ints _ _ _ _ _ _ _ Hl E) as [Hr _].
  destruct k; [apply sort_abs_ints; exact Hr |]. apply insort_ints; [reflexivity | apply sort_abs_ints; exact Hr].
Qed.

Lemma to_rel_aux_ints l : forall cur, ints l = true -> ints (to_rel_aux l cur false) = true.
Proof.
  induction l as [| m l IH]; intros cur Hl; [reflexivity |]. rewrite ints_cons in Hl. btrue.
  assert (Hm : m_tf m = false) by (apply intm_tf; assumption).
  cbn [to_rel_aux]. rewrite Hm. cbn [orb]. rewrite !ints_app.
  assert (E : (if cur <? m_time m then false else false) = false) by (destruct (cur <? m_time m); reflexivity).
  rewrite E. btrue.
  - destruct (cur <? m_time m); reflexivity.
  - destruct (mtype_eqb (m_type m) INTERNAL); reflexivity.
  - apply IH; assumption.
Qed.
Lemma to_rel_ints l : ints l = true -> ints (to_rel l) = true.
Proof. apply to_rel_aux_ints. Qed.

(* normalise *)
Definition nint (s : nstate) : bool := ints (n_out s) && negb (n_waitf s).
Lemma flush_nint s c m : nint s = true -> intm m = true -> nint (flush s c m) = true.
Proof.
  unfold nint, flush. intros H Hm. apply andb_true_iff in H. destruct H as [H H2].
  destruct (n_waitf s) eqn:Ew; [discriminate |].
  destruct (0 <? n_wait s); cbn [n_out n_waitf]; rewrite ?ints_app, ?ints_cons, ?H, ?Hm; reflexivity.
Qed.
Lemma nstep_nint s m : nint s = true -> intm m = true -> nint (nstep s m) = true.
Proof.
  intros H Hm. assert (Hf : m_tf m = false) by (apply intm_tf; assumption).
  assert (Hopen : forall o ts ky, nint (mkn o (n_out s) (n_wait s) (n_waitf s) ts ky) = true) by (intros; exact H).
  unfold nstep. destruct (m_type m); try (apply flush_nint; assumption).
  - destruct (okey_eqb (m_key m) (n_key s)); [exact H | apply flush_nint; auto].
  - destruct (_ && _); [exact H | apply flush_nint; auto].
  - destruct (depth _ _) as [| d]; [exact H |]. destruct d; [apply flush_nint; auto | apply Hopen].
  - destruct (depth _ _) as [| d]; [apply flush_nint; auto | apply Hopen].
  - unfold nint in *. cbn [n_out n_waitf]. rewrite Hf. apply andb_true_iff in H. destruct H as [H1 H2].
    rewrite H1. destruct (n_waitf s); [discriminate | reflexivity].
Qed.
Lemma remove_last_on_ints k l : ints l = true -> ints (fst (remove_last_on k l)) = true.
Proof.
  induction l as [| m l IH]; intro H; [reflexivity |]. rewrite ints_cons in H. btrue.
  cbn [remove_last_on]. destruct (remove_last_on k l) as [r found]. cbn [fst] in IH.
  destruct found; [cbn [fst]; rewrite ints_cons; btrue; auto |].
  destruct (is_on m && k2_eqb k (m_chan m, m_note m)); cbn [fst]; rewrite ?ints_cons; btrue; auto.
Qed.
Lemma cleanup_ints o out : ints out = true -> ints (cleanup o out) = true.
Proof.
  unfold cleanup. intro H.
  apply (fold_left_inv (fun acc => ints acc = true) (fun _ : k2 * nat => True)); auto.
  - intros a b Ha _. destruct (snd b); [exact Ha | apply remove_last_on_ints; exact Ha].
  - apply Forall_forall. auto.
Qed.
Lemma normalise_ints l : ints l = true -> ints (normalise l) = true.
Proof.
  intro H. unfold normalise.
  assert (Hs : nint (fold_left nstep l (mkn [] [] 0 false (NONE, NONE) None)) = true).
  { apply (fold_left_inv (fun s => nint s = true) (fun m => intm m = true)).
    - intros; apply nstep_nint; assumption.
    - apply ints_Forall; exact H.
    - reflexivity. }
  set (s := fold_left nstep l _) in *. unfold nint in Hs. btrue. apply cleanup_ints.
  destruct (0 <? n_wait s); [| assumption]. rewrite ints_app, ints_cons. btrue; auto.
Qed.

(* pad *)
Lemma pad_len_ints l : forall cur p c f, ints l = true -> pad_len l cur false p = (c, f) -> f = false.
Proof.
  induction l as [| m l IH]; intros cur p c f Hl E; cbn [pad_len] in E; [inversion E; reflexivity |].
  rewrite ints_cons in Hl. btrue. assert (Hm : m_tf m = false) by (apply intm_tf; assumption).
  rewrite Hm in E. cbn [orb] in E. destruct (is_wait m); [| eauto].
  destruct (p <=? cur + m_time m); [inversion E; reflexivity | eauto].
Qed.
Lemma pad_ints l p : ints l = true -> ints (pad l p false) = true.
Proof.
  intro H. unfold pad. destruct (pad_len l 0 false p) as [c f] eqn:E.
  rewrite (pad_len_ints _ _ _ _ _ H E). destruct (c <? p); [| exact H].
  rewrite ints_app, H. reflexivity.
Qed.
Lemma set_channel_ints l c : ints l = true -> ints (set_channel l c) = true.
Proof. apply ints_map. intros m Hm. exact Hm. Qed.
Lemma scale_ints l k : ints l = true -> ints (scale l k) = true.
Proof.
  intro H. unfold scale. destruct (k =? 1); [exact H |]. revert H. apply ints_map.
  intros m Hm. destruct (is_wait m); exact Hm.
Qed.
Lemma transpose_ints l k : ints l = true -> ints (fst (transpose l k)) = true.
Proof.
  intro H. unfold transpose. cbn [fst]. rewrite map_map. revert H. apply ints_map.
  intros m Hm. unfold transpose_msg. destruct (is_note m); [exact Hm |].
  destruct (mtype_eqb _ _); exact Hm.
Qed.
Lemma merge_abs_ints a os : ints a = true -> intss os = true -> ints (merge_abs a os) = true.
Proof. intros Ha Ho. unfold merge_abs. apply sort_abs_ints. rewrite ints_app. btrue; auto using ints_concat. Qed.

(* split *)
Definition sres_ints (r : split_res) : bool :=
  match r with SEnd cur _ => ints cur | SCut cur _ wm => ints cur && ints wm end.
Lemma split_inner_ints wm : forall cur opn q rem, ints wm = true -> ints cur = true -> ints q = true ->
  sres_ints (split_inner wm cur opn q rem) = true.
Proof.
  induction wm as [| m wm IH]; intros cur opn q rem Hw Hc Hq; cbn [split_inner]; [exact Hc |].
  rewrite ints_cons in Hw. btrue.
  assert (Hcm : ints (cur ++ [m]) = true) by (rewrite ints_app, ints_cons; btrue; auto).
  assert (Hqm : ints (q ++ [m]) = true) by (rewrite ints_app, ints_cons; btrue; auto).
  destruct (m_type m); try (destruct (0 <? rem); apply IH; assumption); try (apply IH; assumption).
  destruct (m_time m <=? rem); [apply IH; assumption |].
  cbn [sres_ints]. btrue.
  - rewrite ints_app. btrue; [destruct (0 <? rem); [rewrite ints_app; btrue; auto | exact Hc] |].
    apply ints_map_any. reflexivity.
  - rewrite !ints_app. btrue; auto. + apply ints_map_any. reflexivity.
    + cbn [ints forallb mk_wait m_tf]. fold (intm m). rewrite H. reflexivity.
Qed.
Lemma split_outer_ints caps : forall wm cur opn acc acc' wm' cur',
  ints wm = true -> ints cur = true -> intss acc = true ->
  split_outer caps wm cur opn acc = (acc', wm', cur') ->
  intss acc' = true /\ ints wm' = true /\ ints cur' = true.
Proof.
  induction caps as [| c caps IH]; intros wm cur opn acc acc' wm' cur' Hw Hc Ha E; cbn [split_outer] in E.
  - inversion E; subst. auto.
  - pose proof (split_inner_ints wm cur opn [] c Hw Hc eq_refl) as Hi.
    destruct (split_inner wm cur opn [] c) as [cur1 opn1 | cur1 opn1 wm1]; cbn [sres_ints] in Hi; btrue.
    + eapply IH; [| | | exact E]; try reflexivity.
      destruct cur1; [exact Ha |]. rewrite intss_app. btrue; auto. cbn [intss forallb]. rewrite Hi. reflexivity.
    + eapply IH; [| | | exact E]; try reflexivity; auto.
      destruct cur1; [exact Ha |]. rewrite intss_app. btrue; auto. cbn [intss forallb]. rewrite H. reflexivity.
Qed.
Lemma seq_split_ints l caps : ints l = true -> intss (seq_split l caps) = true.
Proof.
  intro H. unfold seq_split. destruct (split_outer caps l [] [] []) as [[acc wm] cur] eqn:E.
  destruct (split_outer_ints caps l [] [] [] acc wm cur H eq_refl eq_refl E) as [Ha [Hw Hc]].
  assert (Hcw : ints (cur ++ wm) = true) by (rewrite ints_app; btrue; auto).
  destruct (cur ++ wm); [exact Ha |]. rewrite intss_app. btrue; auto. cbn [intss forallb]. rewrite Hcw. reflexivity.
Qed.

(* ---------------------------------------------------------------- Pairing.v *)
(* generic facts on insertion-ordered dictionaries *)
Section DictAll.
  Context {K V : Type} (eqb : K -> K -> bool) (P : V -> bool).
  Definition dall (d : list (K * V)) : bool := forallb (fun kv => P (snd kv)) d.
  Lemma dget_dall k d v : dall d = true -> dget eqb k d = Some v -> P v = true.
  Proof.
    induction d as [| [k' v'] d IH]; cbn [dget dall forallb snd]; intros H E; [discriminate |].
    apply andb_true_iff in H. destruct H as [H1 H2]. destruct (eqb k k'); [inversion E; subst; exact H1 | auto].
  Qed.
  Lemma dset_dall k v d : dall d = true -> P v = true -> dall (dset eqb k v d) = true.
  Proof.
    intros H Hv. induction d as [| [k' v'] d IH]; cbn [dset dall forallb snd]; [rewrite Hv; reflexivity |].
    cbn [dall forallb snd] in H. apply andb_true_iff in H. destruct H as [H1 H2].
    destruct (eqb k k'); cbn [forallb snd]; apply andb_true_iff; split; auto.
  Qed.
End DictAll.

Definition pint (p : pairing) : bool :=
  intm (p_first p) && match snd p with Some (_, o) => intm o | None => true end.
Definition chints (c : chst) : bool := forallb pint (c_pairs c).

Lemma index_from_In {A} (l : list A) : forall i j x, In (j, x) (index_from i l) -> In x l.
Proof.
  induction l as [| a l IH]; intros i j x H; cbn [index_from] in H; [contradiction |].
  destruct H as [H | H]; [inversion H; left; reflexivity | right; eauto].
Qed.

Lemma pair_step_ints types impute st im :
  dall chints st = true -> intm (snd im) = true -> dall chints (pair_step types impute st im) = true.
Proof.
  destruct im as [i m]. cbn [snd]. intros Hst Hm. unfold pair_step.
  destruct (negb (tmem (m_type m) types)); [exact Hst |].
  apply dset_dall; [exact Hst |].
  assert (Hcs : chints (match dget Z.eqb (m_chan m) st with Some c => c | None => mkch [] [] end) = true).
  { destruct (dget Z.eqb (m_chan m) st) eqn:E; [eapply dget_dall; eauto | reflexivity]. }
  set (cs := match dget Z.eqb (m_chan m) st with Some c => c | None => mkch [] [] end) in *.
  assert (Hnew : pint ((i, m), None) = true) by (unfold pint, p_first; cbn [fst snd]; rewrite Hm; reflexivity).
  assert (Happ : forall c, chints c = true -> forall o, chints (mkch (c_pairs c ++ [((i, m), None)]) o) = true).
  { intros c Hc o. unfold chints in *. cbn [c_pairs]. rewrite forallb_app, Hc. cbn [forallb]. rewrite Hnew. reflexivity. }
  assert (Hclose : forall idx c, intm (snd c) = true ->
            forallb pint (set_nth idx (close_with c) (c_pairs cs)) = true).
  { intros idx c Hc. apply set_nth_forallb; [| exact Hcs]. intros p Hp. unfold pint, close_with, p_first in *.
    cbn [fst snd]. apply andb_true_iff in Hp. destruct Hp as [Hp _]. rewrite Hp. destruct c; exact Hc. }
  destruct (m_type m); try (apply Happ; exact Hcs).
  - destruct (dget Z.eqb (m_note m) (c_open cs)); [| exact Hcs]. unfold chints. cbn [c_pairs]. apply Hclose. exact Hm.
  - apply Happ. destruct (dget Z.eqb (m_note m) (c_open cs)); [| exact Hcs].
    destruct impute; [| exact Hcs]. unfold chints. cbn [c_pairs]. apply Hclose. exact Hm.
Qed.

Lemma pairings_sorted_ints types std impute s : ints s = true ->
  forallb (fun kv => forallb pint (snd kv)) (pairings_sorted types std impute s) = true.
Proof.
  intro H. unfold pairings_sorted.
  assert (Hst : dall chints (fold_left (pair_step types impute) (index_from 0 s) []) = true).
  { apply (fold_left_inv (fun st => dall chints st = true) (fun im : nat * msg => intm (snd im) = true)).
    - intros; apply pair_step_ints; assumption.
    - apply Forall_forall. intros [j x] Hx. cbn [snd]. apply index_from_In in Hx.
      exact (proj1 (ints_In s) H x Hx).
    - reflexivity. }
  set (st := fold_left _ _ _) in *. clearbody st. induction st as [| [k c] st IH]; [reflexivity |].
  cbn [dall forallb snd] in Hst. apply andb_true_iff in Hst. destruct Hst as [H1 H2].
  cbn [map forallb snd fst]. apply andb_true_iff. split; [| apply IH; exact H2].
  unfold chints in H1. clear - H1. induction (c_pairs c) as [| p ps IHp]; [reflexivity |].
  cbn [forallb] in H1. apply andb_true_iff in H1. destruct H1 as [Hp Hps].
  cbn [map forallb]. apply andb_true_iff. split; [| auto].
  unfold impute_close. destruct (snd p) eqn:Es; [exact Hp |].
  destruct (impute && is_on (p_first p)); [| exact Hp].
  unfold pint, p_first in *. cbn [fst snd]. apply andb_true_iff in Hp. destruct Hp as [Hp _]. rewrite Hp. exact Hp.
Qed.

Lemma pairings_In types std impute s k ps p : ints s = true ->
  In (k, ps) (pairings_sorted types std impute s) -> In p ps -> pint p = true.
Proof.
  intros H Hk Hp. pose proof (pairings_sorted_ints types std impute s H) as Hall.
  rewrite forallb_forall in Hall. specialize (Hall _ Hk). cbn [snd] in Hall.
  rewrite forallb_forall in Hall. auto.
Qed.

Lemma lookup_nat_In {V} i (l : list (nat * V)) v : lookup_nat i l = Some v -> In (i, v) l.
Proof.
  induction l as [| [j w] l IH]; cbn [lookup_nat]; intro E; [discriminate |].
  destruct (Nat.eqb i j) eqn:Eij; [apply Nat.eqb_eq in Eij; inversion E; subst; left; reflexivity | right; auto].
Qed.

Lemma cutoff_ints l mx red : ints l = true -> ints (cutoff l mx red) = true.
Proof.
  intro H. unfold cutoff. apply sort_abs_ints. pose proof (sort_abs_ints l H) as Hs.
  set (s := sort_abs l) in *. apply ints_In. intros m Hm. apply in_map_iff in Hm.
  destruct Hm as [[i x] [Ex Hx]]. cbn [fst snd] in Ex. apply index_from_In in Hx.
  pose proof (proj1 (ints_In s) Hs x Hx) as Hxi.
  destruct (lookup_nat i _) as [[t f] |] eqn:El; [| subst; exact Hxi].
  apply lookup_nat_In in El. unfold cutoff_updates in El. apply in_flat_map in El.
  destruct El as [[k ps] [Hk El]]. cbn [snd] in El. apply in_flat_map in El. destruct El as [p [Hp El]].
  pose proof (pairings_In _ _ _ _ _ _ _ Hs Hk Hp) as Hpi.
  destruct (snd p) as [[[j |] off] |]; try contradiction.
  destruct (mx <? _); [| contradiction]. destruct El as [El | []]. inversion El; subst.
  unfold pint in Hpi. apply andb_true_iff in Hpi. destruct Hpi as [Hpi _]. exact Hpi.
Qed.

Lemma qnl_channel_ints values dne l : forallb pint l = true -> ints (qnl_channel values dne l) = true.
Proof.
  induction l as [| p l IH]; intro H; [reflexivity |]. cbn [forallb] in H. apply andb_true_iff in H.
  destruct H as [Hp Hl]. specialize (IH Hl). cbn [qnl_channel].
  unfold pint in Hp. apply andb_true_iff in Hp. destruct Hp as [Hp1 Hp2].
  destruct (qnl_valid _ _ _ _); [exact IH |].
  destruct (snd p) as [[j off] |]; rewrite !ints_cons; rewrite ?Hp1, ?IH; [| reflexivity].
  unfold intm in *. cbn [set_time m_tf]. rewrite Hp2. reflexivity.
Qed.
Lemma quantise_note_lengths_ints l values std dne :
  ints l = true -> ints (quantise_note_lengths l values std dne) = true.
Proof.
  intro H. unfold quantise_note_lengths. pose proof (sort_abs_ints l H) as Hs.
  apply sort_abs_ints. rewrite ints_app. apply andb_true_iff. split; [| apply ints_filter; exact Hs].
  apply ints_flat_map. intros [k ps] Hk. cbn [snd]. apply qnl_channel_ints.
  apply forallb_forall. intros p Hp. eapply pairings_In; eauto.
Qed.

Lemma qstep_ints steps s m : ints (q_out s) = true -> intm m = true -> ints (q_out (qstep steps s m)) = true.
Proof.
  intros H Hm. unfold qstep.
  assert (Hadd : forall x, intm x = true -> ints (q_out s ++ [x]) = true)
    by (intros x Hx; rewrite ints_app, ints_cons, H, Hx; reflexivity).
  destruct (m_type m); try (cbn [q_out]; apply Hadd; exact Hm).
  - destruct (dget k2_eqb _ (q_open s)); [| exact H]. cbn [q_out]. apply Hadd. exact Hm.
  - set (s1 := match dget k2_eqb (m_chan m, m_note m) (q_open s) with Some _ => _ | None => s end).
    assert (H1 : ints (q_out s1) = true).
    { unfold s1. destruct (dget k2_eqb _ (q_open s)); [| exact H]. cbn [q_out]. apply Hadd. exact Hm. }
    destruct (match dget k2_eqb _ (q_tim s1) with None => true | Some l => _ end); [| exact H1].
    cbn [q_out]. rewrite ints_app, ints_cons, H1. unfold intm in *. cbn [set_time m_tf]. rewrite Hm. reflexivity.
Qed.
Lemma remove_indices_In {A} (l : list A) idx x : In x (remove_indices l idx) -> In x l.
Proof.
  unfold remove_indices. intro H. apply in_map_iff in H. destruct H as [[i y] [E H]]. cbn [snd] in E. subst.
  apply filter_In in H. destruct H as [H _]. eapply index_from_In; eauto.
Qed.
Lemma quantise_ints l steps r : ints l = true -> quantise l steps = Ok r -> ints r = true.
Proof.
  intros H E. unfold quantise in E. destruct steps as [| st steps].
  - destruct l; inversion E. reflexivity.
  - inversion E; subst. clear E. apply sort_abs_ints.
    set (s := fold_left _ _ _).
    assert (Hs : ints (q_out s) = true).
    { apply (fold_left_inv (fun s => ints (q_out s) = true) (fun m => intm m = true)).
      - intros; apply qstep_ints; assumption.
      - apply ints_Forall; exact H.
      - reflexivity. }
    revert Hs. apply ints_incl. intros m Hm. left. eapply remove_indices_In; eauto.
Qed.

(* ---------------------------------------------------------------- Bars.v *)
Lemma bar_init_full_ints r num den : ints r = true -> ints (fst (bar_init_full r num den)) = true.
Proof.
  intro H. unfold bar_init_full. pose proof (normalise_ints r H) as Hn.
  set (n := normalise r) in *. destruct (bar_capacity num den <? dur_rel n); [exact Hn |].
  assert (Hp : ints (if dur_rel n <? bar_capacity num den then pad n (bar_capacity num den) false else n) = true).
  { destruct (dur_rel n <? bar_capacity num den); [apply pad_ints |]; exact Hn. }
  set (p := if dur_rel n <? bar_capacity num den then _ else n) in *.
  destruct (1 <? lenZ (filter is_ts p)); [exact Hp |].
  destruct (negb _); [exact Hp |]. cbn [fst]. rewrite ints_cons. apply ints_filter. exact Hp.
Qed.
Lemma bar_init_ints r num den r' : ints r = true -> bar_init r num den = Ok r' -> ints r' = true.
Proof.
  intros H E. unfold bar_init in E. pose proof (bar_init_full_ints r num den H) as Hf.
  destruct (bar_init_full r num den) as [x [e |]]; inversion E; subst. exact Hf.
Qed.

Definition bars_ints (bs : list bar) : bool := forallb (fun b => ints (b_rel b)) bs.

Lemma sb_track_ints qnl len rel : ints rel = true ->
  ints (fst (fst (sb_track qnl len rel))) = true /\ ints (snd (fst (sb_track qnl len rel))) = true.
Proof.
  intro H. unfold sb_track. pose proof (seq_split_ints rel [len] H) as Hs.
  assert (Hq : forall p0, ints p0 = true ->
     ints (if qnl then to_rel (quantise_note_lengths (to_abs p0) get_default_note_values PPQN true) else p0) = true).
  { intros p0 Hp. destruct qnl; [| exact Hp]. apply to_rel_ints, quantise_note_lengths_ints, to_abs_ints, Hp. }
  destruct (seq_split rel [len]) as [| p0 [| p1 rest]]; cbn [intss forallb] in Hs; cbn [fst snd].
  - split; [apply Hq |]; reflexivity.
  - btrue. split; [apply Hq; assumption | reflexivity].
  - btrue. split; [apply Hq; assumption | assumption].
Qed.

Lemma collect_bars_ints num den key (bars : list (result (list msg))) : forall newbars,
  fold_right (fun b acc' => match b, acc' with
                            | Ok r, Ok l => Ok (mkbar r num den key :: l)
                            | Err e, _ => Err e
                            | _, Err e => Err e end) (Ok []) bars = Ok newbars ->
  (forall r, In (Ok r) bars -> ints r = true) -> bars_ints newbars = true.
Proof.
  induction bars as [| b bars IH]; intros newbars E Hb; cbn [fold_right] in E.
  - inversion E. reflexivity.
  - destruct b as [r | e]; [| discriminate].
    destruct (fold_right _ _ bars) as [l | e]; [| discriminate]. inversion E; subst.
    cbn [bars_ints forallb b_rel]. apply andb_true_iff. split; [apply Hb; left; reflexivity |].
    apply IH; [reflexivity |]. intros r' Hr'. apply Hb. right. exact Hr'.
Qed.

Lemma sb_loop_ints fuel : forall qnl seqs tsq ksq cur num den key acc res,
  intss seqs = true -> forallb bars_ints acc = true ->
  sb_loop fuel qnl seqs tsq ksq cur num den key acc = Ok res -> forallb bars_ints res = true.
Proof.
  induction fuel as [| f IH]; intros qnl seqs tsq ksq cur num den key acc res Hs Ha E; [discriminate |].
  cbn [sb_loop] in E.
  destruct (match tsq with m :: r => if m_time m <=? cur then (m_num m, m_den m, r) else (num, den, tsq)
                         | [] => (num, den, tsq) end) as [[num1 den1] tsq1].
  destruct (match ksq with m :: r => if m_time m <=? cur then (m_key m, r) else (key, ksq)
                         | [] => (key, ksq) end) as [key1 ksq1].
  set (len := PPQN * num1 * 4 / den1) in *.
  set (rounds := map (sb_track qnl len) seqs) in *.
  assert (Hr : forall x, In x rounds -> ints (fst (fst x)) = true /\ ints (snd (fst x)) = true).
  { intros x Hx. unfold rounds in Hx. apply in_map_iff in Hx. destruct Hx as [rel [Ex Hrel]]. subst x.
    apply sb_track_ints. unfold intss in Hs. rewrite forallb_forall in Hs. auto. }
  destruct (fold_right _ _ _) as [newbars | e] eqn:Ef; [| discriminate].
  assert (Hn : bars_ints newbars = true).
  { eapply collect_bars_ints; [exact Ef |]. intros r Hin. apply in_map_iff in Hin.
    destruct Hin as [x [Ex Hx]]. eapply bar_init_ints; [| exact Ex]. apply Hr; exact Hx. }
  assert (Ha' : forallb bars_ints (map (fun ab : list bar * bar => fst ab ++ [snd ab]) (combine acc newbars)) = true).
  { apply forallb_forall. intros bs Hbs. apply in_map_iff in Hbs. destruct Hbs as [[a b] [Eb Hab]]. subst bs.
    cbn [fst snd]. unfold bars_ints. rewrite forallb_app. apply andb_true_iff. split.
    - apply in_combine_l in Hab. rewrite forallb_forall in Ha. apply Ha. exact Hab.
    - apply in_combine_r in Hab. unfold bars_ints in Hn. rewrite forallb_forall in Hn.
      cbn [forallb]. rewrite (Hn _ Hab). reflexivity. }
  destruct (existsb _ rounds).
  - eapply IH; [| exact Ha' | exact E]. apply forallb_forall. intros r Hin. apply in_map_iff in Hin.
    destruct Hin as [x [Ex Hx]]. subst r. apply Hr; exact Hx.
  - inversion E; subst. exact Ha'.
Qed.

Lemma split_bars_ints rels meta qnl bars : intss rels = true ->
  split_bars rels meta qnl = Ok bars -> forallb bars_ints bars = true.
Proof.
  intros H E. unfold split_bars in E. eapply sb_loop_ints; [exact H | | exact E].
  apply forallb_forall. intros bs Hbs. apply in_map_iff in Hbs. destruct Hbs as [x [Ex _]]. subst. reflexivity.
Qed.

(* ---------------------------------------------------------------- Store.v *)
Lemma ints_seq_mk a r f g : ints a = true -> ints r = true -> ints_seq (mkseq a r f g) = true.
Proof. intros Ha Hr. unfold ints_seq. cbn [s_abs s_rel]. rewrite Ha, Hr. reflexivity. Qed.
Lemma ints_seq_abs s : ints_seq s = true -> ints (s_abs s) = true.
Proof. unfold ints_seq. intro H. btrue. assumption. Qed.
Lemma ints_seq_rel s : ints_seq s = true -> ints (s_rel s) = true.
Proof. unfold ints_seq. intro H. btrue. assumption. Qed.

Lemma get_abs_ints s s1 a : ints_seq s = true -> get_abs s = Ok (s1, a) -> ints_seq s1 = true /\ ints a = true.
Proof.
  intros H E. unfold get_abs in E. pose proof (ints_seq_abs s H) as Ha. pose proof (ints_seq_rel s H) as Hr.
  destruct (s_abs_stale s).
  - destruct (s_rel_stale s); [discriminate |]. inversion E; subst.
    split; [apply ints_seq_mk |]; auto using to_abs_ints.
  - inversion E; subst. auto.
Qed.
Lemma get_rel_ints s s1 r : ints_seq s = true -> get_rel s = Ok (s1, r) -> ints_seq s1 = true /\ ints r = true.
Proof.
  intros H E. unfold get_rel in E. pose proof (ints_seq_abs s H) as Ha. pose proof (ints_seq_rel s H) as Hr.
  destruct (s_rel_stale s).
  - destruct (s_abs_stale s); [discriminate |]. inversion E; subst.
    split; [apply ints_seq_mk |]; auto using to_rel_ints.
  - inversion E; subst. auto.
Qed.
Lemma upd_abs_ints s f s' : ints_seq s = true -> (forall a, ints a = true -> ints (f a) = true) ->
  upd_abs s f = Ok s' -> ints_seq s' = true.
Proof.
  intros H Hf E. unfold upd_abs in E. destruct (get_abs s) as [[s1 a] | e] eqn:Eg; [| discriminate].
  cbn [rbind] in E. inversion E; subst. destruct (get_abs_ints _ _ _ H Eg) as [H1 Ha].
  apply ints_seq_mk; [auto | apply ints_seq_rel; exact H1].
Qed.
Lemma upd_rel_ints s f s' : ints_seq s = true -> (forall a, ints a = true -> ints (f a) = true) ->
  upd_rel s f = Ok s' -> ints_seq s' = true.
Proof.
  intros H Hf E. unfold upd_rel in E. destruct (get_rel s) as [[s1 a] | e] eqn:Eg; [| discriminate].
  cbn [rbind] in E. inversion E; subst. destruct (get_rel_ints _ _ _ H Eg) as [H1 Ha].
  apply ints_seq_mk; [apply ints_seq_abs; exact H1 | auto].
Qed.

Lemma seq_normalise_ints s s' : ints_seq s = true -> seq_normalise s = Ok s' -> ints_seq s' = true.
Proof. intros H E. eapply upd_rel_ints; [exact H | | exact E]. apply normalise_ints. Qed.
Lemma seq_qnl_ints s v std dne s' : ints_seq s = true -> seq_qnl s v std dne = Ok s' -> ints_seq s' = true.
Proof. intros H E. eapply upd_abs_ints; [exact H | | exact E]. intros; apply quantise_note_lengths_ints; assumption. Qed.
Lemma seq_quantise_ints s steps s' : ints_seq s = true -> seq_quantise s steps = Ok s' -> ints_seq s' = true.
Proof.
  intros H E. unfold seq_quantise in E. destruct (get_abs s) as [[s1 a] | e] eqn:Eg; [| discriminate].
  cbn [rbind] in E. destruct (get_abs_ints _ _ _ H Eg) as [H1 Ha].
  destruct (quantise a steps) as [a' | e] eqn:Eq; [| discriminate]. cbn [rbind] in E. inversion E; subst.
  apply ints_seq_mk; [eapply quantise_ints; eauto | apply ints_seq_rel; exact H1].
Qed.
Lemma seq_sort_abs_ints s s' : ints_seq s = true -> seq_sort_abs s = Ok s' -> ints_seq s' = true.
Proof.
  intros H E. unfold seq_sort_abs in E. destruct (get_abs s) as [[s1 a] | e] eqn:Eg; [| discriminate].
  cbn [rbind] in E. inversion E; subst. destruct (get_abs_ints _ _ _ H Eg) as [H1 Ha].
  apply ints_seq_mk; [apply sort_abs_ints; exact Ha | apply ints_seq_rel; exact H1].
Qed.
Lemma seq_copy_ints s : ints_seq s = true -> ints_seq (seq_copy s) = true.
Proof.
  intro H. pose proof (ints_seq_abs s H) as Ha. pose proof (ints_seq_rel s H) as Hr. unfold seq_copy.
  destruct (s_abs_stale s), (s_rel_stale s); try reflexivity; apply ints_seq_mk; auto.
Qed.

Lemma py_insert_ints l i m : ints l = true -> intm m = true -> ints (py_insert l i m) = true.
Proof.
  intros Hl Hm. unfold py_insert. set (j := Z.to_nat _). destruct (ints_firstn_skipn j l Hl) as [H1 H2].
  rewrite !ints_app, H1, H2. cbn [ints forallb]. fold (intm m). rewrite Hm. reflexivity.
Qed.
Lemma apply_edit_ints m f v : intm m = true -> intm (apply_edit m f v) = true.
Proof. intro H. destruct f; first [exact H | reflexivity]. Qed.
Lemma apply_edits_ints l es : ints l = true -> ints (apply_edits l es) = true.
Proof.
  intro H. unfold apply_edits.
  apply (fold_left_inv (fun acc => ints acc = true) (fun _ : edit => True)); auto.
  - intros a [[i f] v] Ha _. apply set_nth_forallb; [| exact Ha]. intros; apply apply_edit_ints; assumption.
  - apply Forall_forall; auto.
Qed.
Lemma apply_edits_rel_ints l es : ints l = true -> ints (apply_edits_rel l es) = true.
Proof.
  intro H. unfold apply_edits_rel.
  apply (fold_left_inv (fun acc => ints acc = true) (fun _ : edit => True)); auto.
  - intros a [[i f] v] Ha _. apply set_nth_forallb; [| exact Ha]. intros x Hx.
    destruct f; try (apply apply_edit_ints; assumption). destruct (is_wait x); [reflexivity | exact Hx].
  - apply Forall_forall; auto.
Qed.
Lemma overwrite_abs_ints ms : ints ms = true -> ints (fold_left (fun acc m => insort m acc) ms []) = true.
Proof.
  intro H. apply (fold_left_inv (fun acc => ints acc = true) (fun m => intm m = true)).
  - intros a b Ha Hb. apply insort_ints; assumption.
  - apply ints_Forall; exact H.
  - reflexivity.
Qed.

(* store-level *)
Lemma getn_ints st i s : ints_store st = true -> getn st i = Ok s -> ints_seq s = true.
Proof.
  intros H E. unfold getn in E. destruct (nth_error st i) eqn:En; inversion E; subst.
  unfold ints_store in H. rewrite forallb_forall in H. apply H. eapply nth_error_In; eauto.
Qed.
Lemma setn_ints st i s : ints_store st = true -> ints_seq s = true -> ints_store (setn st i s) = true.
Proof. intros H Hs. unfold setn, ints_store. apply set_nth_forallb; [intros; exact Hs | exact H]. Qed.
Lemma app_ints st l : ints_store st = true -> ints_store l = true -> ints_store (st ++ l) = true.
Proof. intros H Hl. unfold ints_store. rewrite forallb_app. apply andb_true_iff. auto. Qed.

Lemma on_obj_ints st i f : ints_store st = true ->
  (forall s s', ints_seq s = true -> f s = Ok s' -> ints_seq s' = true) -> ints_store (fst (on_obj st i f)) = true.
Proof.
  intros H Hf. unfold on_obj. destruct (getn st i) as [s | e] eqn:Eg; [| exact H].
  destruct (f s) as [s' | e] eqn:Ef; [| exact H]. cbn [fst]. apply setn_ints; [exact H |].
  eapply Hf; [| exact Ef]. eapply getn_ints; eauto.
Qed.

Lemma read_abss_ints js : forall st st' rs, ints_store st = true -> read_abss st js = Ok (st', rs) ->
  ints_store st' = true /\ intss rs = true.
Proof.
  induction js as [| j js IH]; intros st st' rs H E; cbn [read_abss] in E; [inversion E; subst; auto |].
  destruct (getn st j) as [s | e] eqn:Eg; [| discriminate]. cbn [rbind] in E.
  destruct (get_abs s) as [[s1 a] | e] eqn:Ea; [| discriminate]. cbn [rbind] in E.
  destruct (get_abs_ints _ _ _ (getn_ints _ _ _ H Eg) Ea) as [H1 Ha].
  destruct (read_abss (setn st j s1) js) as [[st1 rs1] | e] eqn:Er; [| discriminate]. cbn [rbind] in E.
  inversion E; subst. destruct (IH _ _ _ (setn_ints _ _ _ H H1) Er) as [Hst Hrs].
  split; [exact Hst |]. cbn [intss forallb]. rewrite Ha. exact Hrs.
Qed.
Lemma read_rels_ints js : forall st st' rs, ints_store st = true -> read_rels st js = Ok (st', rs) ->
  ints_store st' = true /\ intss rs = true.
Proof.
  induction js as [| j js IH]; intros st st' rs H E; cbn [read_rels] in E; [inversion E; subst; auto |].
  destruct (getn st j) as [s | e] eqn:Eg; [| discriminate]. cbn [rbind] in E.
  destruct (get_rel s) as [[s1 a] | e] eqn:Ea; [| discriminate]. cbn [rbind] in E.
  destruct (get_rel_ints _ _ _ (getn_ints _ _ _ H Eg) Ea) as [H1 Ha].
  destruct (read_rels (setn st j s1) js) as [[st1 rs1] | e] eqn:Er; [| discriminate]. cbn [rbind] in E.
  inversion E; subst. destruct (IH _ _ _ (setn_ints _ _ _ H H1) Er) as [Hst Hrs].
  split; [exact Hst |]. cbn [intss forallb]. rewrite Ha. exact Hrs.
Qed.

Lemma lift_ints st r : ints_store st = true ->
  (forall st' x, r = Ok (st', x) -> ints_store st' = true) -> ints_store (fst (lift st r)) = true.
Proof. intros H Hr. unfold lift. destruct r as [[st' x] | e]; [eapply Hr; reflexivity | exact H]. Qed.

Lemma mapM_forallb {A B} (f : A -> result B) (P : B -> bool) l : forall rs,
  (forall x y, f x = Ok y -> P y = true) -> mapM f l = Ok rs -> forallb P rs = true.
Proof.
  induction l as [| a l IH]; intros rs Hf E; cbn [mapM] in E; [inversion E; reflexivity |].
  destruct (f a) as [y | e] eqn:Ea; [| discriminate]. cbn [rbind] in E.
  destruct (mapM f l) as [ys | e] eqn:El; [| discriminate]. cbn [rbind] in E. inversion E; subst.
  cbn [forallb]. rewrite (Hf _ _ Ea), (IH _ Hf eq_refl). reflexivity.
Qed.

(* peel one `do x <- r; k` off a hypothesis  E : rbind r k = Ok _ *)
Ltac bind1 E x Ex :=
  match type of E with
  | rbind ?r _ = Ok _ => destruct r as [x | ?] eqn:Ex; [cbn [rbind] in E | discriminate E]
  end.

Lemma seq_transpose_ints s k s' b : ints_seq s = true -> seq_transpose s k = Ok (s', b) -> ints_seq s' = true.
Proof.
  intros H E. unfold seq_transpose in E. bind1 E x Ex. destruct x as [s1 r].
  destruct (get_rel_ints _ _ _ H Ex) as [H1 Hr].
  pose proof (transpose_ints r k Hr) as Ht. destruct (transpose r k) as [r' shifted]. cbn [fst] in Ht.
  assert (H2 : ints_seq (mkseq (s_abs s1) r' true false) = true)
    by (apply ints_seq_mk; [apply ints_seq_abs; exact H1 | exact Ht]).
  destruct shifted; [| inversion E; subst; exact H2].
  bind1 E s3 E3. bind1 E s4 E4. inversion E; subst.
  eapply seq_qnl_ints; [| exact E4]. eapply seq_normalise_ints; [| exact E3]. exact H2.
Qed.
Lemma seq_refresh_ints s s' : ints_seq s = true -> seq_refresh s = Ok s' -> ints_seq s' = true.
Proof.
  intros H E. unfold seq_refresh in E. destruct (_ && _); [discriminate |].
  bind1 E x Ex. destruct x as [s1 a]. bind1 E y Ey. destruct y as [s2 r]. inversion E; subst.
  destruct (get_abs_ints _ _ _ H Ex) as [H1 _]. destruct (get_rel_ints _ _ _ H1 Ey) as [H2 _]. exact H2.
Qed.
Lemma seq_qn_ints s steps values std dne s' :
  ints_seq s = true -> seq_quantise_and_normalise s steps values std dne = Ok s' -> ints_seq s' = true.
Proof.
  intros H E. unfold seq_quantise_and_normalise in E. bind1 E s1 E1. bind1 E s2 E2.
  eapply seq_normalise_ints; [| exact E]. eapply seq_qnl_ints; [| exact E2]. eapply seq_quantise_ints; eauto.
Qed.

Definition op_ints (o : op) : bool :=
  match o with
  | ONewAbs a => ints a
  | ONewRel r => ints r
  | OAddAbs _ m => intm m
  | OAddRel _ m _ => intm m
  | OConcatLit _ rs => intss rs
  | OOverwriteAbs _ ms => ints ms
  | OOverwriteRel _ ms => ints ms
  | _ => true
  end.

Lemma ints_store_one s : ints_seq s = true -> ints_store [s] = true.
Proof. intro H. unfold ints_store. cbn [forallb]. rewrite H. reflexivity. Qed.

Theorem C11_step : forall st o, ints_store st = true -> op_ints o = true -> ints_store (fst (step st o)) = true.
Proof.
  intros st o Hst Ho. destruct o; cbn [step op_ints] in *.
  - (* ONew *) cbn [fst]. apply app_ints; [exact Hst | reflexivity].
  - (* ONewAbs *) cbn [fst]. apply app_ints; [exact Hst |]. apply ints_store_one. unfold seq_overwrite_abs.
    apply ints_seq_mk; [apply overwrite_abs_ints; exact Ho | reflexivity].
  - (* ONewRel *) cbn [fst]. apply app_ints; [exact Hst |]. apply ints_store_one. apply ints_seq_mk; [reflexivity | exact Ho].
  - (* OCopy *) apply lift_ints; [exact Hst |]. intros st' x E. bind1 E s Es. inversion E; subst.
    apply app_ints; [exact Hst |]. apply ints_store_one, seq_copy_ints. eapply getn_ints; eauto.
  - (* OAddAbs *) apply on_obj_ints; [exact Hst |]. intros s s' Hs E. eapply upd_abs_ints; [exact Hs | | exact E].
    intros; apply insort_ints; assumption.
  - (* OAddRel *) apply on_obj_ints; [exact Hst |]. intros s s' Hs E. eapply upd_rel_ints; [exact Hs | | exact E].
    intros a Ha. destruct idx; [apply py_insert_ints; assumption |].
    rewrite ints_app, Ha. cbn [ints forallb]. fold (intm m). rewrite Ho. reflexivity.
  - (* OConcat *) apply lift_ints; [exact Hst |]. intros st' x E. bind1 E s Es. bind1 E y Ey. destruct y as [s1 r].
    bind1 E rs Ers. inversion E; subst.
    destruct (get_rel_ints _ _ _ (getn_ints _ _ _ Hst Es) Ey) as [H1 Hr].
    apply setn_ints; [exact Hst |]. apply ints_seq_mk; [apply ints_seq_abs; exact H1 |].
    rewrite ints_app, Hr. apply ints_concat. eapply mapM_forallb; [| exact Ers].
    intros j rj Ej. cbn beta in Ej. bind1 Ej t Et. bind1 Ej z Ez. destruct z as [t1 rj']. inversion Ej; subst.
    eapply get_rel_ints; [| exact Ez]. apply seq_copy_ints. eapply getn_ints; eauto.
  - (* OConcatLit *) apply lift_ints; [exact Hst |]. intros st' x E. bind1 E s Es. bind1 E y Ey. destruct y as [s1 r].
    inversion E; subst. destruct (get_rel_ints _ _ _ (getn_ints _ _ _ Hst Es) Ey) as [H1 Hr].
    apply setn_ints; [exact Hst |]. apply ints_seq_mk; [apply ints_seq_abs; exact H1 |].
    rewrite ints_app, Hr. apply ints_concat. exact Ho.
  - (* OMerge *) apply lift_ints; [exact Hst |]. intros st' x E. bind1 E s Es. bind1 E y Ey. destruct y as [s1 a].
    bind1 E z Ez. destruct z as [st1 as_]. bind1 E s2 E2. bind1 E s3 E3. inversion E; subst.
    destruct (get_abs_ints _ _ _ (getn_ints _ _ _ Hst Es) Ey) as [H1 Ha].
    destruct (read_abss_ints _ _ _ _ (setn_ints _ _ _ Hst H1) Ez) as [Hst1 Has].
    apply setn_ints; [exact Hst1 |]. eapply seq_normalise_ints; [| exact E3].
    apply ints_seq_mk; [apply merge_abs_ints; assumption |]. apply ints_seq_rel. eapply getn_ints; eauto.
  - (* OCutoff *) apply on_obj_ints; [exact Hst |]. intros s s' Hs E. eapply upd_abs_ints; [exact Hs | | exact E].
    intros; apply cutoff_ints; assumption.
  - (* ONormalise *) apply on_obj_ints; [exact Hst |]. intros s s' Hs E. eapply seq_normalise_ints; eauto.
  - (* OPad *) apply on_obj_ints; [exact Hst |]. intros s s' Hs E. eapply upd_rel_ints; [exact Hs | | exact E].
    intros; apply pad_ints; assumption.
  - (* OSetChannel *) apply on_obj_ints; [exact Hst |]. intros s s' Hs E. eapply upd_rel_ints; [exact Hs | | exact E].
    intros; apply set_channel_ints; assumption.
  - (* OOverwriteAbs *) apply on_obj_ints; [exact Hst |]. intros s s' Hs E. inversion E; subst.
    apply ints_seq_mk; [apply overwrite_abs_ints; exact Ho | apply ints_seq_rel; exact Hs].
  - (* OOverwriteRel *) apply on_obj_ints; [exact Hst |]. intros s s' Hs E. inversion E; subst.
    apply ints_seq_mk; [apply ints_seq_abs; exact Hs | exact Ho].
  - (* OSplit *) apply lift_ints; [exact Hst |]. intros st' x E. bind1 E s Es. bind1 E y Ey. destruct y as [s1 r].
    inversion E; subst. destruct (get_rel_ints _ _ _ (getn_ints _ _ _ Hst Es) Ey) as [H1 Hr].
    apply app_ints; [apply setn_ints; assumption |].
    pose proof (seq_split_ints r caps Hr) as Hs. unfold ints_store. rewrite forallb_forall. intros q Hq.
    apply in_map_iff in Hq. destruct Hq as [l [El Hl]]. subst q. unfold intss in Hs. rewrite forallb_forall in Hs.
    apply ints_seq_mk; [reflexivity | auto].
  - (* OScale *) apply on_obj_ints; [exact Hst |]. intros s s' Hs E. eapply upd_rel_ints; [exact Hs | | exact E].
    intros; apply scale_ints; assumption.
  - (* OTranspose *) apply lift_ints; [exact Hst |]. intros st' x E. bind1 E s Es. bind1 E y Ey. destruct y as [s' b].
    inversion E; subst. apply setn_ints; [exact Hst |]. eapply seq_transpose_ints; [| exact Ey]. eapply getn_ints; eauto.
  - (* OQuantise *) apply on_obj_ints; [exact Hst |]. intros s s' Hs E. eapply seq_quantise_ints; eauto.
  - (* OQnl *) apply on_obj_ints; [exact Hst |]. intros s s' Hs E. eapply seq_qnl_ints; eauto.
  - (* OQuantNorm *) apply on_obj_ints; [exact Hst |]. intros s s' Hs E. eapply seq_qn_ints; eauto.
  - (* ORefresh *) apply on_obj_ints; [exact Hst |]. intros s s' Hs E. eapply seq_refresh_ints; eauto.
  - (* OReadAbs *) apply lift_ints; [exact Hst |]. intros st' x E. bind1 E s Es. bind1 E y Ey. destruct y as [s' a].
    inversion E; subst. apply setn_ints; [exact Hst |]. eapply get_abs_ints; [| exact Ey]. eapply getn_ints; eauto.
  - (* OReadRel *) apply lift_ints; [exact Hst |]. intros st' x E. bind1 E s Es. bind1 E y Ey. destruct y as [s' a].
    inversion E; subst. apply setn_ints; [exact Hst |]. eapply get_rel_ints; [| exact Ey]. eapply getn_ints; eauto.
  - (* OEquals *) apply lift_ints; [exact Hst |]. intros st' x E. bind1 E s Es. bind1 E y Ey. destruct y as [s1 a1].
    destruct (get_abs_ints _ _ _ (getn_ints _ _ _ Hst Es) Ey) as [H1 _].
    pose proof (setn_ints _ i _ Hst H1) as Hst1. bind1 E t Et. bind1 E z Ez. destruct z as [t1 a2].
    destruct (get_abs_ints _ _ _ (getn_ints _ _ _ Hst1 Et) Ez) as [Ht1 _].
    pose proof (setn_ints _ j _ Hst1 Ht1) as Hst2. bind1 E s2 E2. bind1 E s3 E3.
    pose proof (seq_sort_abs_ints _ _ (getn_ints _ _ _ Hst2 E2) E3) as H3.
    pose proof (setn_ints _ i _ Hst2 H3) as Hst3.
    destruct (interleaved _ _ _ _); [| inversion E; subst; exact Hst3].
    bind1 E t2 Et2. bind1 E t3 Et3.
    pose proof (seq_sort_abs_ints _ _ (getn_ints _ _ _ Hst3 Et2) Et3) as Ht3.
    pose proof (setn_ints _ j _ Hst3 Ht3) as Hst4.
    destruct (equals _ _ _ _ _ _); inversion E; subst; exact Hst4.
  - (* OPairings *) apply on_obj_ints; [exact Hst |]. intros s s' Hs E. eapply seq_sort_abs_ints; eauto.
  - (* ODuration *) apply lift_ints; [exact Hst |]. intros st' x E. bind1 E s Es. bind1 E y Ey. destruct y as [s' a].
    destruct (last_opt a); inversion E; subst;
      (apply setn_ints; [exact Hst |]; eapply get_abs_ints; [| exact Ey]; eapply getn_ints; eauto).
  - (* OEditAbs *) apply on_obj_ints; [exact Hst |]. intros s s' Hs E. unfold seq_edit_abs in E.
    bind1 E y Ey. destruct y as [s1 a]. inversion E; subst. destruct (get_abs_ints _ _ _ Hs Ey) as [H1 Ha].
    apply ints_seq_mk; [apply sort_abs_ints, apply_edits_ints; exact Ha | apply ints_seq_rel; exact H1].
  - (* OEditRel *) apply on_obj_ints; [exact Hst |]. intros s s' Hs E. unfold seq_edit_rel in E.
    bind1 E y Ey. destruct y as [s1 a]. inversion E; subst. destruct (get_rel_ints _ _ _ Hs Ey) as [H1 Ha].
    apply ints_seq_mk; [apply ints_seq_abs; exact H1 | apply apply_edits_rel_ints; exact Ha].
  - (* OBarInit *) apply lift_ints; [exact Hst |]. intros st' x E. bind1 E s Es. bind1 E y Ey. destruct y as [s1 r].
    destruct (get_rel_ints _ _ _ (getn_ints _ _ _ Hst Es) Ey) as [H1 Hr].
    pose proof (bar_init_full_ints r num den Hr) as Hb. destruct (bar_init_full r num den) as [r' e].
    inversion E; subst. apply setn_ints; [exact Hst |].
    apply ints_seq_mk; [apply ints_seq_abs; exact H1 | exact Hb].
  - (* OBarCopy *) apply lift_ints; [exact Hst |]. intros st' x E. bind1 E s Es. bind1 E y Ey. destruct y as [c1 r].
    bind1 E r' Er. inversion E; subst.
    destruct (get_rel_ints _ _ _ (seq_copy_ints _ (getn_ints _ _ _ Hst Es)) Ey) as [H1 Hr].
    apply app_ints; [exact Hst |]. apply ints_store_one.
    apply ints_seq_mk; [apply ints_seq_abs; exact H1 | eapply bar_init_ints; eauto].
  - (* OSplitBars *) apply lift_ints; [exact Hst |]. intros st' x E. bind1 E y Ey. destruct y as [st0 l0].
    bind1 E z Ez. destruct z as [st0' l0']. bind1 E m Em. bind1 E w Ew. destruct w as [m1 ma].
    bind1 E v Ev. destruct v as [st2 rels].
    destruct (read_abss_ints _ _ _ _ Hst Ey) as [H0 _]. destruct (read_rels_ints _ _ _ _ H0 Ez) as [H0' _].
    destruct (get_abs_ints _ _ _ (getn_ints _ _ _ H0' Em) Ew) as [Hm1 _].
    destruct (read_rels_ints _ _ _ _ (setn_ints _ meta _ H0' Hm1) Ev) as [H2 Hrels].
    destruct (split_bars rels ma qnl) as [bars | e] eqn:Eb; inversion E; subst; [| exact H2].
    apply app_ints; [exact H2 |]. pose proof (split_bars_ints _ _ _ _ Hrels Eb) as Hbars.
    unfold ints_store. rewrite forallb_forall. intros q Hq. apply in_map_iff in Hq. destruct Hq as [b [Eb' Hb]].
    subst q. apply in_concat in Hb. destruct Hb as [bs [Hbs Hb]]. rewrite forallb_forall in Hbars.
    specialize (Hbars _ Hbs). unfold bars_ints in Hbars. rewrite forallb_forall in Hbars.
    apply ints_seq_mk; [reflexivity | auto].
Qed.

(* ---------------------------------------------------------------- histories *)
Lemma run_cons st o ops : fst (run st (o :: ops)) = fst (run (fst (step st o)) ops).
Proof. cbn [run]. destruct (step st o) as [st1 x]. cbn [fst]. destruct (run st1 ops). reflexivity. Qed.

Theorem C11_history : forall ops st, ints_store st = true -> forallb op_ints ops = true ->
  ints_store (fst (run st ops)) = true.
Proof.
  induction ops as [| o ops IH]; intros st Hst Ho; [exact Hst |].
  cbn [forallb] in Ho. apply andb_true_iff in Ho. destruct Ho as [Ho Hops].
  rewrite run_cons. apply IH; [apply C11_step; assumption | exact Hops].
Qed.

(* reading a view of an integer store returns integer-typed times (the observable outputs) *)
Theorem C11_read : forall st i, ints_store st = true ->
  (forall l, snd (step st (OReadAbs i)) = OMsgs l -> ints l = true) /\
  (forall l, snd (step st (OReadRel i)) = OMsgs l -> ints l = true).
Proof.
  intros st i Hst. split; intros l E; cbn [step] in E; unfold lift in E.
  - destruct (getn st i) as [s | e] eqn:Es; cbn [rbind] in E; [| discriminate].
    destruct (get_abs s) as [[s' a] | e] eqn:Ea; cbn [rbind snd] in E; [| discriminate]. inversion E; subst.
    eapply get_abs_ints; [| exact Ea]. eapply getn_ints; eauto.
  - destruct (getn st i) as [s | e] eqn:Es; cbn [rbind] in E; [| discriminate].
    destruct (get_rel s) as [[s' a] | e] eqn:Ea; cbn [rbind snd] in E; [| discriminate]. inversion E; subst.
    eapply get_rel_ints; [| exact Ea]. eapply getn_ints; eauto.
Qed.

(* non-vacuity *)
Definition ex_store : store :=
  [seq_of_rel [mk_on 0 60 100 0 false; mk_wait 0 30 false; mk_off 0 60 0 false; mk_wait 0 7 false];
   seq_of_abs [mk_ts 0 3 4 0 false; mk_on 1 62 90 5 false; mk_off 1 62 50 false]].
Definition ex_ops : list op :=
  [OPad 0 96; OMerge 0 [1%nat]; OQuantNorm 0 [24; 12] [24; 48]; OSplit 0 [48; 48]; OBarInit 2 3 4;
   OAddAbs 1 (mk_on 1 70 80 12 false); OSplitBars [0%nat] 1 true; OTranspose 0 40; OScale 1 2; OCutoff 0 24 12].
Example C11_history_nonvacuous :
  ints_store ex_store = true /\ forallb op_ints ex_ops = true /\
  existsb (fun x => match x with OErr _ => true | _ => false end) (snd (run ex_store ex_ops)) = false /\
  length (fst (run ex_store ex_ops)) = 6%nat.
Proof. vm_compute. repeat split; reflexivity. Qed.

(* ---------------------------------------------------------------- detokenise *)
Lemma foldM_inv {A B} (P : B -> Prop) (f : B -> A -> result B) l :
  (forall b a b', P b -> f b a = Ok b' -> P b') -> forall b r, P b -> foldM f l b = Ok r -> P r.
Proof.
  intro Hf. induction l as [| a l IH]; intros b r Hb E; cbn [foldM] in E; [inversion E; subst; exact Hb |].
  destruct (f b a) as [b' | e] eqn:Ef; [| discriminate]. cbn [rbind] in E. eapply IH; [| exact E]. eauto.
Qed.

Lemma detok_step_ints c s t s' : intss (d_seqs s) = true -> detok_step c s t = Ok s' -> intss (d_seqs s') = true.
Proof.
  intros H E. destruct t; cbn [detok_step] in E; try (inversion E; subst; exact H).
  - (* TBar *) inversion E; subst. cbn [set_clock d_seqs]. apply forallb_forall. intros l Hl.
    apply in_map_iff in Hl. destruct Hl as [a [Ea Ha]]. subst l. apply insort_ints; [reflexivity |].
    unfold intss in H. rewrite forallb_forall in H. auto.
  - (* TNote *) destruct (py_index _ _) as [i |]; [| discriminate]. inversion E; subst. cbn [d_seqs].
    apply set_nth_forallb; [| exact H]. intros a Ha. apply insort_ints; [reflexivity |].
    apply insort_ints; [reflexivity | exact Ha].
  - (* TTsg *) destruct (0 <? d_tbar s); [inversion E; subst; exact H |].
    destruct (d =? 0); [discriminate |].
    destruct (if c_simplify c && (n mod 2 =? 0) && (d mod 2 =? 0) then (n / 2, d / 2) else (n, d)) as [n' d'].
    inversion E; subst. cbn [set_clock d_seqs]. destruct (_ || _); [| exact H].
    destruct (d_seqs s) as [| a r]; [reflexivity |]. cbn [intss forallb] in *. btrue; auto.
    apply insort_ints; [reflexivity | assumption].
Qed.

Theorem C11_detokenise : forall c ts seqs, detokenise c ts = Ok seqs ->
  forall l m, In l seqs -> In m l -> m_tf m = false.
Proof.
  intros c ts seqs E l m Hl Hm. unfold detokenise in E.
  destruct (foldM (detok_step c) ts (dstate0 c)) as [s | e] eqn:Ef; [| discriminate]. cbn [rbind] in E.
  inversion E; subst. clear E.
  assert (Hs : intss (d_seqs s) = true).
  { apply (foldM_inv (fun s => intss (d_seqs s) = true) (detok_step c) ts) with (b := dstate0 c).
    - intros b a b' Hb Eb. eapply detok_step_ints; eauto.
    - unfold dstate0. cbn [d_seqs]. apply forallb_forall. intros x Hx. apply in_map_iff in Hx.
      destruct Hx as [z [Ez _]]. subst. reflexivity.
    - exact Ef. }
  unfold intss in Hs. rewrite forallb_forall in Hs. specialize (Hs _ Hl).
  apply intm_tf. exact (proj1 (ints_In l) Hs m Hm).
Qed.

Definition ex_cfg : cfg := make_cfg 2 21 108 None None 8 true false false false true.
Definition ex_toks : list tok := [TSta; TTsg 4 8; TTrk 1; TVal 24; TVel 127; TNote None 60 None None; TRest 24; TBar; TSto].
Example C11_detokenise_nonvacuous :
  exists seqs, detokenise ex_cfg ex_toks = Ok seqs /\ map (@length msg) seqs = [2%nat; 3%nat].
Proof. eexists. split; vm_compute; reflexivity. Qed.

(* ---------------------------------------------------------------- token rendering *)
Fixpoint str_all (p : ascii -> bool) (s : string) : bool :=
  match s with EmptyString => true | String a s' => p a && str_all p s' end.
Definition is_digit (a : ascii) : bool := (48 <=? nat_of_ascii a)%nat && (nat_of_ascii a <=? 57)%nat.
(* non-empty and made of the characters '0'..'9' only: in particular no '.', no 'e', no sign *)
Definition digits_only (s : string) : bool := (0 <? String.length s)%nat && str_all is_digit s.
Definition no_dot (s : string) : bool := str_all (fun a => negb (Ascii.eqb a "."%char)) s.

Lemma str_all_app p a b : str_all p (a ++ b)%string = str_all p a && str_all p b.
Proof. induction a as [| x a IH]; cbn [String.append str_all]; [reflexivity |]. rewrite IH, andb_assoc. reflexivity. Qed.
Lemma str_all_impl (p q : ascii -> bool) s : (forall a, p a = true -> q a = true) -> str_all p s = true -> str_all q s = true.
Proof.
  intro Hpq. induction s as [| x s IH]; cbn [str_all]; [reflexivity |]. intro H. btrue; auto.
Qed.
Lemma string_of_uint_digits d : str_all is_digit (DecimalString.NilEmpty.string_of_uint d) = true.
Proof. induction d; cbn [DecimalString.NilEmpty.string_of_uint str_all]; rewrite ?IHd; reflexivity. Qed.
Lemma digits_digits n : digits_only (digits n) = true.
Proof.
  unfold digits, DecimalString.NilZero.string_of_uint. destruct (N.to_uint n) eqn:E; try reflexivity;
    unfold digits_only; rewrite string_of_uint_digits; reflexivity.
Qed.
Lemma zeros_digits n : str_all is_digit (zeros n) = true.
Proof. induction n as [| n IH]; [reflexivity |]. cbn [zeros String.append str_all]. rewrite IH. reflexivity. Qed.
Lemma length_app_pos a b : (0 <? String.length b)%nat = true -> (0 <? String.length (a ++ b)%string)%nat = true.
Proof. intro H. destruct a; [exact H | reflexivity]. Qed.
Lemma fmt_digits w z : 0 <= z -> digits_only (fmt w z) = true.
Proof.
  intro Hz. assert (Hp : digits_only (padded w (digits (Z.to_N z))) = true).
  { pose proof (digits_digits (Z.to_N z)) as Hd. unfold digits_only in *. btrue.
    - unfold padded. apply length_app_pos. assumption.
    - unfold padded. rewrite str_all_app, zeros_digits. assumption. }
  destruct z; [exact Hp | exact Hp | lia].
Qed.

Lemma render_part_digits pfx w v : 0 <= v ->
  exists d, render_part pfx w v = (pfx ++ "_" ++ d)%string /\ digits_only d = true.
Proof. intro Hv. exists (fmt w v). split; [reflexivity | apply fmt_digits; exact Hv]. Qed.

Theorem C11_tokens : forall v, 0 <= v ->
  (exists d, render_tok (TRest v) = (PFX_REST ++ "_" ++ d)%string /\ digits_only d = true) /\
  (exists d, render_tok (TVal v) = (PFX_VALUE ++ "_" ++ d)%string /\ digits_only d = true) /\
  no_dot (render_tok (TRest v)) = true /\ no_dot (render_tok (TVal v)) = true.
Proof.
  intros v Hv. cbn [render_tok].
  assert (Hnd : forall pfx, no_dot pfx = true -> no_dot (render_part pfx 2 v) = true).
  { intros pfx Hp. unfold render_part, no_dot in *. rewrite !str_all_app, Hp.
    pose proof (fmt_digits 2 v Hv) as Hd. unfold digits_only in Hd. apply andb_true_iff in Hd. destruct Hd as [_ Hd].
    assert (Hf : str_all (fun a => negb (Ascii.eqb a "."%char)) (fmt 2 v) = true).
    { eapply str_all_impl; [| exact Hd]. intros a Ha.
      destruct (Ascii.eqb a "."%char) eqn:Ea; [| reflexivity]. apply Ascii.eqb_eq in Ea. subst a. discriminate Ha. }
    rewrite Hf. reflexivity. }
  repeat split; try (apply render_part_digits; exact Hv); apply Hnd; reflexivity.
Qed.

Example C11_tokens_example : render_tok (TRest 24) = "rst_24"%string /\ render_tok (TVal 7) = "val_07"%string.
Proof. split; vm_compute; reflexivity. Qed.

(* ---------------------------------------------------------------- summary of the value-level lemmas *)
Theorem C11_list_ops :
  (forall l, ints l = true -> ints (to_abs l) = true) /\
  (forall l, ints l = true -> ints (to_rel l) = true) /\
  (forall l, ints l = true -> ints (sort_abs l) = true) /\
  (forall x l, intm x = true -> ints l = true -> ints (insort x l) = true) /\
  (forall l, ints l = true -> ints (normalise l) = true) /\
  (forall l p, ints l = true -> ints (pad l p false) = true) /\
  (forall l c, ints l = true -> ints (set_channel l c) = true) /\
  (forall l k, ints l = true -> ints (scale l k) = true) /\
  (forall l k, ints l = true -> ints (fst (transpose l k)) = true) /\
  (forall l caps, ints l = true -> intss (seq_split l caps) = true) /\
  (forall a os, ints a = true -> intss os = true -> ints (merge_abs a os) = true) /\
  (forall l mx red, ints l = true -> ints (cutoff l mx red) = true) /\
  (forall l steps r, ints l = true -> quantise l steps = Ok r -> ints r = true) /\
  (forall l values std dne, ints l = true -> ints (quantise_note_lengths l values std dne) = true) /\
  (forall r num den, ints r = true -> ints (fst (bar_init_full r num den)) = true) /\
  (forall rels meta qnl bars, intss rels = true -> split_bars rels meta qnl = Ok bars ->
     forallb (forallb (fun b => ints (b_rel b))) bars = true).
Proof.
  repeat split.
  - exact to_abs_ints. - exact to_rel_ints. - exact sort_abs_ints. - exact insort_ints. - exact normalise_ints.
  - exact pad_ints. - exact set_channel_ints. - exact scale_ints. - exact transpose_ints. - exact seq_split_ints.
  - exact merge_abs_ints. - exact cutoff_ints. - exact quantise_ints. - exact quantise_note_lengths_ints.
  - exact bar_init_full_ints. - exact split_bars_ints.
Qed.

(* ---------------------------------------------------------------- no token of any kind contains a '.' *)
Lemma no_dot_app a b : no_dot (a ++ b)%string = no_dot a && no_dot b.
Proof. apply str_all_app. Qed.
Lemma digits_no_dot s : digits_only s = true -> no_dot s = true.
Proof.
  unfold digits_only, no_dot. intro H. apply andb_true_iff in H. destruct H as [_ H].
  eapply str_all_impl; [| exact H]. intros a Ha.
  destruct (Ascii.eqb a "."%char) eqn:Ea; [| reflexivity]. apply Ascii.eqb_eq in Ea. subst a. discriminate Ha.
Qed.
Lemma fmt_no_dot w z : no_dot (fmt w z) = true.
Proof.
  assert (Hp : forall w n, no_dot (padded w (digits n)) = true).
  { intros w' n. unfold padded. rewrite no_dot_app. apply andb_true_iff. split.
    - eapply str_all_impl; [| apply zeros_digits]. intros a Ha.
      destruct (Ascii.eqb a "."%char) eqn:Ea; [| reflexivity]. apply Ascii.eqb_eq in Ea. subst a. discriminate Ha.
    - apply digits_no_dot, digits_digits. }
  destruct z; cbn [fmt]; [apply Hp | apply Hp |]. rewrite no_dot_app, Hp. reflexivity.
Qed.
Lemma render_part_no_dot pfx w z : no_dot pfx = true -> no_dot (render_part pfx w z) = true.
Proof. intro H. unfold render_part. rewrite !no_dot_app, H, fmt_no_dot. reflexivity. Qed.
Lemma join_dash_no_dot l : forallb no_dot l = true -> no_dot (join_dash l) = true.
Proof.
  induction l as [| x l IH]; [reflexivity |]. cbn [forallb]. intro H. apply andb_true_iff in H. destruct H as [Hx Hl].
  cbn [join_dash]. destruct l as [| y l']; [exact Hx |]. rewrite !no_dot_app, Hx, (IH Hl). reflexivity.
Qed.
Theorem C11_tokens_no_dot : forall t, no_dot (render_tok t) = true.
Proof.
  destruct t; cbn [render_tok]; try reflexivity; try (apply render_part_no_dot; reflexivity).
  - apply join_dash_no_dot. rewrite !forallb_app. cbn [forallb].
    rewrite (render_part_no_dot PFX_PITCH 3 pit eq_refl).
    destruct trk, val, vel; cbn [forallb]; rewrite ?render_part_no_dot; reflexivity.
  - rewrite !no_dot_app, !fmt_no_dot. reflexivity.
Qed.
