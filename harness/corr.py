"""Correspondence driver: generate N cases for an operation, run implementation and model, report disagreements."""
import os, sys, random, json, time
sys.path.insert(0, os.path.dirname(os.path.abspath(__file__)))
import coqrun


def correspond(opname, n, seed, corpus=None, jobs=None):
    import ops
    op = ops.OPS[opname]
    rng = random.Random(f"{seed}/{opname}")
    inputs = list(corpus or [])
    while len(inputs) < n + len(corpus or []):
        inputs.append(op.gen(rng))
    cases, seen, nontrivial = [], set(), 0
    expected = {}
    for k, inp in enumerate(inputs):
        exp = op.impl(inp)
        cid = f"{opname}{k}"
        expected[cid] = (inp, exp)
        cases.append((cid, op.coq(inp), exp.replace('"', "'")))
        key = repr(inp)
        if key not in seen:
            seen.add(key)
            if op.nontrivial(inp):
                nontrivial += 1
    t0 = time.time()
    shard = {"vocab": 6, "tok_roundtrip": 24, "tok_stateful": 24, "tok_stream": 24, "history": 16}.get(opname, 64)
    mism = coqrun.run_cases(cases, tag=opname, jobs=jobs, shard=shard)
    dis = [{"id": cid, "input": expected[cid][0], "impl": expected[cid][1], "model": got} for cid, got in mism.items()]
    return {"op": opname, "evaluations": len(cases), "distinct": len(seen), "distinct_nontrivial": nontrivial,
            "disagreements": dis, "coq_s": round(time.time() - t0, 2), "sample": inputs[len(inputs) // 2] if inputs else None}


if __name__ == "__main__":
    names = sys.argv[1].split(",")
    n = int(sys.argv[2]) if len(sys.argv) > 2 else 200
    seed = int(os.environ.get("VERIF_SEED", "0"))
    for nm in names:
        r = correspond(nm, n, seed)
        print(nm, "evals", r["evaluations"], "nontrivial", r["distinct_nontrivial"], "disagreements", len(r["disagreements"]), "coq_s", r["coq_s"])
        for d in r["disagreements"][:3]:
            print("   INPUT", d["input"]); print("   IMPL ", d["impl"][:600]); print("   MODEL", d["model"][:600])
