(* C15 (continued) -- through to_rel and normalise: the relative view after a merge does not depend on the order of
   merging (up to the velocity of note-ons with identical time/channel/pitch), and its duration is the maximum. *)
From Coq Require Import ZArith List Bool Lia Permutation.
From Model Require Import Base Seq Pairing Store.
From Proofs Require Import C17_proofs C15_proofs.
Import ListNotations.
Open Scope Z_scope.

(* forget the velocity of note-ons *)
Definition erase (m : msg) : msg := if is_on m then set_vel m 0 else m.

Lemma erase_on m : m_type m = NOTE_ON -> erase m = set_vel m 0.
Proof. intros H. unfold erase, is_on. now rewrite H. Qed.
Lemma erase_other m : m_type m <> NOTE_ON -> erase m = m.
Proof. intros H. unfold erase, is_on. destruct (m_type m); try reflexivity. congruence. Qed.

Lemma erase_fields m :
  m_type (erase m) = m_type m /\ m_chan (erase m) = m_chan m /\ m_time (erase m) = m_time m /\
  m_tf (erase m) = m_tf m /\ m_note (erase m) = m_note m /\ m_num (erase m) = m_num m /\
  m_den (erase m) = m_den m /\ m_key (erase m) = m_key m.
Proof. unfold erase. destruct (is_on m); cbn; repeat split. Qed.

Lemma skey_erase m : skey (erase m) = skey m.
Proof. unfold erase. now destruct (is_on m). Qed.
Lemma is_on_erase m : is_on (erase m) = is_on m.
Proof. unfold erase. now destruct (is_on m) eqn:E. Qed.
Lemma erase_mk_wait c t f : erase (mk_wait c t f) = mk_wait c t f.
Proof. reflexivity. Qed.
Lemma erase_strip m : erase (strip_time m) = strip_time (erase m).
Proof. unfold erase. change (is_on (strip_time m)) with (is_on m). now destruct (is_on m). Qed.
Lemma first_chan_erase l : first_chan (map erase l) = first_chan l.
Proof. destruct l as [|m l]; [reflexivity|]. cbn. apply erase_fields. Qed.

(* ---------------------------------------------------------------- to_rel commutes with erase *)
Lemma to_rel_aux_erase l : forall cur curf, to_rel_aux (map erase l) cur curf = map erase (to_rel_aux l cur curf).
Proof.
  induction l as [|m l IH]; intros cur curf; [reflexivity|].
  cbn [map to_rel_aux].
  destruct (erase_fields m) as (E1 & E2 & E3 & E4 & _). rewrite E1, E2, E3, E4.
  rewrite !map_app, IH. f_equal; [|f_equal].
  - destruct (cur <? m_time m); reflexivity.
  - destruct (mtype_eqb (m_type m) INTERNAL); [reflexivity|]. cbn [map]. now rewrite erase_strip.
Qed.
Lemma to_rel_erase l : to_rel (map erase l) = map erase (to_rel l).
Proof. apply to_rel_aux_erase. Qed.

(* ---------------------------------------------------------------- normalise commutes with erase *)
Definition erase_st (s : nstate) : nstate :=
  mkn (n_open s) (map erase (n_out s)) (n_wait s) (n_waitf s) (n_ts s) (n_key s).

Lemma flush_erase s c m : flush (erase_st s) c (erase m) = erase_st (flush s c m).
Proof.
  unfold flush, erase_st. cbn [n_open n_out n_wait n_waitf n_ts n_key]. f_equal.
  destruct (0 <? n_wait s); rewrite !map_app; reflexivity.
Qed.

Lemma nstep_erase s m : nstep (erase_st s) (erase m) = erase_st (nstep s m).
Proof.
  destruct (erase_fields m) as (E1 & E2 & E3 & E4 & E5 & E6 & E7 & E8).
  unfold nstep. rewrite E1, E2, E3, E4, E5, E6, E7, E8.
  change (n_open (erase_st s)) with (n_open s). change (n_wait (erase_st s)) with (n_wait s).
  change (n_waitf (erase_st s)) with (n_waitf s). change (n_ts (erase_st s)) with (n_ts s).
  change (n_key (erase_st s)) with (n_key s). change (n_out (erase_st s)) with (map erase (n_out s)).
  destruct (m_type m).
  - apply (flush_erase s).
  - apply (flush_erase s).
  - destruct (okey_eqb (m_key m) (n_key s)); [reflexivity|].
    apply (flush_erase (mkn (n_open s) (n_out s) (n_wait s) (n_waitf s) (n_ts s) (m_key m))).
  - destruct ((m_num m =? fst (n_ts s)) && (m_den m =? snd (n_ts s))); [reflexivity|].
    apply (flush_erase (mkn (n_open s) (n_out s) (n_wait s) (n_waitf s) (m_num m, m_den m) (n_key s))).
  - apply (flush_erase s).
  - apply (flush_erase s).
  - destruct (depth (m_chan m, m_note m) (n_open s)) as [|d]; [reflexivity|].
    destruct d; [|reflexivity].
    apply (flush_erase (mkn (dset k2_eqb (m_chan m, m_note m) 0%nat (n_open s)) (n_out s) (n_wait s) (n_waitf s) (n_ts s) (n_key s))).
  - destruct (depth (m_chan m, m_note m) (n_open s)) as [|d]; [|reflexivity].
    apply (flush_erase (mkn (dset k2_eqb (m_chan m, m_note m) 1%nat (n_open s)) (n_out s) (n_wait s) (n_waitf s) (n_ts s) (n_key s))).
  - reflexivity.
Qed.

Lemma fold_nstep_erase l : forall s, fold_left nstep (map erase l) (erase_st s) = erase_st (fold_left nstep l s).
Proof. induction l as [|m l IH]; intros s; [reflexivity|]. cbn [map fold_left]. now rewrite nstep_erase, IH. Qed.

Lemma remove_last_on_erase k l :
  remove_last_on k (map erase l) = (map erase (fst (remove_last_on k l)), snd (remove_last_on k l)).
Proof.
  induction l as [|m l IH]; [reflexivity|]. cbn [map remove_last_on]. rewrite IH.
  destruct (remove_last_on k l) as [r found]. cbn [fst snd].
  destruct (erase_fields m) as (_ & E2 & _ & _ & E5 & _). rewrite is_on_erase, E2, E5.
  destruct found; [reflexivity|]. destruct (is_on m && k2_eqb k (m_chan m, m_note m)); reflexivity.
Qed.

Lemma cleanup_erase o : forall out, cleanup o (map erase out) = map erase (cleanup o out).
Proof.
  unfold cleanup. induction o as [|[k d] o IH]; intros out; [reflexivity|].
  cbn [fold_left fst snd]. destruct d; [apply IH|]. rewrite remove_last_on_erase. cbn [fst]. apply IH.
Qed.

Lemma normalise_erase l : normalise (map erase l) = map erase (normalise l).
Proof.
  pose proof (fold_nstep_erase l (mkn [] [] 0 false (NONE, NONE) None)) as F.
  change (erase_st (mkn [] [] 0 false (NONE, NONE) None)) with (mkn [] [] 0 false (NONE, NONE) None) in F.
  unfold normalise. cbv zeta. rewrite F. set (s := fold_left nstep l _).
  change (n_open (erase_st s)) with (n_open s). change (n_wait (erase_st s)) with (n_wait s).
  change (n_waitf (erase_st s)) with (n_waitf s). change (n_out (erase_st s)) with (map erase (n_out s)).
  rewrite first_chan_erase, <- cleanup_erase. f_equal.
  destruct (0 <? n_wait s); [|reflexivity]. now rewrite map_app.
Qed.

(* ---------------------------------------------------------------- order independence of the merged relative view *)
Lemma C15_order_rel (a b : list msg) (o1 o2 : list (list msg)) :
  Permutation (a ++ concat o1) (b ++ concat o2) ->
  key_determines erase (a ++ concat o1) = true ->
  map erase (normalise (to_rel (merge_abs a o1))) = map erase (normalise (to_rel (merge_abs b o2))).
Proof.
  intros P K. rewrite <- !normalise_erase, <- !to_rel_erase. do 2 f_equal.
  apply C15_order_view; auto. apply skey_erase.
Qed.

(* only note messages in the inputs: the hypothesis reduces to "equal key => equal up to velocity" for notes, which
   holds e.g. when all messages are built by mk_on / mk_off with integer ticks *)
Definition plain_note (m : msg) : bool :=
  is_note m && negb (m_tf m) && Z.eqb (m_ctrl m) NONE && Z.eqb (m_prog m) NONE && Z.eqb (m_num m) NONE &&
  Z.eqb (m_den m) NONE && okey_eqb (m_key m) None && (is_on m || Z.eqb (m_vel m) NONE).

Lemma plain_notes_key_determines l : forallb plain_note l = true -> key_determines erase l = true.
Proof.
  intros H. rewrite forallb_forall in H. unfold key_determines. apply forallb_forall. intros x Hx.
  apply forallb_forall. intros y Hy. destruct (skey_eqb x y) eqn:E; [|reflexivity]. cbn [negb orb].
  apply msg_eqb_eq. apply skey_eqb_spec in E. pose proof (H x Hx) as Px. pose proof (H y Hy) as Py.
  unfold plain_note in Px, Py.
  repeat match goal with Hh : _ && _ = true |- _ => apply andb_prop in Hh as [? ?] end.
  repeat match goal with Hh : (_ =? _) = true |- _ => apply Z.eqb_eq in Hh end.
  repeat match goal with Hh : okey_eqb _ _ = true |- _ => apply okey_eqb_eq in Hh end.
  repeat match goal with Hh : negb _ = true |- _ => apply negb_true_iff in Hh end.
  unfold skey in E. injection E as E1 E2 E3 E4. apply mtype_rank_inj in E3.
  assert (Eon : is_on x = is_on y) by (unfold is_on; now rewrite E3).
  unfold erase. rewrite <- Eon.
  destruct x, y; cbn in *. subst.
  destruct (is_on _) eqn:On in *; cbn.
  - reflexivity.
  - repeat match goal with Hh : false || _ = true |- _ => cbn [orb] in Hh; apply Z.eqb_eq in Hh end. now subst.
Qed.

(* ---------------------------------------------------------------- duration of the merged relative view *)
Lemma sumZ_app l1 l2 : sumZ (l1 ++ l2) = sumZ l1 + sumZ l2.
Proof. induction l1 as [|x l1 IH]; cbn [app sumZ]; lia. Qed.
Lemma dur_rel_app l1 l2 : dur_rel (l1 ++ l2) = dur_rel l1 + dur_rel l2.
Proof. unfold dur_rel. now rewrite filter_app, map_app, sumZ_app. Qed.
Lemma dur_rel_single m : dur_rel [m] = if is_wait m then m_time m else 0.
Proof. unfold dur_rel. cbn [filter]. destruct (is_wait m); cbn; lia. Qed.

Definition maxt (l : list msg) (c : Z) : Z := fold_left (fun c m => Z.max c (m_time m)) l c.

Lemma maxt_cons m l c : maxt (m :: l) c = maxt l (Z.max c (m_time m)).
Proof. reflexivity. Qed.

Lemma dur_to_rel_aux l : forall cur f, dur_rel (to_rel_aux l cur f) = maxt l cur - cur.
Proof.
  induction l as [|m l IH]; intros cur f; [cbn; lia|].
  cbn [to_rel_aux]. cbv zeta. rewrite !dur_rel_app, IH. rewrite maxt_cons.
  assert (E0 : dur_rel (if mtype_eqb (m_type m) INTERNAL then [] else [strip_time m]) = 0).
  { destruct (mtype_eqb (m_type m) INTERNAL); [reflexivity|]. rewrite dur_rel_single. now destruct (is_wait _). }
  rewrite E0.
  destruct (cur <? m_time m) eqn:E; [apply Z.ltb_lt in E|apply Z.ltb_ge in E].
  - rewrite dur_rel_single. cbn. rewrite Z.max_r by lia. lia.
  - rewrite Z.max_l by lia. cbn. lia.
Qed.

Lemma maxt_spec l : forall c T,
  (forall x, In x l -> m_time x <= T) -> c <= T -> (c = T \/ exists x, In x l /\ m_time x = T) -> maxt l c = T.
Proof.
  induction l as [|m l IH]; intros c T B C H.
  - cbn. destruct H as [H|(x & [] & _)]. exact H.
  - rewrite maxt_cons.
    assert (Bm : m_time m <= T) by (apply B; now left).
    apply IH; [intros x Hx; apply B; now right|lia|].
    destruct H as [H|(x & [<-|Hx] & Ex)]; [left; lia|left; lia|right; eauto].
Qed.

(* waits of a list are all non-negative *)
Definition waits_nonneg (l : list msg) : bool := forallb (fun m => negb (is_wait m) || (0 <=? m_time m)) l.

Lemma to_rel_aux_waits l : forall cur f, waits_nonneg (to_rel_aux l cur f) = true.
Proof.
  unfold waits_nonneg. induction l as [|m l IH]; intros cur f; [reflexivity|].
  cbn [to_rel_aux]. cbv zeta. rewrite !forallb_app, IH, andb_true_r. apply andb_true_intro. split.
  - destruct (cur <? m_time m) eqn:E; [|reflexivity]. apply Z.ltb_lt in E. cbn [forallb]. rewrite andb_true_r.
    apply orb_true_iff. right. apply Z.leb_le. cbn. lia.
  - destruct (mtype_eqb (m_type m) INTERNAL); [reflexivity|]. cbn [forallb]. rewrite andb_true_r.
    apply orb_true_iff. right. reflexivity.
Qed.

Definition dstate (s : nstate) : Z := dur_rel (n_out s) + n_wait s.

Lemma flush_dstate s c m : is_wait m = false -> 0 <= n_wait s ->
  dstate (flush s c m) = dstate s /\ 0 <= n_wait (flush s c m).
Proof.
  intros W N. unfold dstate, flush. cbn [n_out n_wait].
  destruct (0 <? n_wait s) eqn:E; [apply Z.ltb_lt in E|apply Z.ltb_ge in E].
  - rewrite !dur_rel_app, !dur_rel_single, W. cbn. lia.
  - rewrite !dur_rel_app, !dur_rel_single, W. lia.
Qed.

Lemma nstep_dstate s m : (is_wait m = true -> 0 <= m_time m) -> 0 <= n_wait s ->
  dstate (nstep s m) = dstate s + (if is_wait m then m_time m else 0) /\ 0 <= n_wait (nstep s m).
Proof.
  intros Wm N. unfold nstep, is_wait in *.
  destruct (m_type m) eqn:T; cbn [mtype_eqb mtype_rank Z.eqb Pos.eqb] in *;
    try (rewrite Z.add_0_r; apply flush_dstate; [unfold is_wait; now rewrite T|exact N]).
  - destruct (okey_eqb (m_key m) (n_key s)); [split; [lia|exact N]|].
    rewrite Z.add_0_r.
    apply (flush_dstate (mkn (n_open s) (n_out s) (n_wait s) (n_waitf s) (n_ts s) (m_key m)));
      [unfold is_wait; now rewrite T|exact N].
  - destruct ((m_num m =? fst (n_ts s)) && (m_den m =? snd (n_ts s))); [split; [lia|exact N]|].
    rewrite Z.add_0_r.
    apply (flush_dstate (mkn (n_open s) (n_out s) (n_wait s) (n_waitf s) (m_num m, m_den m) (n_key s)));
      [unfold is_wait; now rewrite T|exact N].
  - destruct (depth (m_chan m, m_note m) (n_open s)) as [|d]; [split; [lia|exact N]|].
    destruct d; [|split; [unfold dstate; cbn [n_out n_wait]; lia|exact N]].
    rewrite Z.add_0_r.
    apply (flush_dstate (mkn (dset k2_eqb (m_chan m, m_note m) 0%nat (n_open s)) (n_out s) (n_wait s) (n_waitf s) (n_ts s) (n_key s)));
      [unfold is_wait; now rewrite T|exact N].
  - destruct (depth (m_chan m, m_note m) (n_open s)) as [|d]; [|split; [unfold dstate; cbn [n_out n_wait]; lia|exact N]].
    rewrite Z.add_0_r.
    apply (flush_dstate (mkn (dset k2_eqb (m_chan m, m_note m) 1%nat (n_open s)) (n_out s) (n_wait s) (n_waitf s) (n_ts s) (n_key s)));
      [unfold is_wait; now rewrite T|exact N].
  - specialize (Wm eq_refl). unfold dstate. cbn [n_out n_wait]. lia.
Qed.

Lemma fold_nstep_dstate l : forall s, waits_nonneg l = true -> 0 <= n_wait s ->
  dstate (fold_left nstep l s) = dstate s + dur_rel l /\ 0 <= n_wait (fold_left nstep l s).
Proof.
  induction l as [|m l IH]; intros s W N.
  - cbn [fold_left]. unfold dur_rel. cbn. split; [lia|exact N].
  - unfold waits_nonneg in W. cbn [forallb] in W. apply andb_prop in W as [W1 W2].
    assert (Wm : is_wait m = true -> 0 <= m_time m).
    { intros E. rewrite E in W1. cbn in W1. now apply Z.leb_le. }
    destruct (nstep_dstate s m Wm N) as [D1 N1]. cbn [fold_left].
    destruct (IH (nstep s m) W2 N1) as [D2 N2]. split; [|exact N2].
    rewrite D2, D1. change (m :: l) with ([m] ++ l). rewrite dur_rel_app, dur_rel_single. lia.
Qed.

Lemma remove_last_on_waits k l : filter is_wait (fst (remove_last_on k l)) = filter is_wait l.
Proof.
  induction l as [|m l IH]; [reflexivity|]. cbn [remove_last_on].
  destruct (remove_last_on k l) as [r found]. cbn [fst] in *. destruct found.
  - cbn [fst filter]. now rewrite IH.
  - destruct (is_on m && k2_eqb k (m_chan m, m_note m)) eqn:E.
    + cbn [fst filter]. apply andb_prop in E as [E _].
      assert (W : is_wait m = false) by (unfold is_on, is_wait in *; destruct (m_type m); cbn in *; congruence).
      now rewrite W.
    + cbn [fst filter]. now rewrite IH.
Qed.

Lemma cleanup_dur o : forall out, dur_rel (cleanup o out) = dur_rel out.
Proof.
  unfold cleanup. induction o as [|[k d] o IH]; intros out; [reflexivity|].
  cbn [fold_left fst snd]. destruct d; [apply IH|]. rewrite IH. unfold dur_rel. now rewrite remove_last_on_waits.
Qed.

Lemma normalise_dur l : waits_nonneg l = true -> dur_rel (normalise l) = dur_rel l.
Proof.
  intros W. unfold normalise. cbv zeta. rewrite cleanup_dur.
  destruct (fold_nstep_dstate l (mkn [] [] 0 false (NONE, NONE) None) W) as [D N]; [cbn; lia|].
  set (s := fold_left nstep l _) in *. unfold dstate in D. cbn [n_out n_wait] in D.
  change (dur_rel []) with 0 in D.
  destruct (0 <? n_wait s) eqn:E; [apply Z.ltb_lt in E|apply Z.ltb_ge in E].
  - rewrite dur_rel_app, dur_rel_single. cbn. lia.
  - lia.
Qed.

Lemma C15_duration_rel (a : list msg) (others : list (list msg)) (m : msg) :
  last_opt (merge_abs a others) = Some m ->
  dur_rel (normalise (to_rel (merge_abs a others))) = Z.max 0 (m_time m).
Proof.
  intros L. destruct (C15_duration a others m L) as (Hm & Hmax & _).
  destruct (C15_perm a others) as [P _].
  rewrite normalise_dur by apply to_rel_aux_waits. unfold to_rel. rewrite dur_to_rel_aux, Z.sub_0_r.
  apply maxt_spec.
  - intros x Hx. assert (m_time x <= m_time m); [|lia]. apply Hmax. eapply Permutation_in; eauto.
  - lia.
  - destruct (Z_le_gt_dec (m_time m) 0) as [Hle|Hgt]; [left; lia|right].
    exists m. split; [now apply last_opt_in|lia].
Qed.

Lemma C15_duration_rel_empty (a : list msg) (others : list (list msg)) :
  a ++ concat others = [] -> normalise (to_rel (merge_abs a others)) = [].
Proof. intros H. unfold merge_abs. rewrite H. reflexivity. Qed.

(* ---------------------------------------------------------------- non-vacuity and witnesses *)
Example C15_ex_rel :
  key_determines erase (ex_s1 ++ concat [ex_s2; ex_s3]) = true /\
  normalise (to_rel (merge_abs ex_s1 [ex_s2; ex_s3])) <> normalise (to_rel (merge_abs ex_s3 [ex_s1; ex_s2])).
Proof. vm_compute. split; [reflexivity|discriminate]. Qed.
Example C15_ex_plain : forallb plain_note (ex_s2 ++ concat [ex_s3]) = true.
Proof. vm_compute. reflexivity. Qed.
Example C15_ex_dur : dur_rel (normalise (to_rel (merge_abs ex_s1 [ex_s2; ex_s3]))) = 48.
Proof. vm_compute. reflexivity. Qed.
(* without the hypothesis: two inputs with different time signatures at the same tick and channel -- the signature
   in force afterwards is the one of the sequence merged last *)
Definition ex_t34 : list msg := [mk_ts 0 3 4 0 false; mk_on 0 60 90 0 false; mk_off 0 60 24 false].
Definition ex_t44 : list msg := [mk_ts 0 4 4 0 false].
Example C15_ex_sig_order :
  Permutation (ex_t34 ++ concat [ex_t44]) (ex_t44 ++ concat [ex_t34]) /\
  key_determines erase (ex_t34 ++ concat [ex_t44]) = false /\
  map erase (normalise (to_rel (merge_abs ex_t34 [ex_t44]))) <> map erase (normalise (to_rel (merge_abs ex_t44 [ex_t34]))).
Proof.
  split; [apply (merge_inputs_swap ex_t34 ex_t44 [])|]. vm_compute. split; [reflexivity|discriminate].
Qed.
