#!/bin/bash
# usage: harness/sweep.sh seed...   -> one line per property per seed (SWEEP_DIR=<copy of /verif> to run on a scratch copy)
cd ${SWEEP_DIR:-/verif}
for sd in "$@"; do
for p in C01 C02 C03 C04 C05 C06 C07 C08 C09 C10 C11 C12 C13 C14 C15 C16 C17 C18 C19 C20; do VERIF_SEED=$sd ./check $p | grep -E "^C[0-9]+:|VIOLATION" | sed "s/^/seed=$sd /" | cut -c1-260; done
done
