(* C01 -- Tokenise, encode, decode, detokenise reproduces every valid piece exactly.
   CORE level: the statements are about event lists (channel, pairing) as produced by the tokeniser's front end
   `tok_frontend`; the front end itself is not characterised here.  `core c st evs` is, verbatim, everything
   `tokenise` does after the front end (C01_tokenise_core).

   Vocabulary of the statements (all defined in Proofs/C01_rest.v, Proofs/C01_proofs.v):
   * `valid_cfg g c` (boolean): g > 0 is a grid unit that fits the step sizes (`grid_ok`: the largest step is a
     positive multiple of g and for every multiple r of g up to the largest step the greedy choice
     `largest_le steps r` is a positive multiple of g -- a finite check; the default steps [2;3;4;6;8;12;16;24]
     pass with g = 2); num_tracks >= 1; some velocity bin >= VELOCITY_MAX and no negative bin; the initial bar
     capacity is a positive multiple of g.  No condition on the four flags, the pitch range or the note values.
   * `valid_events g c evs` (boolean): event times are non-decreasing multiples of g; notes have channel in
     0..num_tracks-1, pitch in range, duration >= 0 among the note values, velocity <= VELOCITY_MAX; a time
     signature at a bar start has denominator > 0, 8*num divisible by den, scaled numerator in the signature
     range and a bar capacity that is a positive multiple of g (a time signature inside a bar is ignored by the
     tokeniser and unconstrained); other event types (INTERNAL caps) are unconstrained.  The bar position is the
     reference clock `ref_step` / `ref_run` (closed form: position = ticks mod capacity), independent of step sizes.
   * `ev_notes c i e`: for a NOTE_ON event of channel i the two messages
     [NOTE_ON pitch (value of the velocity's bin) onset; NOTE_OFF pitch offset], otherwise [].
   * `run_caps c k evs`: the ends of the bars completed while the reference clock runs over evs, plus the end of the
     last bar when it is open or holds a note (the closing rest of `tokenise`).
   * `exp_track c evs i` = the `ev_notes` of channel i in event order ++ an INTERNAL cap at every `run_caps` time.
   * `rel m`: m is a NOTE_ON, NOTE_OFF or INTERNAL message. *)
From Coq Require Import ZArith List Bool Lia Permutation.
From Model Require Import Base Util Seq Pairing Tok.
From Proofs Require Import C01_rest C01_proofs.
Import ListNotations.
Open Scope Z_scope.

(* `tokenise` = track-count check, front end, then `core` (so the theorems below are about the model's own code) *)
Theorem C01_tokenise_core : forall (c : cfg) (st : tstate) (tracks : list (list msg)),
  tokenise c st tracks =
  if negb (Z.eqb (lenZ tracks) (c_ntracks c)) then Err TokErr else do evs <- tok_frontend tracks; core c st evs.
Proof. exact C01_rest.tokenise_core. Qed.
Print Assumptions C01_tokenise_core.

(* Rests: from a loop state inside a bar (0 < rem, tbar + rem = total, everything on the grid) a rest of any grid
   length buf >= 0 never fails (no TokErr, no OutOfFuel), emits only bar tokens and rest tokens whose value is a step
   size, advances the clock by exactly buf, keeps the bar invariant, and the decoder run over the emitted tokens from
   an equal clock ends on an equal clock, having inserted an INTERNAL cap into every track at exactly each completed
   bar end (time + rem, then every `total` ticks).  Clause: "rests crossing bar lines ... on the same bar grid". *)
Theorem C01_rest_sound : forall (g : Z) (c : cfg) (s : lstate) (buf : Z) (d : dstate),
  grid_ok (c_steps c) g = true ->
  0 < l_rem s -> l_tbar s + l_rem s = l_total s -> 0 <= l_tbar s -> (g | l_rem s) -> (g | l_total s) ->
  0 <= buf -> (g | buf) ->
  d_time d = l_time s -> d_tbar d = l_tbar s -> d_total d = l_total s -> d_rem d = l_rem s ->
  exists s' new d',
    apply_rest (rest_fuel buf) c s buf = Ok s' /\ l_toks s' = l_toks s ++ new /\
    Forall (fun t => t = TBar \/ exists v, t = TRest v /\ In v (c_steps c)) new /\
    l_time s' = l_time s + buf /\ l_tbar s' = (l_tbar s + buf) mod l_total s /\
    (0 < l_rem s' /\ l_tbar s' + l_rem s' = l_total s' /\ 0 <= l_tbar s' /\ (g | l_rem s') /\ (g | l_total s')) /\
    l_total s' = l_total s /\
    foldM (detok_step c) new d = Ok d' /\
    (d_time d' = l_time s' /\ d_tbar d' = l_tbar s' /\ d_total d' = l_total s' /\ d_rem d' = l_rem s') /\
    length (d_seqs d') = length (d_seqs d) /\
    forall i, (i < length (d_seqs d))%nat ->
      Permutation (filter rel (nth i (d_seqs d') []))
        (map (mk_internal 0) (ends (Z.to_nat ((l_tbar s + buf) / l_total s)) (l_time s + l_rem s) (l_total s))
         ++ filter rel (nth i (d_seqs d) [])).
Proof. exact C01_proofs.C01_rest_sound. Qed.
Print Assumptions C01_rest_sound.

(* Clause "tokenisation succeeds": the event loop of the core accepts every valid event list (initial loop state of
   `tokenise` on the initial tstate). *)
Theorem C01_core_accepts : forall (g : Z) (c : cfg) (evs : list event),
  valid_cfg g c = true -> valid_events g c evs = true ->
  exists s1, foldM (tok_event c 0) evs
               (mkls [] 0 0 DEFAULT_TS_NUM DEFAULT_TS_DEN (bar_cap c DEFAULT_TS_NUM DEFAULT_TS_DEN)
                     (bar_cap c DEFAULT_TS_NUM DEFAULT_TS_DEN) (-1) (-1) (-1) false) = Ok s1.
Proof. exact C01_proofs.C01_core_accepts. Qed.
Print Assumptions C01_core_accepts.

(* Clause "detokenising returns, track for track, exactly the same notes (pitch, onset, duration) with each velocity
   replaced by the value of its bin, on the same bar grid, total duration rounded up to the end of the last bar":
   the core succeeds, every emitted token is in the vocabulary, the final clock is the reference clock's and sits on
   a bar start, detokenisation succeeds with num_tracks sequences, and the NOTE_ON / NOTE_OFF / INTERNAL content of
   track i is a permutation of `exp_track c evs i` (the sequences are kept time-ordered by `insort`; the order of
   simultaneous messages is not stated).  For every configuration (all flag combinations). *)
Theorem C01_core_roundtrip : forall (g : Z) (c : cfg) (evs : list event),
  valid_cfg g c = true -> valid_events g c evs = true ->
  exists toks st seqs,
    core c (tstate0 c) evs = Ok (toks, st) /\ Forall (fun t => In t (vocab c)) toks /\
    t_time st = r_time (run_end c (rclk0 c) evs) /\ t_tbar st = 0 /\
    detokenise c toks = Ok seqs /\ length seqs = Z.to_nat (c_ntracks c) /\
    forall i, (i < length seqs)%nat -> Permutation (filter rel (nth i seqs [])) (exp_track c evs i).
Proof. exact C01_proofs.C01_core_roundtrip. Qed.
Print Assumptions C01_core_roundtrip.

(* the note part of `exp_track` does not depend on the clock: it is the `ev_notes` of the events, in event order *)
Theorem C01_exp_track_notes : forall (c : cfg) (evs : list event) (i : nat),
  filter is_note (exp_track c evs i) = flat_map (ev_notes c (Z.of_nat i)) evs.
Proof. exact C01_proofs.exp_track_notes. Qed.
Print Assumptions C01_exp_track_notes.

(* Supplement to the permutation statements: whatever the tokens, every detokenised track is ordered by time (so a
   track's note/cap content is determined by C01_core_roundtrip up to the order of simultaneous messages). *)
Theorem C01_detok_sorted : forall (c : cfg) (toks : list tok) (seqs : list (list msg)),
  detokenise c toks = Ok seqs -> Forall (fun l => time_sorted l = true) seqs.
Proof. exact C01_proofs.C01_detok_sorted. Qed.
Print Assumptions C01_detok_sorted.

(* Clause "encoded-then-decoded": whenever `encode` succeeds, `decode` gives the tokens back.  No hypothesis (in
   particular no NoDup of the vocabulary is needed: encode takes the last index, decode re-checks it). *)
Theorem C01_encode_decode : forall (c : cfg) (ts : list tok) (ids : list Z),
  encode c ts = Ok ids -> decode c ids = Ok ts.
Proof. exact C01_proofs.C01_encode_decode. Qed.
Print Assumptions C01_encode_decode.

(* The whole core pipeline: tokens -> ids -> tokens -> sequences. *)
Theorem C01_core_pipeline : forall (g : Z) (c : cfg) (evs : list event),
  valid_cfg g c = true -> valid_events g c evs = true ->
  exists toks st ids seqs,
    core c (tstate0 c) evs = Ok (toks, st) /\ encode c toks = Ok ids /\ decode c ids = Ok toks /\
    detokenise c toks = Ok seqs /\ length seqs = Z.to_nat (c_ntracks c) /\
    forall i, (i < length seqs)%nat -> Permutation (filter rel (nth i seqs [])) (exp_track c evs i).
Proof. exact C01_proofs.C01_core_pipeline. Qed.
Print Assumptions C01_core_pipeline.
