
(* ---------------------------------------------------------------- signature clause *)
From Proofs Require Import Sig_glue C15_sigs.
(* Definitions (Proofs/Sig_glue.v), all independent of the model functions:
     ts_events a  := (tick, (numerator, denominator)) of every TIME_SIGNATURE message of the ABSOLUTE list a, in list order
     ks_events a  := (tick, key) of every KEY_SIGNATURE message of a;     tsig := Z * Z, ts_none := (-1,-1) = "none"
     rts_events r / rks_events r := the same for a RELATIVE list r (tick = sum of the WAITs before the message)
     dedup_ts prev l := l without every event whose signature equals that of the previously KEPT event (prev before the
                        list; see C15_sig_dedup_unfold);  dedup_ks likewise with option Key
     ts_in_force d l t := signature of the entry of l with the greatest tick <= t (of several at that tick the last one),
                        d if there is none; for a list with non-decreasing ticks: of the last entry with tick <= t
                        (C15_sig_in_force_sorted);   ks_in_force likewise
     ev_sorted l := ticks non-decreasing;   ts_clash_free l / ks_clash_free l := no two different signatures share a tick *)

Theorem C15_sig_dedup_unfold : forall prev c v l,
  dedup_ts prev [] = [] /\
  dedup_ts prev ((c, v) :: l) = (if ts_eqb v prev then dedup_ts prev l else (c, v) :: dedup_ts v l).
Proof. intros. split; [reflexivity|apply dedup_ts_cons]. Qed.
Print Assumptions C15_sig_dedup_unfold.

Theorem C15_sig_in_force_sorted : forall d l t, ev_sorted l = true ->
  ts_in_force d l t = last_le d l t /\
  last_le d l t = match l with [] => d | (c, v) :: l' => if c <=? t then last_le v l' t else last_le d l' t end.
Proof. intros d l t S. split; [now apply ts_in_force_sorted|]. destruct l as [|[c v] l']; reflexivity. Qed.
Print Assumptions C15_sig_in_force_sorted.

(* clause "every signature event that does not repeat the one in force is kept at its tick" -- FULL for inputs with
   non-negative times: both views of the merged, normalised sequence (the relative view Sequence.merge leaves fresh and
   the absolute view regenerated from it) carry exactly the signature events of the sorted merged list that do not
   repeat the signature in force, in the same order, at the same ticks -- whatever the notes are *)
Theorem C15_signatures : forall (a : list msg) (others : list (list msg)),
  forallb nnt (a :: others) = true ->
  let M := merge_abs a others in
  let r := normalise (to_rel M) in
  rts_events r = dedup_ts ts_none (ts_events M) /\ rks_events r = dedup_ks None (ks_events M) /\
  ts_events (to_abs r) = dedup_ts ts_none (ts_events M) /\ ks_events (to_abs r) = dedup_ks None (ks_events M).
Proof. exact C15_sigs.C15_signatures. Qed.
Print Assumptions C15_signatures.

(* the signature events of the sorted merged list are the inputs' signature events (multiset), ticks non-decreasing *)
Theorem C15_signatures_merged : forall (a : list msg) (others : list (list msg)),
  (Permutation (ts_events (merge_abs a others)) (ts_events (a ++ concat others)) /\
   ev_sorted (ts_events (merge_abs a others)) = true) /\
  (Permutation (ks_events (merge_abs a others)) (ks_events (a ++ concat others)) /\
   ev_sorted (ks_events (merge_abs a others)) = true).
Proof.
  intros a others. destruct (C15_sigs.merge_ts_events a others) as (_ & H1 & H2).
  destruct (C15_sigs.merge_ks_events a others) as (_ & H3 & H4). auto.
Qed.
Print Assumptions C15_signatures_merged.

(* lifted to the Sequence wrapper (Store.seq_merge = Sequence.merge) *)
Theorem C15_signatures_seq : forall (s s1 : seq) (others os : list seq) (a : list msg) (as_ : list (list msg)),
  get_abs s = Ok (s1, a) -> refresh_abs_all others = Ok (os, as_) -> forallb nnt (a :: as_) = true ->
  exists m m' v, seq_merge s others = Ok (m, os) /\ get_abs m = Ok (m', v) /\
    rts_events (s_rel m) = dedup_ts ts_none (ts_events (merge_abs a as_)) /\
    rks_events (s_rel m) = dedup_ks None (ks_events (merge_abs a as_)) /\
    ts_events v = dedup_ts ts_none (ts_events (merge_abs a as_)) /\
    ks_events v = dedup_ks None (ks_events (merge_abs a as_)).
Proof. exact C15_sigs.C15_signatures_seq. Qed.
Print Assumptions C15_signatures_seq.

(* consequence: at every tick the signature in force in the result is the one in force in the sorted merged list *)
Theorem C15_signatures_in_force_sorted : forall (a : list msg) (others : list (list msg)) (t : Z),
  forallb nnt (a :: others) = true ->
  let M := merge_abs a others in
  ts_in_force ts_none (ts_events (to_abs (normalise (to_rel M)))) t = ts_in_force ts_none (ts_events M) t /\
  ks_in_force None (ks_events (to_abs (normalise (to_rel M)))) t = ks_in_force None (ks_events M) t.
Proof. exact C15_sigs.C15_signatures_in_force_sorted. Qed.
Print Assumptions C15_signatures_in_force_sorted.

(* ... and, PROVIDED no two different signatures of that type share a tick across all inputs (then "in force" is well
   defined for a multiset), the one in force in the multiset union of the inputs' signature events *)
Theorem C15_signatures_in_force_ts : forall (a : list msg) (others : list (list msg)) (t : Z),
  forallb nnt (a :: others) = true -> ts_clash_free (ts_events (a ++ concat others)) = true ->
  ts_in_force ts_none (ts_events (to_abs (normalise (to_rel (merge_abs a others))))) t
  = ts_in_force ts_none (ts_events (a ++ concat others)) t.
Proof. exact C15_sigs.C15_signatures_in_force_ts. Qed.
Print Assumptions C15_signatures_in_force_ts.

Theorem C15_signatures_in_force_ks : forall (a : list msg) (others : list (list msg)) (t : Z),
  forallb nnt (a :: others) = true -> ks_clash_free (ks_events (a ++ concat others)) = true ->
  ks_in_force None (ks_events (to_abs (normalise (to_rel (merge_abs a others))))) t
  = ks_in_force None (ks_events (a ++ concat others)) t.
Proof. exact C15_sigs.C15_signatures_in_force_ks. Qed.
Print Assumptions C15_signatures_in_force_ks.

(* hence the signatures in force do not depend on the order in which the sequences are merged *)
Theorem C15_signatures_order : forall (a b : list msg) (o1 o2 : list (list msg)) (t : Z),
  Permutation (a ++ concat o1) (b ++ concat o2) ->
  forallb nnt (a :: o1) = true -> forallb nnt (b :: o2) = true ->
  (ts_clash_free (ts_events (a ++ concat o1)) = true ->
   ts_in_force ts_none (ts_events (to_abs (normalise (to_rel (merge_abs a o1))))) t
   = ts_in_force ts_none (ts_events (to_abs (normalise (to_rel (merge_abs b o2))))) t) /\
  (ks_clash_free (ks_events (a ++ concat o1)) = true ->
   ks_in_force None (ks_events (to_abs (normalise (to_rel (merge_abs a o1))))) t
   = ks_in_force None (ks_events (to_abs (normalise (to_rel (merge_abs b o2))))) t).
Proof. exact C15_sigs.C15_signatures_order. Qed.
Print Assumptions C15_signatures_order.

(* the underlying fact about normalise alone (Sig_glue): for ANY key-sorted absolute list with non-negative times --
   and, in the relative view, any time-sorted one -- normalise keeps exactly the signature events that do not repeat
   the one in force, at their ticks *)
Theorem C15_signatures_normalise : forall a : list msg, nnt a = true ->
  (tsorted a = true ->
   rts_events (normalise (to_rel a)) = dedup_ts ts_none (ts_events a) /\
   rks_events (normalise (to_rel a)) = dedup_ks None (ks_events a)) /\
  (sortedb a = true ->
   ts_events (to_abs (normalise (to_rel a))) = dedup_ts ts_none (ts_events a) /\
   ks_events (to_abs (normalise (to_rel a))) = dedup_ks None (ks_events a)).
Proof.
  intros a N. split; intros S.
  - split; [now apply round_rts|now apply round_rks].
  - split; [now apply round_ts|now apply round_ks].
Qed.
Print Assumptions C15_signatures_normalise.

(* the proviso of C15_signatures_in_force_ts is needed: two inputs with different time signatures at one tick -- which
   of them is in force depends on the merge order (cf. C15_order_signature_refuted) *)
Theorem C15_signatures_in_force_proviso_needed : exists (a b : list msg),
  forallb nnt [a; b] = true /\ ts_clash_free (ts_events (a ++ concat [b])) = false /\
  ts_in_force ts_none (ts_events (to_abs (normalise (to_rel (merge_abs a [b]))))) 0
  <> ts_in_force ts_none (ts_events (to_abs (normalise (to_rel (merge_abs b [a]))))) 0.
Proof.
  exists [mk_ts 0 3 4 0 false], [mk_ts 0 4 4 0 false]. split; [reflexivity|]. split; [reflexivity|].
  vm_compute. discriminate.
Qed.
Print Assumptions C15_signatures_in_force_proviso_needed.

(* non-negative times are needed for the TICKS: to_rel moves a message with a negative time to tick 0 *)
Theorem C15_signatures_negative_time_refuted : exists a : list msg,
  nnt a = false /\ ts_events (merge_abs a []) = [(-5, (3, 4))] /\
  ts_events (to_abs (normalise (to_rel (merge_abs a [])))) = [(0, (3, 4))].
Proof. exists [mk_ts 0 3 4 (-5) false]. vm_compute. repeat split; reflexivity. Qed.
Print Assumptions C15_signatures_negative_time_refuted.
